#!/usr/bin/env python3
"""Generates harness-sm/src/main.rs: `n` make_static_metric! / make_auto_flush_static_metric! declarations drawn
from a grammar (1-4 labels x 1-4 values, inline / label_enum / renamed values, counter / int counter / gauge /
int gauge / histogram and their local and auto-flush forms, permuted backing label order) plus code that walks
every field path, every get(enum) and try_get(str) chain (declared and undeclared values), updates the addressed
metric (and flushes local / auto-flush forms) and reports which child of the backing vector changed.

The program prints `REQ<TAB>IMPL<TAB>EXPECT` lines: REQ is the request the Lean model answers, IMPL what the real
generated code did, EXPECT what the declaration says (computed here, independently of both)."""
import random, sys, os

def hx(s):
    return s.encode().hex() if s else "~"

FIELDS = ["foo", "bar", "post", "get", "put", "v1", "v2", "a", "b_c", "x9", "r#type"]
VALUES = ["HTTP/1", "HTTP 2", "post_name", "bar-name", "x.y", "0", "Foo"]
KEYS = ["method", "product", "version", "zone", "k"]
TYPES = [("Counter", "CounterVec", False, "c"), ("IntCounter", "IntCounterVec", False, "c"), ("Gauge", "GaugeVec", False, "c"), ("IntGauge", "IntGaugeVec", False, "c"),
         ("Histogram", "HistogramVec", False, "h"), ("LocalCounter", "CounterVec", True, "c"), ("LocalIntCounter", "IntCounterVec", True, "c"), ("LocalHistogram", "HistogramVec", True, "h")]
AF_TYPES = [("LocalCounter", "CounterVec", "c"), ("LocalIntCounter", "IntCounterVec", "c"), ("LocalHistogram", "HistogramVec", "h")]

def gen_decl(rng, idx):
    # the first 12 declarations cover the grid {plain, local, auto-flush} x {1, 2, 3, 4 labels}; further ones are random
    grid = idx < 12
    nl = (idx // 3 + 1) if grid else rng.choice([1, 2, 2, 3, 3, 4])
    keys = rng.sample(KEYS, nl)
    labels = []; enums = []
    for li, k in enumerate(keys):
        # declaration 0 of the grid has one label with ten values, most of them renamed (generated lookup tables for long value lists)
        many = grid and idx == 0 and li == 0
        # declarations 1 and 4 of the grid: a label with four values whose first two names share one value (values declared AFTER the
        # duplicate must still be addressed by their own names / strings)
        dup_first = grid and idx in (1, 4) and li == 0
        nv = 10 if many else (4 if dup_first else rng.randint(1, 4))
        fields = rng.sample(FIELDS, nv)
        vals = []
        used = set()
        for f in fields:
            v = f
            if rng.random() < (0.7 if many else 0.35):
                v = rng.choice(VALUES)
            if v in used:
                v = f
            used.add(v)
            vals.append((f, v))
        # aliases: two field names declared with the SAME label value address the same child
        if dup_first:
            vals[1] = (vals[1][0], vals[0][1])
        elif nv >= 2 and rng.random() < 0.25:
            a, b = rng.sample(range(nv), 2)
            vals[b] = (vals[b][0], vals[a][1])
        as_enum = rng.random() < 0.45
        labels.append(dict(key=k, values=vals, enum=("E%d_%d" % (idx, li)) if as_enum else None))
    flavour = (idx % 3) if grid else (2 if rng.random() < 0.3 else rng.choice([0, 0, 1]))
    if flavour == 2:
        t = rng.choice(AF_TYPES); ty = dict(metric=t[0], vec=t[1], local=True, kind=t[2], af=True)
    else:
        pool = [x for x in TYPES if x[2] == (flavour == 1)]
        # in the grid, the metric kinds rotate with the label count so that every quick run has a local histogram (and a plain one)
        t = pool[(len(pool) - 1 - idx // 3) % len(pool)] if grid else rng.choice(pool); rng.random(); ty = dict(metric=t[0], vec=t[1], local=t[2], kind=t[3], af=False)
    if ty["af"]:
        # make_auto_flush_static_metric! builds identifiers from the value names and refuses raw identifiers at compile time
        for l in labels:
            l["values"] = [("rtype" if f == "r#type" else f, "rtype" if v == "r#type" else v) for f, v in l["values"]]
    backing = keys[:]; rng.shuffle(backing)
    return dict(idx=idx, labels=labels, ty=ty, backing=backing)

def decl_wire(d):
    return ";".join("%s:%s" % (hx(l["key"]), ",".join("%s=%s" % (hx(f), hx(v)) for f, v in l["values"])) for l in d["labels"])

def rust_decl(d):
    i = d["idx"]; out = []
    mac = "make_auto_flush_static_metric" if d["ty"]["af"] else "make_static_metric"
    out.append("    %s! {" % mac)
    for l in d["labels"]:
        if l["enum"]:
            out.append("        pub label_enum %s {" % l["enum"])
            for f, v in l["values"]:
                out.append('            %s%s,' % (f, "" if v == f else ': "%s"' % v))
            out.append("        }")
    out.append("        pub struct M%d: %s {" % (i, d["ty"]["metric"]))
    for l in d["labels"]:
        if l["enum"]:
            out.append('            "%s" => %s,' % (l["key"], l["enum"]))
        else:
            out.append('            "%s" => {' % l["key"])
            for f, v in l["values"]:
                out.append('                %s%s,' % (f, "" if v == f else ': "%s"' % v))
            out.append("            },")
    out.append("        }")
    out.append("    }")
    return "\n".join(out)

def paths(d):
    def rec(ls):
        if not ls:
            yield []
            return
        for f, v in ls[0]["values"]:
            for r in rec(ls[1:]):
                yield [(f, v)] + r
    return list(rec(d["labels"]))

def main(seed, n, outdir):
    rng = random.Random(seed)
    decls = [gen_decl(rng, i) for i in range(n)]
    L = ["// GENERATED by tools/gen_sm.py seed=%d n=%d" % (seed, n), "#![allow(non_camel_case_types, dead_code, unused_imports, unused_variables, non_snake_case)]",
         "use prometheus::core::Collector;", "use prometheus::*;", "use prometheus_static_metric::*;", "use lazy_static::lazy_static;", "",
         "fn snap(mfs: Vec<proto::MetricFamily>, hist: bool) -> Vec<(Vec<(String, String)>, u64)> {",
         "    mfs[0].get_metric().iter().map(|m| { let mut l: Vec<(String, String)> = m.get_label().iter().map(|p| (p.name().to_string(), p.value().to_string())).collect(); l.sort();",
         "        (l, if hist { m.get_histogram().get_sample_count() } else if mfs[0].get_field_type() == proto::MetricType::GAUGE { m.get_gauge().value() as u64 } else { m.get_counter().value() as u64 }) }).collect()",
         "}",
         "fn hx(s: &str) -> String { if s.is_empty() { \"~\".into() } else { s.bytes().map(|b| format!(\"{:02x}\", b)).collect() } }",
         "fn changed(before: &[(Vec<(String, String)>, u64)], after: &[(Vec<(String, String)>, u64)], want: u64) -> String {",
         "    let mut ch = vec![]; for (l, v) in after { let b = before.iter().find(|x| &x.0 == l).map(|x| x.1).unwrap_or(0); if *v != b { ch.push((l.clone(), *v - b)); } }",
         "    if ch.len() == 1 && ch[0].1 == want { format!(\"ok {}\", ch[0].0.iter().map(|(k, v)| format!(\"{}:{}\", hx(k), hx(v))).collect::<Vec<_>>().join(\",\")) } else if ch.is_empty() { \"nochange\".into() } else if ch.len() == 1 { format!(\"delivered{}of{}\", ch[0].1, want) } else { format!(\"multi{}\", ch.len()) }",
         "}", ""]
    for d in decls:
        i = d["idx"]; ty = d["ty"]
        L.append("mod d%d {" % i); L.append("    use super::*;"); L.append(rust_decl(d))
        backing = ", ".join('"%s"' % k for k in d["backing"])
        ctor = ('HistogramVec::new(HistogramOpts::new("m%d", "h").buckets(vec![10.0]), &[%s]).unwrap()' % (i, backing)) if ty["kind"] == "h" else ('%s::new(Opts::new("m%d", "h"), &[%s]).unwrap()' % (ty["vec"], i, backing))
        if ty["af"]:
            L.append("    lazy_static! { pub static ref VEC: %s = %s; }" % (ty["vec"], ctor))
            L.append("    lazy_static! { pub static ref M: M%d = auto_flush_from!(VEC, M%d, std::time::Duration::from_secs(3600)); }" % (i, i))
        L.append("    pub fn run() {")
        if ty["af"]:
            L.append("        let vec: &%s = &VEC; let m: &M%d = &M;" % (ty["vec"], i))
        else:
            L.append("        let vec_owned = %s; let vec = &vec_owned; let m_owned = M%d::from(vec); let m = &m_owned;" % (ctor, i))
        hist = "true" if ty["kind"] == "h" else "false"
        upd = ".observe(1.0)" if ty["kind"] == "h" else ".inc()"
        wire = decl_wire(d); order = ",".join(hx(k) for k in d["backing"])
        def emit(acc, access_expr, path_wire, expect, opt=False, timed=False):
            L.append("        {")
            L.append("            let before = snap(vec.collect(), %s);" % hist)
            if opt:
                L.append("            let r = match %s { Some(h) => { h%s; %s let after = snap(vec.collect(), %s); changed(&before, &after, 1) } None => \"none\".to_string() };" % (access_expr, upd, flush_stmt("h"), hist))
            elif timed:
                # two updates through the same leaf before one flush: a plain observation and a timer that is dropped; the flush must deliver both, each once
                L.append("            %s%s; drop(%s.start_timer()); %s" % (access_expr, upd, access_expr, flush_stmt(access_expr)))
                L.append("            let after = snap(vec.collect(), %s); let r = changed(&before, &after, 2);" % hist)
            else:
                L.append("            %s%s; %s" % (access_expr, upd, flush_stmt(access_expr)))
                L.append("            let after = snap(vec.collect(), %s); let r = changed(&before, &after, 1);" % hist)
            L.append('            println!("sm resolve decl=%s order=%s acc=%s path=%s\\t{}\\t%s", r);' % (wire, order, acc, path_wire, expect))
            L.append("        }")
        def flush_stmt(expr):
            if ty["af"]:
                return "%s.flush();" % expr
            if ty["local"]:
                return "m.flush();"
            return ""
        for p in paths(d):
            exp = "ok " + ",".join("%s:%s" % (hx(k), hx(v)) for k, v in sorted((l["key"], fv[1]) for l, fv in zip(d["labels"], p)))
            emit("field", "m." + ".".join(f for f, _ in p), ".".join(hx(f) for f, _ in p), exp)
            if ty["kind"] == "h" and ty["local"] and not ty["af"]:
                emit("fieldtimed", "m." + ".".join(f for f, _ in p), ".".join(hx(f) for f, _ in p), exp, timed=True)
            if all(l["enum"] for l in d["labels"]) :
                emit("get", "m" + "".join(".get(%s::%s)" % (l["enum"], f) for l, (f, _) in zip(d["labels"], p)), ".".join(hx(f) for f, _ in p), exp)
            if not ty["af"]:
                chain = "Some(m)" + "".join('.and_then(|x| x.try_get("%s"))' % v for _, v in p)
                emit("tryget", chain, ".".join(hx(v) for _, v in p), exp, opt=True)
        if not ty["af"]:
            # undeclared values: a field NAME that is not a value, a value with a suffix
            for li, l in enumerate(d["labels"]):
                good = paths(d)[0]
                for bad in ([f for f, v in l["values"] if f != v and f not in [vv for _, vv in l["values"]]][:1] + [l["values"][0][1] + "_x"]):
                    vals = [v for _, v in good]; vals[li] = bad
                    chain = "Some(m)" + "".join('.and_then(|x| x.try_get("%s"))' % v for v in vals)
                    emit("tryget", chain, ".".join(hx(v) for v in vals), "none", opt=True)
        L.append("    }"); L.append("}"); L.append("")
    L.append("fn main() {")
    for d in decls:
        L.append("    d%d::run();" % d["idx"])
    L.append("}")
    os.makedirs(os.path.join(outdir, "src"), exist_ok=True)
    open(os.path.join(outdir, "src", "main.rs"), "w").write("\n".join(L) + "\n")
    return decls

if __name__ == "__main__":
    main(int(sys.argv[1]), int(sys.argv[2]), sys.argv[3])
