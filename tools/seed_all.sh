#!/bin/bash
# usage: seed_all.sh <Cxx> <n> "<needs>" <check id>...   confirm in the scratch worktree, store under /verif/seeded, try against the checks
id=$1; n=$2; needs=$3; shift 3
ddir=tests; [ "$id" = C19 ] && ddir=static-metric/tests
conf=$(/verif/tools/seed_confirm.sh $id $n $ddir 2>&1 | tail -1)
echo "$conf"
case "$conf" in
  *"demo_with=[test result: FAILED"*"demo_without=[test result: ok"*) ;;
  *) echo "NOT CONFIRMED $id/$n"; exit 1 ;;
esac
/verif/tools/seed_store.sh $id $n "$needs" "$conf"
/verif/tools/seed_try.sh $id-$n "$@"
