#!/bin/bash
# usage: seed_sweep.sh [seed dir ...]   applies every stored seeded change to /repo in turn, runs the quick check of the property it breaks,
# reverts, and writes /verif/seeded/RESULTS.tsv (seed, property, outcome). Evidence files are refreshed from the clean tree at the end.
cd /repo && [ -z "$(git status --porcelain)" ] || { echo "/repo not clean"; exit 2; }
out=/verif/seeded/RESULTS.tsv; : > $out.tmp
seeds=${@:-$(ls /verif/seeded | grep -E '^C[0-9]+-[0-9]+$' | sort -V)}
for s in $seeds; do
  c=${s%-*}
  git -C /repo apply /verif/seeded/$s/patch.diff || { echo -e "$s\t$c\tpatch-does-not-apply" >> $out.tmp; continue; }
  r=$(cd /verif && ./check $c quick 2>&1 | grep -E "^VIOLATION|^OK" | head -1)
  git -C /repo checkout -- . && git -C /repo clean -fdq src static-metric proto
  case "$r" in
    *no-failing-input-found*) o="detected (broken proof/correspondence, no-failing-input-found)";;
    VIOLATION*) o="detected (failing input / schedule / history)";;
    *) o="MISSED";;
  esac
  echo -e "$s\t$c\t$o" | tee -a $out.tmp
done
# merge: new results replace old lines of the same seed
( [ -f $out ] && grep -v -F -f <(cut -f1 $out.tmp | sed "s/$/\t/") $out; cat $out.tmp ) | sort -V > $out.new; mv $out.new $out; rm -f $out.tmp
for c in $(cut -f2 $out | sort -u); do (cd /verif && ./check $c quick >/dev/null 2>&1); done
