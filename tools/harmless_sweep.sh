#!/bin/bash
# usage: harmless_sweep.sh [H<i>-<j> ...]   applies every stored behaviour-preserving refactoring (harmless/<id>/patch.diff) to /repo in turn,
# runs ALL quick checks, reverts, and writes /verif/harmless/RESULTS.tsv (refactoring, property, outcome). A VIOLATION here is, by construction,
# a tie that a harmless rewrite breaks (expected to end in no-failing-input-found); a failing input would be a false alarm of an oracle.
cd /repo && [ -z "$(git status --porcelain)" ] || { echo "/repo not clean"; exit 2; }
out=/verif/harmless/RESULTS.tsv; : > $out.tmp
hs=${@:-$(ls /verif/harmless | grep -E '^H[0-9]+-[0-9]+$' | sort -V)}
# PROPS="C01 C07" restricts the sweep to some properties (results of the others are kept)
props=${PROPS:-$(for i in $(seq -w 1 20); do echo C$i; done)}
for h in $hs; do
  git -C /repo apply /verif/harmless/$h/patch.diff || { echo -e "$h\t-\tpatch-does-not-apply" >> $out.tmp; continue; }
  for c in $props; do
    r=$(cd /verif && ./check $c quick 2>&1 | grep -E "^VIOLATION|^OK" | head -1)
    case "$r" in
      *no-failing-input-found*) o="tie broken (no-failing-input-found)";;
      VIOLATION*) o="ALARM with failing input: $(echo "$r" | cut -c1-80)";;
      OK*) o="quiet";;
      *) o="check did not finish";;
    esac
    [ "$o" = quiet ] || { mkdir -p /verif/harmless/$h/replays; rp=$(echo "$r" | sed -n 's/.*replay=\([^ ]*\).*/\1/p'); [ -n "$rp" ] && cp /verif/$rp /verif/harmless/$h/replays/$c.txt 2>/dev/null; }
    echo -e "$h\t$c\t$o" | tee -a $out.tmp
  done
  git -C /repo checkout -- . && git -C /repo clean -fdq src static-metric proto
done
( [ -f $out ] && grep -v -F -f <(cut -f1,2 $out.tmp | sort -u | sed "s/$/\t/") $out; cat $out.tmp ) | sort -V > $out.new; mv $out.new $out; rm -f $out.tmp
for c in $props; do (cd /verif && ./check $c quick >/dev/null 2>&1); done
