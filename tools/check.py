#!/usr/bin/env python3
"""Orchestrator: ./check <id> quick|thorough | ./check <id> --replay <file>

Layers (reported separately in the evidence):
  1 proof          lake build of Prom.Props.<id> (+ regenerated tables), sorry/axiom audit
  2 correspondence same request lines through the real crate (pv-harness) and the Lean driver
  3 oracle         the property's own oracle evaluated on the implementation's results
A broken layer 1 or 2 is not by itself a violation: the check then searches the
implementation for a failing input (layer 3, more seeds); if none is found the
VIOLATION line ends with no-failing-input-found and the replay file names what broke.
"""
import fcntl, json, os, re, subprocess, sys, time, shutil, glob

ROOT = os.path.dirname(os.path.dirname(os.path.abspath(__file__)))
sys.path.insert(0, os.path.join(ROOT, "tools"))
from props import PROPS, TB_COMMON

LEAN = os.path.join(ROOT, "lean")
HARNESS = os.path.join(ROOT, "harness")
REPO = os.environ.get("VERIF_REPO", "/repo")
ALLOWED_AXIOMS = {"propext", "Classical.choice", "Quot.sound"}
BAD_TOKENS = re.compile(r"\bsorry\b|\badmit\b|^\s*axiom\s|native_decide|bv_decide|implemented_by|\bunsafe\s|maxHeartbeats\s+0")


def sh(cmd, cwd=None, timeout=None, env=None, stdin=None):
    e = dict(os.environ)
    e.update({"CARGO_NET_OFFLINE": "true"})
    if env:
        e.update(env)
    p = subprocess.run(cmd, cwd=cwd, stdout=subprocess.PIPE, stderr=subprocess.STDOUT, timeout=timeout, env=e, stdin=stdin)
    return p.returncode, p.stdout.decode("utf-8", "replace")


class Lock:
    def __enter__(self):
        self.f = open(os.path.join(ROOT, ".buildlock"), "w")
        fcntl.flock(self.f, fcntl.LOCK_EX)
        return self

    def __exit__(self, *a):
        fcntl.flock(self.f, fcntl.LOCK_UN)
        self.f.close()


def translators():
    """regenerate lean/Prom/Gen/*.lean from /repo's working tree"""
    msgs = []
    for script, out in [("consts.py", "Consts.lean"), ("macros.py", "MacroArms.lean"), ("pbtable.py", "PbTables.lean"), ("orderings.py", "Orderings.lean"), ("charsets.py", "Charsets.lean")]:
        sp = os.path.join(ROOT, "translate", script)
        if not os.path.exists(sp):
            continue
        rc, o = sh([sys.executable, sp, REPO, os.path.join(LEAN, "Prom", "Gen", out)])
        if rc != 0:
            msgs.append("%s: %s" % (script, o.strip()))
    return msgs


GEN_OF = {"consts.py": "Prom.Gen.Consts", "macros.py": "Prom.Gen.MacroArms", "pbtable.py": "Prom.Gen.PbTables", "orderings.py": "Prom.Gen.Orderings", "charsets.py": "Prom.Gen.Charsets"}


def import_closure(module, seen=None):
    """modules of this project that `module` imports, transitively (read from the sources)"""
    seen = set() if seen is None else seen
    if module in seen or not module.startswith("Prom"):
        return seen
    seen.add(module)
    path = os.path.join(LEAN, *module.split(".")) + ".lean"
    try:
        for m in re.findall(r"^import\s+(\S+)", open(path).read(), re.M):
            import_closure(m, seen)
    except OSError:
        pass
    return seen


def translator_relevant(script, module):
    """a translator that could not read the source only concerns the properties whose theorems import what it generates"""
    g = GEN_OF.get(script)
    return g is None or g in import_closure(module)


def strip_comments(src):
    # remove /- ... -/ (nested) and -- line comments
    out = []
    i = 0
    depth = 0
    n = len(src)
    while i < n:
        if src.startswith("/-", i):
            depth += 1
            i += 2
        elif depth and src.startswith("-/", i):
            depth -= 1
            i += 2
        elif depth:
            if src[i] == "\n":
                out.append("\n")
            i += 1
        elif src.startswith("--", i):
            while i < n and src[i] != "\n":
                i += 1
        else:
            out.append(src[i])
            i += 1
    return "".join(out)


def grep_audit():
    hits = []
    for p in glob.glob(os.path.join(LEAN, "**", "*.lean"), recursive=True):
        if "/.lake/" in p:
            continue
        txt = strip_comments(open(p).read())
        for ln, l in enumerate(txt.split("\n"), 1):
            if BAD_TOKENS.search(l):
                hits.append("%s:%d: %s" % (os.path.relpath(p, LEAN), ln, l.strip()))
    return hits


def theorems_of(module):
    path = os.path.join(LEAN, *module.split(".")) + ".lean"
    txt = strip_comments(open(path).read())
    ns = re.search(r"^namespace\s+(\S+)", txt, re.M)
    ns = ns.group(1) + "." if ns else ""
    names = re.findall(r"^(?:private\s+)?theorem\s+(\S+)", txt, re.M)
    n_examples = len(re.findall(r"^example\b", txt, re.M))
    return [ns + n for n in names], n_examples


def axioms_audit(module, thms, work):
    f = os.path.join(work, "Audit.lean")
    with open(f, "w") as fh:
        fh.write("import %s\n" % module)
        for t in thms:
            fh.write("#print axioms %s\n" % t)
    rc, out = sh(["lake", "env", "lean", f], cwd=LEAN, timeout=1200)
    res = {}
    cur = None
    for m in re.finditer(r"'(\S+?)' (depends on axioms: \[([^\]]*)\]|does not depend on any axioms)", out.replace("\n", " ")):
        axs = [a.strip() for a in (m.group(3) or "").split(",") if a.strip()]
        res[m.group(1)] = axs
    return rc, out, res


def build_lean(module):
    t = time.time()
    rc, out = sh(["lake", "build", module, "driver"], cwd=LEAN, timeout=3600)
    return rc, out, time.time() - t


def build_harness():
    lock = os.path.join(HARNESS, "Cargo.lock")
    if not os.path.exists(lock):
        shutil.copy(os.path.join(REPO, "Cargo.lock"), lock)
    rc, out = sh(["cargo", "build", "--offline"], cwd=HARNESS, timeout=3600)
    plain = os.path.join(ROOT, "harness-plain")
    if rc == 0 and os.path.isdir(plain):
        lock = os.path.join(plain, "Cargo.lock")
        if not os.path.exists(lock):
            shutil.copy(os.path.join(REPO, "Cargo.lock"), lock)
        rc, out2 = sh(["cargo", "build", "--offline"], cwd=plain, timeout=3600)
        out += out2
    return rc, out


def run_sm_programs(seed, n, out):
    """area `sm` (C19): generate a program of n macro declarations, compile it with the REAL proc-macro, run it"""
    smdir = os.path.join(ROOT, "harness-sm")
    rc, o = sh([sys.executable, os.path.join(ROOT, "tools", "gen_sm.py"), str(seed), str(n), smdir])
    if rc != 0:
        return "gen_sm.py failed: " + o[-1500:]
    lock = os.path.join(smdir, "Cargo.lock")
    if not os.path.exists(lock):
        shutil.copy(os.path.join(REPO, "Cargo.lock"), lock)
    with Lock():
        rc, o = sh(["cargo", "build", "--offline"], cwd=smdir, timeout=3600)
    if rc != 0:
        errs = [l for l in o.split("\n") if l.startswith("error")][:8]
        return "the generated static-metric program (seed %s, %s declarations) does not compile against /repo: %s" % (seed, n, "; ".join(errs))
    rc, o = sh([os.path.join(smdir, "target", "debug", "pv-sm")], timeout=1800)
    if rc != 0:
        return "the generated static-metric program exited %d: %s" % (rc, o[-1500:])
    rows = [l.split("\t") for l in o.split("\n") if l.startswith("sm ")]
    with open(os.path.join(out, "sm.req"), "w") as fr, open(os.path.join(out, "sm.impl"), "w") as fi, open(os.path.join(out, "sm.oracle"), "w") as fo:
        nfail = 0
        distinct = set()
        nontrivial = set()
        hits = {}
        for k, r in enumerate(rows):
            fr.write("case\n%s\n" % r[0])
            fi.write("case\n%s\n" % r[1])
            distinct.add(r[0])
            acc = re.search(r"acc=(\w+)", r[0]).group(1)
            hits["acc:" + acc] = hits.get("acc:" + acc, 0) + 1
            hits["result:" + r[1].split(" ")[0]] = hits.get("result:" + r[1].split(" ")[0], 0) + 1
            if r[0].count(";") >= 1:
                nontrivial.add(r[0])
            if len(r) < 3 or r[1] != r[2]:
                nfail += 1
                fo.write(json.dumps({"case": k, "corpus": False, "class": "accessor-addresses-wrong-child",
                                     "detail": "the generated code updated %s, the declaration says %s; %s" % (r[1], r[2] if len(r) > 2 else "?", r[0]), "lines": [r[0]]}) + "\n")
    json.dump(dict(area="sm", seed=seed, cases=len(rows), corpus_cases=0, request_lines=len(rows), distinct=len(distinct), distinct_nontrivial=len(nontrivial),
                   oracle_failures=nfail, hits=dict(hits, programs=1, declarations=n), samples=[[r[0]] for r in rows[:3]]), open(os.path.join(out, "sm.stats.json"), "w"))
    return None


def run_area(area, seed, n, tier, work, tag="", mask=None, classes=None, oracle_prefixes=None):
    out = os.path.join(work, "run" + tag)
    os.makedirs(out, exist_ok=True)
    exe = os.path.join(HARNESS, "target", "debug", "pv-harness")
    if area == "sm":
        err = run_sm_programs(seed, n, out)
        if err:
            return dict(error=err)
        rc, o = 0, ""
    else:
        rc, o = sh([exe, "run", area, "--seed", str(seed), "--n", str(n), "--out", out, "--tier", tier], timeout=7200)
    if rc != 0:
        return dict(error="pv-harness exited %d: %s" % (rc, o[-2000:]))
    req = os.path.join(out, area + ".req")
    with open(req, "rb") as fh:
        rc2, mo = sh([os.path.join(LEAN, ".lake", "build", "bin", "driver")], stdin=fh, timeout=7200)
    open(os.path.join(out, area + ".model"), "w").write(mo)
    reqs = open(req).read().split("\n")
    imp = open(os.path.join(out, area + ".impl")).read().split("\n")
    mod = mo.split("\n")
    stats = json.load(open(os.path.join(out, area + ".stats.json")))
    fails = [json.loads(l) for l in open(os.path.join(out, area + ".oracle")) if l.strip()]
    other_fails = []
    if classes is not None:
        # only the oracle classes that state THIS property; the rest belong to sibling properties
        other_fails = [f for f in fails if not any(re.fullmatch(c, f["class"]) for c in classes)]
        fails = [f for f in fails if any(re.fullmatch(c, f["class"]) for c in classes)]
    def mk(x):
        # compare only the property-relevant observables
        for pat, rep in (mask or []):
            x = pat(x) if callable(pat) else re.sub(pat, rep, x)
        return x
    # split into cases
    cases = []
    cur = None
    for i, r in enumerate(reqs):
        if r == "case":
            cur = dict(lines=[], impl=[], model=[])
            cases.append(cur)
        elif r and cur is not None:
            cur["lines"].append(r)
            cur["impl"].append(imp[i] if i < len(imp) else "<missing>")
            cur["model"].append(mod[i] if i < len(mod) else "<missing>")
    disagreements = []
    for k, c in enumerate(cases):
        pairs = list(enumerate(zip(c["impl"], c["model"])))
        # a line that IS the property's oracle (the independent Lean reader / decoder applied to the
        # implementation's real output): a mismatch there is a failing input on the implementation
        hit = False
        for j, (a, b) in pairs:
            if oracle_prefixes and any(c["lines"][j].startswith(pp) for pp in oracle_prefixes) and mk(a) != mk(b):
                gen_lines = [l for l in c["lines"][: j + 1] if not any(l.startswith(pp) for pp in oracle_prefixes)]
                if classes is None or any(re.fullmatch(cc, "roundtrip-mismatch") for cc in classes):
                    fails.append({"case": k, "corpus": False, "class": "roundtrip-mismatch",
                                  "detail": "the independent reader applied to the implementation's output gives %s ; the families were %s" % (b[:1200], a[:1200]),
                                  "lines": gen_lines})
                hit = True
                break
        if hit:
            continue
        for j, (a, b) in pairs:
            if mk(a) != mk(b):
                disagreements.append(dict(case=k, line=j, request=c["lines"][j], impl=a, model=b, lines=c["lines"][: j + 1]))
                break
    return dict(stats=stats, fails=fails, other_fails=len(other_fails), disagreements=disagreements, ncases=len(cases), driver_rc=rc2)


def replay_fails(area, lines, work):
    """re-run a case on the implementation; return list of failure classes"""
    f = os.path.join(work, "shrink.req")
    open(f, "w").write("case\n" + "\n".join(lines) + "\n")
    exe = os.path.join(HARNESS, "target", "debug", "pv-harness")
    rc, o = sh([exe, "replay", area, f], timeout=600)
    return re.findall(r"ORACLE-FAIL class=(\S+)", o)


def shrink(area, lines, cls, work):
    """greedy one-line-at-a-time minimisation keeping the same oracle failure class"""
    lines = list(lines)
    if area == "sm" or len(lines) <= 1 or len(lines) > 400:
        return lines
    changed = True
    budget = 300
    while changed and budget > 0:
        changed = False
        for i in range(len(lines) - 1, -1, -1):
            if len(lines) <= 1:
                break
            cand = lines[:i] + lines[i + 1:]
            budget -= 1
            if budget <= 0:
                break
            if cls in replay_fails(area, cand, work):
                lines = cand
                changed = True
    return lines


def known_findings():
    known, fixed = [], []
    p = os.path.join(ROOT, "known_findings.txt")
    if os.path.exists(p):
        for l in open(p):
            l = l.strip()
            if not l or l.startswith("#"):
                continue
            m = re.match(r"known:\s+property=(\S+)\s+class=(\S+)\s+(.*)", l)
            if m:
                known.append(dict(prop=m.group(1), cls=m.group(2), what=m.group(3)))
            elif l.startswith("fixed:"):
                fixed.append(l)
    return known, fixed


def write_replay(pid, seed, n, kind, area, lines, header):
    d = os.path.join(ROOT, "evidence", "replays")
    os.makedirs(d, exist_ok=True)
    path = os.path.join(d, "%s-%s-%d.txt" % (pid, seed, n))
    with open(path, "w") as fh:
        fh.write("# property=%s\n# kind=%s\n# area=%s\n" % (pid, kind, area or "-"))
        for h in header:
            for hl in str(h).split("\n"):
                fh.write("# %s\n" % hl)
        if lines:
            fh.write("case\n")
            for l in lines:
                fh.write(l + "\n")
    return os.path.relpath(path, ROOT)


_RUNLOCK = None


def main():
    if len(sys.argv) < 3:
        print("usage: ./check <id> quick|thorough | ./check <id> --replay <file>")
        return 2
    pid = sys.argv[1]
    if pid not in PROPS:
        print("unknown property", pid)
        return 2
    cfg = PROPS[pid]
    work = os.path.join(ROOT, "work", pid)
    os.makedirs(work, exist_ok=True)
    # one run per property at a time: two runs of one property share this work directory (a second run waits)
    global _RUNLOCK
    _RUNLOCK = open(os.path.join(work, ".runlock"), "w")
    fcntl.flock(_RUNLOCK, fcntl.LOCK_EX)

    if sys.argv[2] == "--replay":
        path = sys.argv[3]
        hdr = open(path).read()
        m = re.search(r"^# area=(\S+)", hdr, re.M)
        area = m.group(1) if m else cfg["areas"][0]["area"]
        with Lock():
            translators()
            build_lean(cfg["module"])
            rc, out = build_harness()
        if area == "-":
            print(hdr)
            return 1
        exe = os.path.join(HARNESS, "target", "debug", "pv-harness")
        if area == "sm":
            # the failing accessor query is in the header; re-running means regenerating the program: ./check C19 quick
            rc, o = 1, hdr
        else:
            rc, o = sh([exe, "replay", area, path])
        print("== implementation (/repo) ==")
        print(o)
        with open(path, "rb") as fh:
            body = b"\n".join(l for l in fh.read().split(b"\n") if not l.startswith(b"#"))
        p = subprocess.run([os.path.join(LEAN, ".lake", "build", "bin", "driver")], input=body, stdout=subprocess.PIPE)
        print("== model (Lean driver) ==")
        print(p.stdout.decode())
        return rc

    tier = sys.argv[2]
    if tier not in ("quick", "thorough"):
        tier = os.environ.get("VERIF_TIER", "quick")
    seed = int(os.environ.get("VERIF_SEED", "1"))
    t0 = time.time()
    violations = []   # (kind, area, lines, header, found_input)
    notes = []
    # ---------------- layer 1: proof
    with Lock():
        tmsgs = [m for m in translators() if translator_relevant(m.split(":")[0], cfg["module"])]
        if tier == "thorough":
            # rebuild the property's module from its sources
            ol = os.path.join(LEAN, ".lake", "build", "lib", "lean", *cfg["module"].split("."))
            for ext in (".olean", ".ilean", ".trace", ".olean.hash", ".ilean.hash"):
                try:
                    os.remove(ol + ext)
                except OSError:
                    pass
        rc_l, out_l, t_lean = build_lean(cfg["module"])
        thms, n_examples = theorems_of(cfg["module"])
        greps = grep_audit()
        ax_rc, ax_out, axioms = (0, "", {})
        if rc_l == 0:
            ax_rc, ax_out, axioms = axioms_audit(cfg["module"], thms, work)
        leanchecker = None
        if tier == "thorough" and rc_l == 0:
            rc_c, out_c = sh(["lake", "env", "leanchecker", cfg["module"]], cwd=LEAN, timeout=3600)
            leanchecker = dict(rc=rc_c, out=out_c[-500:])
        rc_h, out_h = build_harness()
    proof_ok = (rc_l == 0 and not tmsgs and not greps and ax_rc == 0
                and all(set(axioms.get(t, ["<missing>"])) <= ALLOWED_AXIOMS for t in thms)
                and (leanchecker is None or leanchecker["rc"] == 0))
    discharged = sum(1 for t in thms if t in axioms and set(axioms[t]) <= ALLOWED_AXIOMS) if rc_l == 0 else 0
    proof_msgs = []
    if tmsgs:
        proof_msgs += tmsgs
    if rc_l != 0:
        errs = [l for l in out_l.split("\n") if l.startswith("error") or "error:" in l][:12]
        proof_msgs.append("lake build %s failed:\n%s" % (cfg["module"], "\n".join(errs)))
    if greps:
        proof_msgs.append("forbidden tokens: " + "; ".join(greps[:5]))
    for t in thms:
        if rc_l == 0 and not (set(axioms.get(t, ["<missing>"])) <= ALLOWED_AXIOMS):
            proof_msgs.append("theorem %s depends on %s" % (t, axioms.get(t)))
    if leanchecker and leanchecker["rc"] != 0:
        proof_msgs.append("leanchecker: " + leanchecker["out"])

    # ---------------- layers 2 + 3
    known, fixed = known_findings()
    known_here = [k for k in known if k["prop"] == pid]
    known_classes = {k["cls"] for k in known_here}
    area_results = []
    seen_known = set()
    evaluations = 0
    distinct_nt = 0
    samples = []
    hits = {}
    traces = 0
    if rc_h != 0:
        violations.append(("correspondence", None, [], ["harness build against /repo failed:", out_h[-1500:]], False))
    elif rc_l != 0 and not os.path.exists(os.path.join(LEAN, ".lake", "build", "bin", "driver")):
        pass
    else:
        for a in cfg["areas"]:
            n = a[tier]
            r = run_area(a["area"], seed, n, tier, work, mask=a.get("mask"), classes=a.get("classes"), oracle_prefixes=a.get("oracle_prefixes"))
            if "error" in r:
                violations.append(("correspondence", a["area"], [], [r["error"]], False))
                continue
            area_results.append((a, r))
            evaluations += r["stats"]["cases"]
            distinct_nt += r["stats"]["distinct_nontrivial"]
            samples += r["stats"]["samples"][:3]
            traces += r["stats"]["hits"].get("traces", 0)
            for k, v in r["stats"]["hits"].items():
                hits[a["area"] + "/" + k] = v
            new_fails = []
            for f in r["fails"]:
                if f["class"] in known_classes:
                    seen_known.add(f["class"])
                else:
                    new_fails.append(f)
            if new_fails:
                f = new_fails[0]
                lines = shrink(a["area"], f["lines"], f["class"], work)
                violations.append(("oracle", a["area"], lines, ["oracle failure on the implementation: class=%s" % f["class"], f["detail"],
                                                                 "%d oracle failures in this run" % len(new_fails)], True))
            elif r["disagreements"] or not proof_ok:
                # broken correspondence / proof: search the implementation for a failing input
                found = None
                for extra in range(1, 4 if tier == "quick" else 8):
                    rr = run_area(a["area"], seed * 1000 + extra, n * 2, tier, work, tag="-search", mask=a.get("mask"), classes=a.get("classes"), oracle_prefixes=a.get("oracle_prefixes"))
                    if "error" in rr:
                        break
                    nf = [f for f in rr["fails"] if f["class"] not in known_classes]
                    evaluations += rr["stats"]["cases"]
                    if nf:
                        found = nf[0]
                        break
                if found:
                    lines = shrink(a["area"], found["lines"], found["class"], work)
                    violations.append(("oracle", a["area"], lines, ["found by search after a broken proof/correspondence: class=%s" % found["class"], found["detail"]], True))
                elif r["disagreements"]:
                    d = r["disagreements"][0]
                    violations.append(("correspondence", a["area"], d["lines"],
                                       ["correspondence %s no longer checks: model and implementation disagree on %d of %d cases" % (a["area"], len(r["disagreements"]), r["ncases"]),
                                        "request: " + d["request"], "impl : " + d["impl"], "model: " + d["model"],
                                        "the property's oracle passed on the implementation for every searched input"], False))
    if not proof_ok and not any(v[0] == "oracle" for v in violations):
        violations.append(("proof", None, [], ["proof obligation no longer checks: %s" % cfg["module"]] + proof_msgs, False))

    # ---------------- known findings
    for k in known_here:
        if k["cls"] in seen_known:
            print("KNOWN-FINDING: property=%s %s" % (pid, k["what"]))
        else:
            print("note: known finding class=%s no longer reproduces (property=%s)" % (k["cls"], pid))

    # ---------------- evidence
    wall = time.time() - t0
    ev = dict(
        property_id=pid, tier=tier, seed=seed, level="proof",
        coverage=dict(
            obligations=len(thms), discharged=discharged,
            checker_cmd="cd lean && lake build %s && lake env lean <#print axioms of every theorem>%s" % (cfg["module"], " && lake env leanchecker " + cfg["module"] if tier == "thorough" else ""),
            trusted_base=TB_COMMON + cfg.get("trusted", []),
            theorems=thms, axioms={t: axioms.get(t) for t in thms}, nonvacuity_examples=n_examples,
            lean_build_s=round(t_lean, 1), forbidden_token_hits=greps,
            evaluations=evaluations, distinct_nontrivial=distinct_nt, rule=cfg["rule"], samples=samples[:6],
            traces_validated_against_impl=traces,
            input_distribution=hits,
            model_vs_impl_disagreements=sum(len(r["disagreements"]) for _, r in area_results),
            impl_vs_oracle_failures=sum(len(r["fails"]) for _, r in area_results),
            oracle_failures_of_sibling_properties_ignored=sum(r["other_fails"] for _, r in area_results),
            known_finding_classes_seen=sorted(seen_known),
            leanchecker=leanchecker,
        ),
        assumptions=TB_COMMON + cfg.get("trusted", []),
        wall_s=round(wall, 1), violations=len(violations),
    )
    os.makedirs(os.path.join(ROOT, "evidence"), exist_ok=True)
    json.dump(ev, open(os.path.join(ROOT, "evidence", pid + ".json"), "w"), indent=1)

    if violations:
        for n, (kind, area, lines, header, found) in enumerate(violations):
            path = write_replay(pid, seed, n, kind, area, lines, header)
            print("VIOLATION property=%s replay=%s%s" % (pid, path, "" if found else " no-failing-input-found"))
        return 1
    print("OK property=%s tier=%s theorems=%d cases=%d wall=%.1fs" % (pid, tier, len(thms), evaluations, wall))
    return 0


if __name__ == "__main__":
    sys.exit(main())
