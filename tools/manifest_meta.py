HOOK_COMMITS = ["9fc63e5", "aa17adf", "587855e"]

PENDING = "not yet claimed in this revision: model/theorems under construction (see DESIGN.md section 10 work order); will be claimed when its first theorem + correspondence + oracle are in place"
NOT_APPLICABLE = {("C%02d" % i): PENDING for i in range(1, 21)}

CONC_NOTE = ("Proved for all interleavings of the atomic steps of any number of threads (sequentially consistent). The Rust memory model enters only through the literal comparison of the orderings in the trace correspondence: "
             "a weakened ordering is detected as a broken correspondence (… no-failing-input-found), it cannot be exhibited by an SC scheduler. ")

META = {
    "C19": dict(
        text="Kernel-checked over the model of the generated code, for ALL declarations (any number of labels and values): path_resolves (the field path f1...fn denotes exactly the child {key_i -> value_i(f_i)}; undeclared field or wrong length denotes nothing), "
             "try_get_some_iff_declared / try_get_field_has_value, get_enum_eq_field, child_independent_of_map_order (any order of the backing vector's label names), delegator_address (sum of recorded field offsets = address of the nested inline leaf). "
             "Tie (programs): generated declarations compiled with the real proc-macro; every accessor query's observed child is compared with the model's answer and with the declaration-derived expectation.",
        note="What the proc-macro emits is validated per generated program; flush delivery of local / auto-flush forms is observed (update + flush must change exactly the addressed child by exactly 1).",
    ),
    "C20": dict(
        text="Kernel-checked over the arm table REGENERATED from src/macros.rs on every run: arms_expand_to_spec (decide +kernel: every arm of every exported macro accepts a trailing comma and, with nested invocations resolved by arity / marker tokens, fully expands to the explicit constructor call, "
             "registered in the named or the default registry and mapped to the registered handle - placeholders stand for all argument values), labels_macro_ok, macro_count. "
             "Tie: one real call site per public form x trailing comma with run-time arguments; oracle: the metric equals the one the explicit call creates (fq name, help, const labels, variable labels, buckets), it is registered in the named / default registry and nowhere else; "
             "the driver's expected output is computed from the specification term of the form.",
        note="The expansion semantics of macro_rules! for these fragment kinds (first arm matching by arity / marker token) is modelled; rustc's actual expansion is exercised per call site.",
    ),
    "C16": dict(
        text="Kernel-checked over the two data models (protobuf-generated types with optional fields and default-on-read + proto_ext.rs, vs plain_model.rs): metric_step / family_step (every setter / take / push the library performs commutes with the abstraction), "
             "build_agree, render_agree (for EVERY sequence of data-model calls from default(): name, help, type, labels, counter/gauge value, histogram count/sum/buckets and timestamp read the same in both models), defaults_agree. "
             "Tie: the same scenario scripts run through the real crate built with default features and with --no-default-features (pv-plain); gather structure and text bytes must be identical (oracle) and equal to the Lean registry+text model (correspondence).",
        note="Build equivalence of everything outside the data model (cfg'd code paths) is validated per scenario, not proved. Both harness crates are path dependencies on /repo and are rebuilt by cargo when the sources change.",
    ),
    "C13": dict(
        text="Kernel-checked: compatible_generated (decide +kernel over the REGENERATED tables: every field the generated Rust code writes is declared in proto_model.proto with the same name, number, repetition, compatible type and matching size rule, and vice versa), "
             "package_is_prometheus, metric_type_numbers, varint_roundtrip (all values < 2^64), fixed64_roundtrip (every f64 bit pattern), refused_iff (Err exactly for a family without name or samples), stream_is_concatenation (one length-delimited frame per family, in order). "
             "Tie: ProtobufEncoder::encode bytes vs the table-driven Lean writer, byte for byte; the independent schema-driven Lean decoder is run on the REAL bytes and must return exactly the families and consume the whole stream.",
        note="The generic message_roundtrip theorem (decode (encode m) = m for compatible tables) is being added on top of the primitive round trips; until then the message level is covered by the decoder run on the real bytes. protobuf crate primitives are modelled.",
    ),
    "C04": dict(
        text="Kernel-checked: escape_eq_flatMap (the memchr fast path of escape_string equals escaping every byte), unescape_escape (for ALL byte strings, both modes: the reader recovers exactly the original text), escape_no_newline (no help text or label value can add or end a line), "
             "quoted_value_reads_back / label_value_roundtrip (reading a quoted label value stops exactly at the encoder's closing quote and recovers the value), append_only, header_lines (number of header lines independent of the help's content). "
             "Tie: TextEncoder::encode / encode_utf8 / encode_to_string of the real crate vs the Lean encoder model, byte for byte, on hand-built families of every type incl. pre-filled buffers; "
             "the independent Lean text-format reader (exact decimal-to-binary64 conversion) is run on the REAL bytes and must return exactly the canonical families; the f64::to_string hypotheses are checked per value.",
        note="The whole-document theorem parse (encode fams) = canon fams is being built up from the line-level lemmas (Props/C04 lists what is proved); until then the document-level round trip is the oracle run of the Lean reader on the real bytes. f64 formatting is a parameter.",
    ),
    "C01": dict(
        text="Kernel-checked over the step machine of one shared cell (Conc.aStep; states reachable by ANY accepted item list = any threads, programs, schedules, spurious failures): cas_success_adds_delta (a successful compare-exchange found exactly the loaded value and adds exactly the thread's delta to the CURRENT value), "
             "cas_failure_no_effect (a failed attempt changes nothing and is retried), get_returns_cell, lin_inv (the cell always holds the value of the latest committed write, for every accepted run). "
             "Tie: real Counter / IntCounter / LocalCounter code on real threads under the deterministic scheduler; every observed trace must be an accepted run of the machine (kind, location, ordering, operands, result of every atomic operation), "
             "and an independent linearizability search (Wing-Gong) checks results and final value against the sequential counter; counter-vector children via the cvec area.",
        note=CONC_NOTE + "A whole-history 'each call commits exactly once' counting theorem is planned; today it is the per-step theorems + the linearizability oracle.",
    ),
    "C11": dict(
        text="Kernel-checked over the same machine as C01: set_not_torn (set/reset is one store of one 64-bit pattern), sub_undoes_add_int (wrapping x + d - d = x), sub_is_add_neg (float sub applies +(-d) through the add loop), gauge_lin_inv. "
             "Tie: real Gauge / IntGauge on real threads under the scheduler, traces replayed by the machine, linearizability search against the sequential gauge (integer gauges also at the ends of the i64 range).",
        note=CONC_NOTE + "sub(x) undoes add(x) on f64 only up to rounding (modelled, not verified; runs use exactly representable amounts).",
    ),
    "C10": dict(
        text="Kernel-checked over the vector machine (Conc.vStep; critical sections of the children lock as steps): recheck_keeps_inv (after a read-section miss the key is looked up again under the write lock: an existing child is returned, otherwise a fresh zero child is inserted; keys stay pairwise distinct), "
             "filter_keeps_inv, inc_touches_only_its_child (handles stay usable and isolated), write_lock_exclusive. "
             "Tie: real IntCounterVec on real threads under the scheduler; traces replayed by the machine; linearizability search against a map from label values to fresh children with per-child counters (a collect = key set + one value read per shown key); sequential histories via the vec area.",
        note=CONC_NOTE + "A refinement theorem vec_linearizable over whole histories is planned; today: step theorems + invariant + oracle.",
    ),
    "C02": dict(
        text="Kernel-checked (Prom/HP, ~1100 lines, core Lean only): inductive invariant of the hot/cold shard protocol over ANY number of in-flight observers, batch flushers and collectors; snapshot_is_prefix (every snapshot ever returned = count and every cell of exactly the observations claimed before that collector's flip), "
             "collectors_exclusive, bucket_cell_counts / count_is_size / sum_cell_is_sum (cells = bucket counts, size and sum of the cut). "
             "Tie: real observe / LocalHistogram::flush / collect / get_sample_* on real threads under the scheduler; every trace (all atomics of both shards, the lock, orderings) replayed by the executable machine Conc.hStep; oracle computed from the trace order on shard_and_count.",
        note=CONC_NOTE + "The link HP.Step <-> Conc.hStep is by inspection (trusted); real-time statements (cut_complete / cut_exact) hold because a claim / flip is a step of its own call - the oracle checks them on every trace.",
    ),
    "C03": dict(
        text="Kernel-checked (same model as C02): quiescent_total (with no collector active the counter equals everything claimed, and once in-flight observations published the hot shard holds exactly all observations - count and every cell), merge_carries_all (the drained shard is completely empty), "
             "batch_atomic (a flushed batch is one claim step), collect_progress (a spinning collector whose cold shard received its publishes can step). "
             "Tie: as C02, histories with up to 3 collections per collector and several collectors; final quiescent collect and get_sample_count/sum compared with all observations; a run that cannot finish is reported.",
        note=CONC_NOTE + "snapshots_grow is validated by the oracle (claims before successive flips are prefixes of each other by construction of the trace order).",
    ),
    "C17": dict(
        text="Kernel-checked panic-freedom of the panic-explicit model, for ALL arguments: checkAndAdjustP_no_panic (len()-1, buckets[i+1], last().unwrap(); uses the regenerated DEFAULT_BUCKETS != []), makeLabelPairsP_no_panic (label_values[i] in range; wrong cardinality is Err), "
             "desc_value_lookup_no_panic (the unwrap on the const-label lookup in Desc::new), first_special_is_boundary / escapeSliceP_no_panic (the byte index escape_string slices at is a UTF-8 character boundary whatever multi-byte characters precede it), "
             "encode_no_panic / encode_err_iff (both encoders, every MetricType, failing writers; Err exactly for a family without samples or name, or UNTYPED in text). "
             "Tie: argument sweeps of every listed Result-returning API of the real crate under catch_unwind vs the model's outcome class; oracle: no call panics.",
        note="The P-model is hand-written from the source's partial operations (listed in DESIGN 5/C17); a partial operation added by a code change is caught by the sweep, not by the theorem. register/unregister are swept by the reg area.",
    ),
    "C18": dict(
        text="Kernel-checked, by induction over ANY operation list over any number of shared and local timers: timer_contribution (observations in the histogram + pending in the parent local = timers ended by record/observe/drop + closures + plain parent observations; discarded and running timers contribute nothing), "
             "record_contributes_one / discard_contributes_nothing / drop_contributes_one, ended_timer_inert, parent_untouched (a local timer records into a private cleared clone, flushed on drop). "
             "Tie: histories over real HistogramTimer / LocalHistogramTimer (stops also on another thread) vs the model after every operation; oracle: exact expected count, returned durations >= 0, closure result returned.",
        note="The clock is an environment input (modelled, not verified); Rust ownership makes a second stop of one timer impossible, the model treats it as inert.",
    ),
    "C12": dict(
        text="Kernel-checked, by induction over ANY operation list and any number of handles: counter_conservation (shared + pending in all handles + discarded by reset = everything ever added), "
             "flush_exact, flush_idempotent, reset_discards_only_local, clone_empty; histogram_conservation (shared sample count + pending in live local histograms + cleared = all observations, dropped handles included), "
             "drop_flushes_histogram (drop = flush), hist_flush_idempotent, hist_clone_empty, absorb_counts (per-bucket addition); vec_drop_flushes, vec_clone_empty for the local vector caches. "
             "Tie: op histories over LocalCounter/LocalIntCounter, LocalHistogram, LocalCounterVec/LocalIntCounterVec/LocalHistogramVec of the real crate vs the model; oracle: shared = direct + flushed batches, pending = accumulated since last flush/reset.",
        note="Amounts are naturals (float rounding outside). Conservation for the local vectors is covered by the differential run and per-step theorems; a whole-history vector theorem is planned.",
    ),
    "C06": dict(
        text="Kernel-checked over the registry model (collectors_by_id / desc_ids / dim_hashes_by_name as the code keeps them): register_fail_noop and unregister_fail_noop (a refused call returns the registry EQUAL to the one before), "
             "regLoop_ok / register_ok_sound (an admitted collector had no descriptor id in use, agreed with every recorded dimension hash, clashed with no common label, had pairwise distinct descriptors; collector id = wrapping sum), "
             "register_same_single_alreadyReg, unregister_ok_iff, unregister_frees. Tie: histories of register/unregister/gather over library and custom multi-descriptor collectors through the real Registry and the model; "
             "independent Rust oracle = the admission rule of the property on structural descriptors (first offending descriptor in the collector's order decides the error kind).",
        note="ids/dim hashes are 64-bit FNV values (structure up to collisions: C15). A refinement theorem to the abstract spec over all histories (refines_spec) is planned; today the history quantifier is covered by the per-step theorems + the differential run.",
    ),
    "C07": dict(
        text="Kernel-checked over the gather model: families_sorted_strict (one family per name, strictly increasing names, for every collector iteration order, with and without prefix), complete_exactly_once (under each name exactly the samples of all collected families of that name, as a multiset), "
             "gather_family_samples / prefix_labels_everywhere (prefix on every name, common labels at the end of every sample), no_empty_family, common_pairs_order_free (common labels independent of the label map's iteration order). "
             "Tie: gather() of the real Registry vs the model on generated registries; each gather repeated on two fresh registries with other registration orders (fresh hash seeds); independent oracle: complete, name-sorted, samples sorted by label values, prefix+labels applied.",
        note="Sortedness of samples under the code's comparator and full determinism over all permutations are validated by the oracle/multi-order run; their Lean theorems (samples_sorted, deterministic) are planned.",
    ),
    "C14": dict(
        text="Kernel-checked: homogeneous_partial (if the collectors registered under each name are of one kind, every gathered sample carries a value of its family's declared type, for every iteration order), type_is_the_collectors_type, "
             "C14_full_false (counter m{k=1} + gauge m{k=2}: declared type depends on iteration order and the counter reads 0 through the gauge slot; decide +kernel) = known finding K2. "
             "Tie: reg area; the oracle inspects which value slot every gathered sample carries.",
        note="K2 (collectors of different kinds under one name are admitted) is printed as KNOWN-FINDING and reproduced from the corpus on every run; any inhomogeneity outside that class is a violation.",
    ),
    "C05": dict(
        text="Kernel-checked: enc_injective (the bytes fed to the hasher are equal <=> the tuples are equal position by position, for all UTF-8 tuples incl. split-shifted and empty values), "
             "same_child_iff_key (under the vector invariant, two successive get-or-create calls return the same child <=> equal keys; invariant preserved by every operation), "
             "C05_partial (same key <=> same tuple, unless FNV-1a collides on the two encodings), C05_full_false (a concrete FNV-1a collision, decide +kernel: the unrestricted statement is false of the code - known finding K1), "
             "wrong_cardinality/wrong_map/wrong_remove create or change nothing, new_child_zero_and_labelled, child_labels_perm/sorted, map_form_order_free. "
             "Tie: operation sequences on all five vector kinds through the real crate and the Lean model (identity revealed by bumping each returned handle and reading all earlier handles, detached ones included); "
             "independent Rust oracle = a map keyed by the value tuples themselves.",
        note="Known finding K1 (FNV-1a collision) is printed as KNOWN-FINDING and reproduced on every run from the corpus; any other oracle failure is a violation. Local vector caches (same key function) are exercised under C12.",
    ),
    "C09": dict(
        text="Kernel-checked: metric_name_regex / label_name_regex (accepted <=> explicit byte-range grammar [a-zA-Z_:][a-zA-Z0-9_:]* resp. without ':'), "
             "valid_name_ascii + non_ascii_char_refused (any string containing a non-ASCII Unicode character is refused, via a proved UTF-8 lemma), "
             "desc_accept_iff (Desc::new accepts <=> help non-empty, valid fq name, all const/variable label names valid, no name twice among const+variable labels; for every map iteration order). "
             "Tie: every request runs through Desc::new and all ten metric constructors of the real crate (two const-label insertion orders) and through the Lean model; outputs (accept/reject kind, fq name, id, dim hash, label pairs) diffed; "
             "independent Rust oracle of the accept rule. Registry-level prefix/common-label validation and gathered-sample names are checked by the `reg` area (C06/C07) correspondence; the gather-level theorem is listed under C07.",
        note="Trusted: Lean kernel; model validated by correspondence; UTF-8 = Lean core's String.utf8EncodeChar; HistogramVec::new accepts `le` but no child can then be created (checked at child creation, see DESIGN 5/C09).",
    ),
    "C15": dict(
        text="Kernel-checked: id_bytes_inj and dim_bytes_inj (the byte strings fed to the two FNV hashers are equal <=> fq name and const values in name order are equal, resp. help and the sorted name list are equal), "
             "boundary_shift_distinct, names_are_the_sets (the hashed name list is exactly const names + $-prefixed variable names; valid names never start with $), all_strings_noFF (UTF-8 never contains the separator byte). "
             "Tie: Desc.id / Desc.dim_hash / const_label_pairs of the real crate compared with the model's FNV-1a values on adversarial descriptor pairs; oracle: ids/dim hashes equal exactly for structurally equal descriptors, independent of const-label insertion order.",
        note="Trusted: Lean kernel; equality of 64-bit hash values is up to FNV collisions as the property states; order-independence is validated by the two-insertion-order run and the oracle (a Lean theorem for all permutations is planned: order_free).",
    ),
    "C08": dict(
        text="Kernel-checked theorems accept_iff / reject_iff (accepted <=> strictly increasing numbers after defaulting; result = input minus trailing +Inf), "
             "first_match_cumulative (for every strictly increasing bound list and EVERY f64 observation sequence incl. NaN/Inf/-0: count = #obs, sum = left fold of add, cumulative[i] = #{v | v <= bound_i}), "
             "nan_in_no_bucket / above_all_in_no_bucket, over a bit-exact model of the IEEE order (order laws proved, no Float in statements). "
             "Tied to /repo on every run: same requests through real Histogram / HistogramVec child / LocalHistogram and through the compiled Lean model, outputs diffed; "
             "independent Rust oracle of the property evaluated on the implementation. Proof is the right level: the quantifier is all bucket lists x all observation sequences over f64.",
        note="Trusted: Lean kernel; the hand-written model as far as the correspondence validated it; f64 addition is a theorem parameter (Lean Float executable instance compared bit-for-bit); DEFAULT_BUCKETS regenerated by translate/consts.py; concurrency of observe is C02/C03's subject, not this check's.",
    ),
}
