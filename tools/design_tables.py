#!/usr/bin/env python3
"""Regenerates the generated tables of DESIGN.md in place: 12.3 (property theorems per Props file; the tie column is kept from the file)
and 12.5 (one row per stored seed: seeded/<id>/meta.json `needs` + seeded/RESULTS.tsv)."""
import json, os, re
ROOT = os.path.dirname(os.path.dirname(os.path.abspath(__file__)))
d = open(os.path.join(ROOT, "DESIGN.md")).read()

def theorems(pid):
    src = open(os.path.join(ROOT, "lean", "Prom", "Props", pid + ".lean")).read()
    return re.findall(r"^theorem ([A-Za-z0-9_']+)", src, re.M)

# ---- 12.3
hdr = "| id | kernel-checked property theorems (`lean/Prom/Props/<id>.lean`) | tie (areas) |\n|---|---|---|\n"
a = d.index(hdr) + len(hdr); b = d.index("\n\n", a)
rows = {}
for line in d[a:b].split("\n"):
    c = [x.strip() for x in line.strip().strip("|").split("|")]
    rows[c[0]] = c[-1]
new = "\n".join("| %s | %s | %s |" % (pid, ", ".join("`%s`" % t for t in theorems(pid)), rows[pid]) for pid in sorted(rows))
d = d[:a] + new + d[b:]

# ---- 12.5
hdr = "| seed | what it needs to manifest | quick check of its property |\n|---|---|---|\n"
a = d.index(hdr) + len(hdr); b = d.index("\n\n", a)
res = {}
for line in open(os.path.join(ROOT, "seeded", "RESULTS.tsv")):
    p = line.rstrip("\n").split("\t")
    if len(p) == 3: res[p[0]] = p[2]
def key(s): return (s.split("-")[0], int(s.split("-")[1]))
out = []
for s in sorted([x for x in os.listdir(os.path.join(ROOT, "seeded")) if re.fullmatch(r"C\d+-\d+", x)], key=key):
    m = json.load(open(os.path.join(ROOT, "seeded", s, "meta.json")))
    out.append("| %s | %s | %s |" % (s, m.get("needs", "").replace("|", "/"), res.get(s, "not swept")))
d = d[:a] + "\n".join(out) + d[b:]
open(os.path.join(ROOT, "DESIGN.md"), "w").write(d)
print("12.3: %d rows; 12.5: %d seeds, %d detected" % (len(rows), len(out), sum(1 for s in res.values() if s.startswith("detected"))))
