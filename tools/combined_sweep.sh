#!/bin/bash
# harmless refactoring + seeded change together: the seed must still be detected by its own property's quick check
cd /verif
out=/verif/harmless/COMBINED.tsv; : > $out
for h in H11-3 H13-3 H12-3 H10-3 H1-3 H6-3 H15-3; do
  for s in $(ls seeded | grep -E '^C(01|02|03|06|10|11|12)-[0-9]+$' | sort -V); do
    c=${s%-*}
    git -C /repo checkout -q -- . && git -C /repo clean -fdq src static-metric proto
    git -C /repo apply /verif/harmless/$h/patch.diff 2>/dev/null || continue
    git -C /repo apply /verif/seeded/$s/patch.diff 2>/dev/null || { git -C /repo checkout -q -- .; continue; }
    # both applied: must still compile
    r=$(./check $c quick 2>&1 | grep -E "^VIOLATION|^OK" | head -1)
    case "$r" in *no-failing-input-found*) o="detected(no-input)";; VIOLATION*) o="detected";; OK*) o="MISSED";; *) o="did-not-finish";; esac
    echo -e "$h\t$s\t$o" | tee -a $out
  done
done
git -C /repo checkout -q -- . && git -C /repo clean -fdq src static-metric proto
for i in $(seq -w 1 20); do ./check C$i quick >/dev/null 2>&1; done
