#!/bin/bash
# usage: seed_store.sh <Cxx> <n> "<needs>" ["confirm line"]  -> /verif/seeded/<Cxx>-<n>/
id=$1; n=$2; needs=$3; conf=${4:-}
S=/tmp/seed/$id/seed_out/$n; D=/verif/seeded/$id-$n
mkdir -p $D && cp $S/patch.diff $S/demo.rs $D/ && cp $S/NOTES.md $D/NOTES.md 2>/dev/null
python3 - "$id" "$n" "$needs" "$conf" <<'PY'
import json,sys
id,n,needs,conf=sys.argv[1:5]
json.dump(dict(property=id, seed=int(n), needs=needs, base_commit="587855e (fix + hook commits applied)",
  confirmed_by="tools/seed_confirm.sh in scratch worktree /tmp/seed/%s: cargo build (default and --no-default-features), cargo test --workspace --offline with the change, demo with and without the change"%id,
  confirm_result=conf, detected_by=[]), open("/verif/seeded/%s-%s/meta.json"%(id,n),"w"), indent=1)
PY
echo stored $D
