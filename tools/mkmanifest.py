#!/usr/bin/env python3
"""Writes MANIFEST.json from tools/props.py + tools/manifest_meta.py (kept in sync by hand-run)."""
import json, os, sys
ROOT = os.path.dirname(os.path.dirname(os.path.abspath(__file__)))
sys.path.insert(0, os.path.join(ROOT, "tools"))
from props import PROPS
from manifest_meta import META, NOT_APPLICABLE, HOOK_COMMITS

checks = []
for pid in sorted(PROPS):
    m = META[pid]
    checks.append(dict(
        property_id=pid,
        quick_cmd="./check %s quick" % pid,
        thorough_cmd="./check %s thorough" % pid,
        evidence_file="/verif/evidence/%s.json" % pid,
        replay_cmd_template="./check %s --replay {path}" % pid,
        engine="lean-proof+correspondence",
        level_claimed=dict(category="proof", text=m["text"], design_ref=m.get("design_ref", "DESIGN.md section 5, " + pid)),
        level_note=m["note"],
        technique=m.get("technique", "Lean 4 theorems over an executable model + differential correspondence with the real crate"),
    ))
man = dict(
    version=1,
    setup_cmd="./setup.sh",
    hooks=dict(
        guard="prometheus_verif",
        enable="RUSTFLAGS='--cfg prometheus_verif' (set for the harness crates in harness/.cargo/config.toml; they depend on /repo by path)",
        baseline_off_cmd="cd /repo && (cargo nextest run --workspace --no-fail-fast --tool-config-file pb:/w/lib/nextest.toml --profile pb --test-threads 8 --offline || cargo test --workspace --no-fail-fast --offline)",
        source_commits=HOOK_COMMITS,
        add_only=True,
    ),
    engines=[dict(name="lean-proof+correspondence", path="/verif/check",
                  serves_properties=sorted(PROPS),
                  kind_free_text="Lean 4 kernel-checked theorems over executable models (lean/Prom), regenerated tables (translate/), and a differential correspondence check against the real crate (harness/), orchestrated by tools/check.py")],
    checks=checks,
    notes="See DESIGN.md. A check exits 1 with VIOLATION only for an oracle failure on the implementation (replay = failing input) or a broken proof/correspondence (… no-failing-input-found).",
    not_applicable=[dict(property_id=p, reason=r) for p, r in sorted(NOT_APPLICABLE.items()) if p not in PROPS],
)
json.dump(man, open(os.path.join(ROOT, "MANIFEST.json"), "w"), indent=1)
print("MANIFEST.json: %d checks, %d not_applicable" % (len(checks), len(man["not_applicable"])))
