#!/bin/bash
# usage: seed_confirm.sh <Cxx> <n> [demo-dir: tests|static-metric/tests]
# Confirms a seeded change in the scratch worktree /tmp/seed/<Cxx>: compiles (both feature sets),
# passes the existing suite, demo fails with the change and passes without it.
set -u
id=$1; n=$2; ddir=${3:-tests}
W=/tmp/seed/$id; S=$W/seed_out/$n
cd $W || exit 2
git checkout -q -- . ; rm -f $ddir/seed_demo.rs
export CARGO_NET_OFFLINE=true
git apply $S/patch.diff || { echo "CONFIRM $id/$n: patch does not apply"; exit 1; }
b1=$(cargo build --offline 2>&1 | tail -1)
b2=$(cargo build --offline --no-default-features 2>&1 | tail -1)
t=$(cargo test --workspace --offline 2>&1 | grep "test result" | awk '{p+=$4; f+=$6} END {print p" passed "f" failed"}')
mkdir -p $ddir; cp $S/demo.rs $ddir/seed_demo.rs
if [ "$ddir" = tests ]; then dcmd="cargo test --offline --test seed_demo"; else dcmd="cargo test --offline -p prometheus-static-metric --test seed_demo"; fi
with=$($dcmd 2>&1 | grep "test result" | tail -1)
git apply -R $S/patch.diff
without=$($dcmd 2>&1 | grep "test result" | tail -1)
rm -f $ddir/seed_demo.rs
git checkout -q -- .
echo "CONFIRM $id/$n: build=[$b1] nodefault=[$b2] suite=[$t] demo_with=[$with] demo_without=[$without]"
