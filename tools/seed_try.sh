#!/bin/bash
# usage: seed_try.sh <seed dir name e.g. C08-1> <check id>...   applies the seeded change to /repo, runs the checks, reverts
s=$1; shift
cd /repo && [ -z "$(git status --porcelain)" ] || { echo "/repo not clean"; exit 2; }
git apply /verif/seeded/$s/patch.diff || exit 2
for c in "$@"; do (cd /verif && ./check $c quick 2>&1 | grep -E "VIOLATION|^OK|KNOWN" | sed "s/^/[$s vs $c] /"); done
git -C /repo checkout -- . && git -C /repo clean -fdq src static-metric proto
# refresh the evidence files from the unchanged tree (evidence must never come from a mutated run)
for c in "$@"; do (cd /verif && ./check $c quick >/dev/null 2>&1); done
