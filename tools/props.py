"""Per-property configuration of the checks (what is built, run and compared)."""

TB_COMMON = [
    "Lean 4.33.0 kernel (lake build; leanchecker in the thorough tier)",
    "axioms reported by #print axioms: subset of {propext, Classical.choice, Quot.sound}",
    "hand-written Lean model, tied to /repo by the differential correspondence run of this check",
    "pv-harness (Rust) + Lean driver executable (Lean compiler/runtime, Float = IEEE binary64)",
    "rustc / std (HashMap, sort stability, f64 formatting) are outside the model",
]

def _fams(x):
    return [f.split("^") for f in x.split(" | ")] if "^" in x else None


def gather_names(x):
    """reduce a gather output line to the family names (C06 only cares which collectors are visible)"""
    f = _fams(x)
    return x if f is None else "G " + ",".join(p[0] for p in f)


def gather_names_labels(x):
    """family names + label names of every sample (C09)"""
    f = _fams(x)
    if f is None:
        return x
    out = []
    for p in f:
        samples = p[3].split(";") if len(p) > 3 and p[3] != "-" else []
        out.append(p[0] + "{" + ";".join(",".join(kv.split(":")[0] for kv in smp.split("=")[0].split(",")) for smp in samples) + "}")
    return "G " + " ".join(out)


def only_prefix(prefix):
    """compare only the output lines that start with `prefix` (the observable of this property in a shared area)"""
    return lambda x: x if x.startswith(prefix) else "-"


def gather_types(x):
    """family name, type and the value read through that type (C14)"""
    f = _fams(x)
    if f is None:
        return x
    return "G " + " ".join(p[0] + ":" + p[2] + ":" + ",".join(sorted(smp.split("=")[-1] for smp in (p[3].split(";") if len(p) > 3 else []))) for p in f)


REG_RULE = ("case = one registry (prefix / common labels incl. invalid ones) + 2-6 collector definitions (counter, int counter, gauge, int gauge, histogram, "
            "pulling gauge, counter/gauge vectors with 0-4 children, custom multi-descriptor collectors; names, help texts, const labels drawn from small "
            "overlapping pools; descriptor twins that differ only in where a U+00FF character sits relative to a field boundary; EQUAL descriptors built separately for collectors of different kinds; vector children addressed by position and by name, label values containing NUL) "
            "+ 4-16 register/unregister/redefine/gather calls; non-trivial = at least two successful and one refused registration; distinct by request text")

CONC_TB = ["sequentially consistent interleaving of the atomic / lock operations (one library thread runs at a time under the scheduler); the Rust memory model beyond that is outside: "
           "the orderings are compared literally with the model's, a weaker ordering breaks the correspondence but no SC schedule can exhibit a stale read",
           "the cfg(prometheus_verif) sync shim and the scheduler (harness/src/sched.rs) decide what 'the same schedule' means"]

PROPS = {
    "C19": dict(
        module="Prom.Props.C19",
        areas=[dict(area="sm", quick=12, thorough=120),
               dict(area="cvec", quick=500, thorough=20000, classes=["update-lost", "not-linearizable", "stuck", "harness-panic"])],
        rule="a generated Rust program of N macro declarations (make_static_metric! / make_auto_flush_static_metric!; 1-4 labels x 1-4 values; inline lists, label_enum references, renamed values; "
             "Counter / IntCounter / Gauge / IntGauge / Histogram and Local* / auto-flush forms; permuted backing label order) is compiled with the REAL proc-macro and run: every field path, every get(enum) chain and every try_get(str) chain "
             "(declared and undeclared values) updates the addressed metric (+ flush) and reports which child of the backing vector changed; case = one accessor query; non-trivial = a declaration with at least two labels; distinct by query text",
        trusted=["rustc's expansion and type-checking of the generated tokens is exercised per generated program, not proved (translation-validation style)",
                 "tools/gen_sm.py computes the expected child from the declaration independently of the Lean model"],
    ),
    "C20": dict(
        module="Prom.Props.C20",
        areas=[dict(area="macro", quick=1500, thorough=60000),
               dict(area="creg", quick=500, thorough=20000, classes=["registry-not-linearizable", "admission-wrong", "stuck", "harness-panic"])],
        rule="case = one real call site of a public macro form (44 register_* forms, opts! with 0/1/2 label maps, histogram_opts! with 2/3/4 arguments, labels!) x with/without trailing comma, with run-time generated arguments "
             "(names, help incl. empty, two const-label maps sharing keys, 0-2 label names, bucket lists incl. empty / with +Inf / unordered, a plain or a prefixed+labelled registry); the created metric is compared with the explicit constructor call, "
             "its registry membership is probed in the named and in the default registry; non-trivial = the call site returns Ok; distinct by request text",
        trusted=["translate/macros.py parses src/macros.rs into the arm table (unknown idioms become `unknown` and fail the theorem)",
                 "rustc's macro expansion is exercised per call site, not proved; constructor failures panic by documented design (unwrap)"],
    ),
    "C16": dict(
        module="Prom.Props.C16",
        areas=[dict(area="c16", quick=800, thorough=30000)],
        rule="case = one scenario script (registry with/without prefix and common labels; 1-5 collectors: counter, int counter, gauge, int gauge, histogram, pulling gauge, counter/gauge/histogram vectors with children; "
             "help and label values with backslash, quote, LF and multi-byte characters; 2-10 register/unregister/gather calls) executed by BOTH builds of the crate: this harness (default features) and pv-plain (--no-default-features); "
             "each gather prints the structure and the TextEncoder bytes; non-trivial = a gathered family with several samples or several families; distinct by request text",
        trusted=["what rustc generates from the feature flag is exercised per scenario (both harness crates are rebuilt from /repo by cargo on every run), not proved",
                 "f64::to_string as C04"],
    ),
    "C13": dict(
        module="Prom.Props.C13",
        areas=[dict(area="pb", quick=1500, thorough=60000, oracle_prefixes=["pb dec"])],
        rule="case = 1-3 hand-built families of all five MetricTypes (arbitrary Unicode strings, every f64 class incl. NaN payloads, counts at varint boundaries 127/128/16383/16384/2^35/2^64-1, "
             "0-3 labels, 0-4 buckets, 0-3 quantiles, timestamps 0/+/-, families without name or samples, pre-filled buffers); the real bytes are compared with the table-driven Lean writer "
             "and decoded by the schema-driven Lean reader; non-trivial = an accepted stream with at least one labelled sample; distinct by request text",
        trusted=["the `protobuf` crate's CodedOutputStream primitives (outside /repo) are modelled from the wire-format specification and validated only through the byte comparison",
                 "translate/pbtable.py extracts the writer table from proto/proto_model.rs and the schema from proto/proto_model.proto (two different parsers); a mis-translation shows up in the byte comparison / decoder run, which do not go through the schema/writer respectively"],
    ),
    "C04": dict(
        module="Prom.Props.C04",
        areas=[dict(area="text", quick=1500, thorough=60000, oracle_prefixes=["text parse"])],
        rule="case = 1-3 hand-built families (as a custom collector may supply) of all five MetricTypes, 0-3 samples, 0-3 labels, help / label values from an escape-heavy alphabet "
             "(backslash, quote, LF, CR, NUL, multi-byte characters, U+10FFFF, a literal backslash-n, structural characters), every f64 class (+-0, subnormal, 2^53+-1, >2^63, max, +-Inf, NaN payloads), "
             "0-4 buckets with/without explicit +Inf, 0-3 quantiles, timestamps 0/+/-, pre-filled output buffers, slot/type mismatches and counts above 2^53 (the last three outside the round-trip's well-formedness); "
             "non-trivial = a well-formed case with at least one escaped character; distinct by request text",
        trusted=["f64::to_string (Rust std) is a parameter of the theorems; its hypotheses (reads back to the same value under the exact decimal reader, no LF/quote/backslash/blank) are checked by the driver for every value of every request",
                 "the Lean text-format reader is the specification of 'parseable' (written independently of the encoder model, mirroring the reference parser's treatment of escapes and blanks)"],
    ),
    "C01": dict(
        module="Prom.Props.C01",
        areas=[dict(area="catomc", quick=1500, thorough=80000, classes=["not-linearizable", "stuck", "harness-panic"]),
               dict(area="cvec", quick=800, thorough=40000, classes=["update-lost", "not-linearizable", "stuck", "harness-panic"]),
               # `shared=`: the counter world; `n=`: the vector world (a local vector's flush must reach the child the shared vector exports)
               dict(area="local", quick=600, thorough=20000, classes=["counter-handover", "counter-pending", "vector-handover", "harness-panic"],
                    mask=[(lambda x: x if x.startswith("shared=") or x.startswith("n=") else "-", None)])],
        rule="case = 2-3 real threads x 1-3 calls (inc, inc_by, get, reset, local flush) on one shared Counter / IntCounter, or get-or-create + inc on IntCounterVec children, run under the deterministic scheduler "
             "(random schedules with stickiness 0/50/85 %, up to 12 spurious compare-exchange failures; float programs also with amounts of k*2^-70, far below f64::EPSILON); the observed trace of atomic operations is replayed by the Lean machine; "
             "plus sequential histories of local counters (inc, flush, reset, clone, shared reset) from the `local` area: the shared counter must equal its direct updates plus the flushed amounts, each exactly once; "
             "non-trivial = two calls of different threads overlap in real time; distinct by (program, schedule seed)",
        trusted=CONC_TB + ["float amounts are small integers (exact sums)"],
    ),
    "C11": dict(
        module="Prom.Props.C11",
        areas=[dict(area="catomg", quick=1500, thorough=80000, classes=["not-linearizable", "stuck", "harness-panic"]),
               dict(area="cvec", quick=500, thorough=20000, classes=["update-lost", "not-linearizable", "stuck", "harness-panic"])],
        rule="case = 2-3 real threads x 1-3 calls (set, inc, dec, add, sub, get; integer gauges also near i64::MAX/MIN; float gauges also with amounts of k*2^-70) on one shared Gauge / IntGauge under the deterministic scheduler; trace replayed by the Lean machine; "
             "non-trivial = two calls of different threads overlap; distinct by (program, schedule seed)",
        trusted=CONC_TB + ["float amounts are small integers (exact sums); sub(x) undoes add(x) for f64 only up to rounding in general"],
    ),
    "C10": dict(
        module="Prom.Props.C10",
        areas=[dict(area="cvec", quick=1500, thorough=80000),
               dict(area="vec", quick=600, thorough=20000, classes=["child-identity", "remove-result", "collect-mismatch", "error-kind", "wrong-shape-accepted", "wellformed-request-refused", "harness-panic"])],
        rule="case = 2-3 real threads x 1-3 calls (with_label_values + inc, remove, reset, collect, updates through retained handles) on two overlapping keys of one IntCounterVec under the deterministic scheduler, 15 % of the programs of the shape two-creators-of-one-key + one remover of the other key; trace (lock sections, child updates) replayed by the Lean machine; "
             "plus sequential histories of the `vec` area; non-trivial = two calls of different threads overlap; distinct by (program, schedule seed)",
        trusted=CONC_TB + ["handle identity is established after the run by bumping every returned handle by a distinct power of two"],
    ),
    "C02": dict(
        module="Prom.Props.C02",
        areas=[dict(area="chist", quick=1500, thorough=80000, classes=["snapshot-not-a-cut", "collect-stuck", "harness-panic"]),
               dict(area="hist", quick=500, thorough=20000),
               dict(area="cvec", quick=500, thorough=20000, classes=["update-lost", "not-linearizable", "stuck", "harness-panic"])],
        rule="case = 2-4 real threads (observers, local-histogram batch flushers, 1-3 collectors incl. get_sample_count / get_sample_sum) x 1-3 calls on one Histogram with 1-3 buckets under the deterministic scheduler "
             "(up to 1 spurious compare-exchange failure; values incl. negative ones); the trace of every atomic / lock operation is replayed by the Lean machine; oracle: each returned snapshot = stats of the observations whose claim precedes that collector's flip in the trace; "
             "non-trivial = at least one collect and one observation/flush in the program; distinct by (program, schedule seed)",
        trusted=CONC_TB + ["the replay machine Model/HistMachine is written over the state of the proof model Prom/HP and refines it by theorem (replay_refines); cells are exact integers and runs outside the exact range of the 64-bit encodings are rejected",
                           "float amounts are small integers (exact sums); f64 rounding of concurrent sums is outside"],
    ),
    "C03": dict(
        module="Prom.Props.C03",
        areas=[dict(area="chist", quick=1500, thorough=80000, classes=["observations-not-conserved", "snapshot-not-a-cut", "collect-stuck", "harness-panic"]),
               dict(area="hist", quick=500, thorough=20000),
               dict(area="local", quick=600, thorough=20000, classes=["histogram-handover", "histogram-pending", "harness-panic"], mask=[(only_prefix("count="), None)]),
               dict(area="cvec", quick=500, thorough=20000, classes=["update-lost", "not-linearizable", "stuck", "harness-panic"])],
        rule="as C02, with histories of up to 3 collections per collector thread and several collector threads; after all threads finished a further collect must return exactly all observations and get_sample_count / get_sample_sum must agree; "
             "a run that does not finish (a collect waiting forever) is a failure; plus sequential observe/flush/collect histories of the `hist` area",
        trusted=CONC_TB + ["as C02"],
    ),
    "C17": dict(
        module="Prom.Props.C17",
        areas=[dict(area="fall", quick=4000, thorough=150000),
               dict(area="reg", quick=600, thorough=20000, classes=["admission-wrong", "unregister-wrong", "harness-panic"],
                    mask=[(lambda x: "ok" if x == "ok" else ("err" if x.startswith("err:") else "-"), None)]),
               dict(area="cvec", quick=500, thorough=20000, classes=["not-linearizable", "stuck", "harness-panic"]),
               dict(area="creg", quick=500, thorough=20000, classes=["registry-not-linearizable", "admission-wrong", "stuck", "harness-panic"])],
        rule="case = one call of a Result-returning API under catch_unwind: histogram constructors over adversarial bucket lists, linear/exponential_buckets over every f64 class and counts 0-6, "
             "all 11 constructors over adversarial names, get_metric_with_label_values / get_metric_with / remove_label_values / remove with cardinalities 0-5 and wrong names, Registry::new_custom, "
             "TextEncoder on strings with multi-byte characters next to escaped ones, both encoders on hand-built families of every MetricType (empty name, no samples, mismatching value slots, failing writer); "
             "non-trivial = the call returns Err; distinct by request text (register/unregister histories are covered by the reg area of C06)",
        trusted=["the panic-explicit model mirrors the partial operations of the source by hand (unwrap, indexing, len()-1, str slicing); the differential run compares outcome classes",
                 "arguments of unbounded size (capacity overflow in Vec::with_capacity) are outside"],
    ),
    "C18": dict(
        module="Prom.Props.C18",
        areas=[dict(area="timer", quick=2000, thorough=80000)],
        rule="case = one shared histogram with a parent local histogram + 4-18 operations over several shared and local timers "
             "(start, stop_and_record, observe_duration, stop_and_discard, drop, drop during unwinding, stop on another thread, observe_closure_duration, plain observe on / flush of the parent local); 30 % of the worlds use a histogram whose only finite bound lies below every duration; "
             "non-trivial = at least two timers ended; distinct by request text",
        trusted=["the clock is an input (elapsed() saturates at zero); only the number and sign of recorded values is checked"],
    ),
    "C12": dict(
        module="Prom.Props.C12",
        areas=[dict(area="local", quick=1500, thorough=60000),
               dict(area="chist", quick=600, thorough=30000, classes=["observations-not-conserved", "snapshot-not-a-cut", "collect-stuck", "harness-panic"]),
               dict(area="cvec", quick=500, thorough=20000, classes=["update-lost", "not-linearizable", "stuck", "harness-panic"])],
        rule="case = one world (shared counter / int counter with local handles; shared histogram with local histograms; counter / int counter / histogram vector with local vectors) "
             "+ 6-28 operations (local update, flush, reset/clear, clone, drop, remove_label_values with pending data, direct update, shared reset, read-back); "
             "non-trivial = at least two flushes/drops in the history; distinct by request text",
        trusted=["amounts are integers (integer-valued floats in the run, whose sums are exact); float rounding of sums is outside",
                 "a vector child's value is abstracted to its update/sample count"],
    ),
    "C06": dict(
        module="Prom.Props.C06",
        areas=[dict(area="reg", quick=1200, thorough=50000,
                    classes=["admission-wrong", "admission-error-kind", "unregister-wrong", "harness-panic"],
                    mask=[(gather_names, None)]),
               dict(area="creg", quick=600, thorough=30000, classes=["registry-not-linearizable", "admission-wrong", "stuck", "harness-panic"])],
        rule=REG_RULE,
        trusted=["descriptor ids / dimension hashes are the model's FNV-1a values (C15 relates them to structure up to collisions)",
                 "the oracle applies the admission rule to the collector's descriptors in the collector's own order (first offending descriptor decides the error kind)"],
    ),
    "C07": dict(
        module="Prom.Props.C07",
        areas=[dict(area="reg", quick=1200, thorough=50000,
                    classes=["gather-mismatch", "gather-order-dependent", "harness-panic"],
                    mask=[(r"^err:\w+$", "err")]),
               # registrations racing each other (and gathers) on one Registry: what gather returns must be explained by the registrations
               # executed one at a time (a collector admitted by two interleaved half-registrations is missing from, or doubled in, a gather)
               dict(area="creg", quick=500, thorough=20000, classes=["registry-not-linearizable", "admission-wrong", "stuck", "harness-panic"])],
        rule=REG_RULE + "; every gather is repeated on two fresh registries with the collectors registered in other orders; plus the concurrent registry histories of C06 (`creg`)",
        trusted=["HashMap iteration order = arbitrary list order (theorems quantify over it where stated); BTreeMap = name-sorted association list",
                 "sort_by is a stable sort (modelled as stable insertion sort)"],
    ),
    "C14": dict(
        module="Prom.Props.C14",
        areas=[dict(area="reg", quick=1200, thorough=50000,
                    classes=["family-mixes-types", "mixed-kinds-same-name", "harness-panic"],
                    mask=[(gather_types, None), (r"^err:\w+$", "err")]),
               dict(area="creg", quick=600, thorough=30000, classes=["family-mixes-types", "stuck", "harness-panic"])],
        rule=REG_RULE + "; non-trivial additionally counts cases with several collectors under one name",
        trusted=["a sample's value is read through the family's declared type with proto2 default-on-read (as the encoders do)"],
    ),
    "C05": dict(
        module="Prom.Props.C05",
        areas=[dict(area="vec", quick=1500, thorough=60000,
                    classes=["child-identity", "key-encoding", "error-kind", "wrong-shape-accepted", "wellformed-request-refused",
                             "remove-result", "collect-mismatch", "fnv-collision", "harness-panic"]),
               dict(area="local", quick=600, thorough=20000, classes=["vector-handover", "harness-panic"], mask=[(only_prefix("n="), None)]),
               dict(area="cvec", quick=500, thorough=20000, classes=["update-lost", "not-linearizable", "stuck", "harness-panic"])],
        rule="case = one vector (counter/int counter/gauge/int gauge/histogram; 0-3 declared names, 0-2 const labels) + 3-12 operations "
             "(with_label_values, map form in shuffled key order, remove, reset, update through old handles, collect); tuples are built from one string cut at "
             "different places, empty values, multi-byte/0x7f/NUL neighbours, the FNV collision pair, wrong cardinality, wrong names; "
             "plus local-vector histories of the `local` area (a local vector must address the same child as the shared vector for equal label values, also after removals); "
             "non-trivial = the case requests two tuples with equal concatenation (split shifted) or creates >= 2 children; distinct by request text",
        trusted=["the child key is FNV-1a 64 (modelled exactly, compared with the real key through the cfg(prometheus_verif) accessor verif_key)",
                 "a child's value is abstracted to the number of updates made through any handle to it"],
    ),
    "C09": dict(
        module="Prom.Props.C09",
        areas=[dict(area="desc", quick=3000, thorough=100000,
                    classes=["accept-.*", "reject-wellformed", "fq-name", "harness-panic"],
                    mask=[(r" id=[0-9a-f]+ dim=[0-9a-f]+", "")]),
               dict(area="reg", quick=800, thorough=30000,
                    classes=["gathered-name-invalid", "gathered-duplicate-label", "registry-accepts-invalid-names", "registry-refuses-valid-names", "harness-panic"],
                    mask=[(gather_names_labels, None)])],
        rule="case = 2-4 related constructor requests (Desc::new and all 10 metric constructors; names from an adversarial pool "
             "of ASCII/non-ASCII letters, digits, punctuation, empty; mutations: const->var, shuffles, boundary shifts, added / dropped constant labels); "
             "non-trivial = at least two accepted descriptors in the case; distinct by request text",
        trusted=["strings are UTF-8 byte lists; utf8_char_ascii / utf8_noFF (proved about Lean core's String.utf8EncodeChar) tie bytes to characters",
                 "HashMap iteration order is modelled as an arbitrary list order; each request is executed under two insertion orders"],
    ),
    "C15": dict(
        module="Prom.Props.C15",
        areas=[dict(area="desc", quick=3000, thorough=100000,
                    classes=["id-not-structural", "dim-not-structural", "order-dependent", "harness-panic"])],
        rule="case = 2-4 related descriptors (boundary-shifted splits, shuffled const/var labels, empty strings, shared prefixes, strict supersets of the constant labels), built one after another on one thread through Desc::new and every constructor; every pair of accepted "
             "descriptors is compared (id equal <=> same fq name + const values in name order; dim equal <=> same help + name sets); "
             "non-trivial = at least two accepted descriptors in the case",
        trusted=["equality of the 64-bit hashes is up to FNV collisions (the theorems are about the bytes fed to the hasher)",
                 "strings are UTF-8 byte lists; utf8_noFF proved about Lean core's String.utf8EncodeChar"],
    ),
    "C08": dict(
        module="Prom.Props.C08",
        areas=[dict(area="hist", quick=3000, thorough=150000)],
        rule="case = one request (bucket list, observation list, path direct|vec|local) or a bucket-helper call; "
             "non-trivial = accepted run with at least one observation equal to a bound or non-finite, "
             "a rejected list of >= 2 bounds, or a helper call with count > 0; distinct by request text",
        trusted=["f64 addition is a parameter of the theorems (every `add`); the executable instance is Lean Float",
                 "DEFAULT_BUCKETS regenerated from src/histogram.rs by translate/consts.py"],
    ),
}
