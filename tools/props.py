"""Per-property configuration of the checks (what is built, run and compared)."""

TB_COMMON = [
    "Lean 4.33.0 kernel (lake build; leanchecker in the thorough tier)",
    "axioms reported by #print axioms: subset of {propext, Classical.choice, Quot.sound}",
    "hand-written Lean model, tied to /repo by the differential correspondence run of this check",
    "pv-harness (Rust) + Lean driver executable (Lean compiler/runtime, Float = IEEE binary64)",
    "rustc / std (HashMap, sort stability, f64 formatting) are outside the model",
]

PROPS = {
    "C05": dict(
        module="Prom.Props.C05",
        areas=[dict(area="vec", quick=1500, thorough=60000,
                    classes=["child-identity", "key-encoding", "error-kind", "wrong-shape-accepted", "wellformed-request-refused",
                             "remove-result", "collect-mismatch", "fnv-collision", "harness-panic"])],
        rule="case = one vector (counter/int counter/gauge/int gauge/histogram; 0-3 declared names, 0-2 const labels) + 3-12 operations "
             "(with_label_values, map form in shuffled key order, remove, reset, update through old handles, collect); tuples are built from one string cut at "
             "different places, empty values, multi-byte/0x7f/NUL neighbours, the FNV collision pair, wrong cardinality, wrong names; "
             "non-trivial = the case requests two tuples with equal concatenation (split shifted) or creates >= 2 children; distinct by request text",
        trusted=["the child key is FNV-1a 64 (modelled exactly, compared with the real key through the cfg(prometheus_verif) accessor verif_key)",
                 "a child's value is abstracted to the number of updates made through any handle to it"],
    ),
    "C09": dict(
        module="Prom.Props.C09",
        areas=[dict(area="desc", quick=3000, thorough=100000,
                    classes=["accept-.*", "reject-wellformed", "fq-name", "harness-panic"],
                    mask=[(r" id=[0-9a-f]+ dim=[0-9a-f]+", "")])],
        rule="case = 2-4 related constructor requests (Desc::new and all 10 metric constructors; names from an adversarial pool "
             "of ASCII/non-ASCII letters, digits, punctuation, empty; mutations: const->var, shuffles, boundary shifts); "
             "non-trivial = at least two accepted descriptors in the case; distinct by request text",
        trusted=["strings are UTF-8 byte lists; utf8_char_ascii / utf8_noFF (proved about Lean core's String.utf8EncodeChar) tie bytes to characters",
                 "HashMap iteration order is modelled as an arbitrary list order; each request is executed under two insertion orders"],
    ),
    "C15": dict(
        module="Prom.Props.C15",
        areas=[dict(area="desc", quick=3000, thorough=100000,
                    classes=["id-not-structural", "dim-not-structural", "order-dependent", "harness-panic"])],
        rule="case = 2-4 related descriptors (boundary-shifted splits, shuffled const/var labels, empty strings, shared prefixes); every pair of accepted "
             "descriptors is compared (id equal <=> same fq name + const values in name order; dim equal <=> same help + name sets); "
             "non-trivial = at least two accepted descriptors in the case",
        trusted=["equality of the 64-bit hashes is up to FNV collisions (the theorems are about the bytes fed to the hasher)",
                 "strings are UTF-8 byte lists; utf8_noFF proved about Lean core's String.utf8EncodeChar"],
    ),
    "C08": dict(
        module="Prom.Props.C08",
        areas=[dict(area="hist", quick=3000, thorough=150000)],
        rule="case = one request (bucket list, observation list, path direct|vec|local) or a bucket-helper call; "
             "non-trivial = accepted run with at least one observation equal to a bound or non-finite, "
             "a rejected list of >= 2 bounds, or a helper call with count > 0; distinct by request text",
        trusted=["f64 addition is a parameter of the theorems (every `add`); the executable instance is Lean Float",
                 "DEFAULT_BUCKETS regenerated from src/histogram.rs by translate/consts.py"],
    ),
}
