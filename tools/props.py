"""Per-property configuration of the checks (what is built, run and compared)."""

TB_COMMON = [
    "Lean 4.33.0 kernel (lake build; leanchecker in the thorough tier)",
    "axioms reported by #print axioms: subset of {propext, Classical.choice, Quot.sound}",
    "hand-written Lean model, tied to /repo by the differential correspondence run of this check",
    "pv-harness (Rust) + Lean driver executable (Lean compiler/runtime, Float = IEEE binary64)",
    "rustc / std (HashMap, sort stability, f64 formatting) are outside the model",
]

PROPS = {
    "C08": dict(
        module="Prom.Props.C08",
        areas=[dict(area="hist", quick=3000, thorough=150000)],
        rule="case = one request (bucket list, observation list, path direct|vec|local) or a bucket-helper call; "
             "non-trivial = accepted run with at least one observation equal to a bound or non-finite, "
             "a rejected list of >= 2 bounds, or a helper call with count > 0; distinct by request text",
        trusted=["f64 addition is a parameter of the theorems (every `add`); the executable instance is Lean Float",
                 "DEFAULT_BUCKETS regenerated from src/histogram.rs by translate/consts.py"],
    ),
}
