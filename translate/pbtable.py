#!/usr/bin/env python3
"""Regenerate lean/Prom/Gen/PbTables.lean from /repo's current sources.

  writerTable : what the generated Rust code WRITES - per message, in write order, the
                (field, number, wire kind, repeated?) of every `os.write_*` /
                `write_message_field_with_cached_size` in `write_to_with_cached_sizes`
                of proto/proto_model.rs, plus the size rule `compute_size` uses for it;
  schema      : what proto/proto_model.proto DECLARES - per message the fields with number,
                type and label; enums with their values.

The two tables are produced from two different files by two different parsers; the Lean side
proves they are compatible (`Props/C13`). An idiom the parser does not know becomes the kind
`unknown "<text>"`, which makes the compatibility theorem fail.
"""
import os, re, sys


def lean_str(s):
    return '"' + s.replace('\\', '\\\\').replace('"', '\\"') + '"'


def parse_rust(src):
    msgs = []
    # struct field types
    structs = {}
    for m in re.finditer(r'pub struct (\w+) \{(.*?)\n\}', src, re.S):
        fields = {}
        for fm in re.finditer(r'pub (\w+): ([^\n]+),', m.group(2)):
            fields[fm.group(1)] = fm.group(2).strip()
        structs[m.group(1)] = fields
    for m in re.finditer(r'impl ::protobuf::Message for (\w+) \{(.*?)\n\}\n', src, re.S):
        name, body = m.group(1), m.group(2)
        w = re.search(r'fn write_to_with_cached_sizes\(.*?\{(.*?)\n    \}', body, re.S)
        cs = re.search(r'fn compute_size\(.*?\{(.*?)\n    \}', body, re.S)
        if not w or not cs:
            raise SystemExit('pbtable.py: cannot find writer/size of %s' % name)
        # size rules per field, in order
        size_rules = {}
        for sm in re.finditer(r'(?:if let Some\(v\) = self\.(\w+)(?:\.as_ref\(\))? \{|for value in &self\.(\w+) \{)\s*(.*?)\n        \}', cs.group(1), re.S):
            fld = sm.group(1) or sm.group(2)
            txt = ' '.join(sm.group(3).split())
            if 'string_size' in txt or 'compute_raw_varint64_size(len) + len' in txt:
                rule = 'tagLenBytes'
            elif txt.startswith('my_size += 1 + 8'):
                rule = 'tagFixed64'
            elif 'rt::uint64_size' in txt or 'rt::int64_size' in txt or 'rt::int32_size' in txt:
                rule = 'tagVarint'
            else:
                rule = 'unknownSize'
            size_rules[fld] = rule
        fields = []
        for fm in re.finditer(r'(if let Some\(v\) = self\.(\w+)(?:\.as_ref\(\))? \{|for v in &self\.(\w+) \{)\s*(.*?)\n        \}', w.group(1), re.S):
            repeated = fm.group(1).startswith('for')
            fld = fm.group(2) or fm.group(3)
            stmt = ' '.join(fm.group(4).split())
            k = re.match(r'os\.write_(\w+)\((\d+), ', stmt)
            km = re.match(r'::protobuf::rt::write_message_field_with_cached_size\((\d+), v, os\)\?;', stmt)
            if k:
                kind, num = k.group(1), int(k.group(2))
                kind = {'string': 'str', 'double': 'double', 'uint64': 'uint64', 'int64': 'int64', 'enum': 'enum'}.get(kind)
                kind = ('.' + kind) if kind else '(.unknown %s)' % lean_str(stmt)
            elif km:
                num = int(km.group(1))
                ty = structs.get(name, {}).get(fld, '')
                tm = re.search(r'(?:MessageField|Vec)<(\w+)>', ty)
                kind = '(.msg %s)' % lean_str(tm.group(1)) if tm else '(.unknown %s)' % lean_str(ty)
            else:
                num = 0
                kind = '(.unknown %s)' % lean_str(stmt)
            fname = fld[:-1] if fld.endswith('_') else fld       # `type_` is the Rust spelling of `type`
            fields.append((fname, num, kind, repeated, size_rules.get(fld, 'unknownSize')))
        # anything else written?
        extra = re.sub(r'(if let Some\(v\) = self\.\w+(?:\.as_ref\(\))? \{|for v in &self\.\w+ \{)\s*.*?\n        \}', '', w.group(1), flags=re.S)
        extra = ' '.join(extra.split())
        extra = extra.replace('os.write_unknown_fields(self.special_fields.unknown_fields())?; ', '').replace('os.write_unknown_fields(self.special_fields.unknown_fields())?;', '').replace('::std::result::Result::Ok(())', '').replace(';', ' ').strip()
        msgs.append((name, fields, extra))
    return msgs


def parse_proto(src):
    src = re.sub(r'//[^\n]*', '', src)
    msgs, enums = [], []
    for m in re.finditer(r'message (\w+) \{(.*?)\}', src, re.S):
        fields = []
        for fm in re.finditer(r'(optional|repeated|required)\s+(\w+)\s+(\w+)\s*=\s*(\d+)\s*;', m.group(2)):
            fields.append((fm.group(3), int(fm.group(4)), fm.group(2), fm.group(1)))
        msgs.append((m.group(1), fields))
    for m in re.finditer(r'enum (\w+) \{(.*?)\}', src, re.S):
        vals = [(v.group(1), int(v.group(2))) for v in re.finditer(r'(\w+)\s*=\s*(\d+)\s*;', m.group(2))]
        enums.append((m.group(1), vals))
    pk = re.search(r'package\s+([\w.]+)\s*;', src)
    return msgs, enums, pk.group(1) if pk else ''


def main(repo, out):
    rust = open(os.path.join(repo, 'proto/proto_model.rs')).read()
    proto = open(os.path.join(repo, 'proto/proto_model.proto')).read()
    wmsgs = parse_rust(rust)
    smsgs, enums, package = parse_proto(proto)
    enum_names = {e[0] for e in enums}
    msg_names = {m[0] for m in smsgs}
    L = ['/- GENERATED by translate/pbtable.py from /repo (proto/proto_model.rs, proto/proto_model.proto) — do not edit. -/',
         'import Prom.Model.PbTypes', 'namespace Prom.Gen', 'open Prom.Pb', '',
         '/-- per message, in write order: (field, number, kind, repeated, size rule) of `write_to_with_cached_sizes` / `compute_size` -/',
         'def writerTable : List (String × List WField) := [']
    rows = []
    for name, fields, extra in wmsgs:
        fs = ', '.join('⟨%s, %d, %s, %s, .%s⟩' % (lean_str(f[0]), f[1], f[2], 'true' if f[3] else 'false', f[4]) for f in fields)
        if extra:
            fs += (', ' if fs else '') + '⟨"?", 0, (.unknown %s), false, .unknownSize⟩' % lean_str(extra)
        rows.append('  (%s, [%s])' % (lean_str(name), fs))
    L.append(',\n'.join(rows))
    L += [']', '', '/-- per message: (field, number, type, repeated) as declared in proto_model.proto -/',
          'def schema : List (String × List SField) := [']
    rows = []
    for name, fields in smsgs:
        def ty(t):
            if t in ('string', 'double', 'uint64', 'int64'):
                return '.' + {'string': 'str', 'double': 'double', 'uint64': 'uint64', 'int64': 'int64'}[t]
            if t in enum_names:
                return '(.enum %s)' % lean_str(t)
            if t in msg_names:
                return '(.msg %s)' % lean_str(t)
            return '(.unknown %s)' % lean_str(t)
        fs = ', '.join('⟨%s, %d, %s, %s⟩' % (lean_str(f[0]), f[1], ty(f[2]), 'true' if f[3] == 'repeated' else 'false') for f in fields)
        rows.append('  (%s, [%s])' % (lean_str(name), fs))
    L.append(',\n'.join(rows))
    L += [']', '', 'def enums : List (String × List (String × Nat)) := [']
    L.append(',\n'.join('  (%s, [%s])' % (lean_str(e[0]), ', '.join('(%s, %d)' % (lean_str(v[0]), v[1]) for v in e[1])) for e in enums))
    L += [']', '', 'def protoPackage : String := %s' % lean_str(package), '', 'end Prom.Gen', '']
    txt = '\n'.join(L)
    if not os.path.exists(out) or open(out).read() != txt:
        open(out, 'w').write(txt)


if __name__ == '__main__':
    main(sys.argv[1], sys.argv[2])
