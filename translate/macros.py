#!/usr/bin/env python3
"""Regenerate lean/Prom/Gen/MacroArms.lean from /repo/src/macros.rs.

Every `macro_rules!` arm becomes (pattern, body):
  pattern : the parameters in order (`expr` / `ident` fragments, literal marker tokens such as
            `@of_type` or the delimiters `[` `]`, an optional trailing repetition `$(, $X:expr)*`)
            and whether a trailing comma is accepted. An arm with an OPTIONAL group
            `$( , $X:expr )?` is emitted as two arms - without and with the group - and every
            `$( … $X … )?` of the body is instantiated accordingly (dropped / kept);
  body    : a term of a small action language (MExpr) for the recognised idioms - constructor
            calls, builder calls, `register` in the default / a named registry followed by
            `.map(|()| handle)`, nested macro invocations (`name!(…)` or `$crate::name!(…)`; an argument may
            be a marker token, a `[ … ]` token group or a constructor expression). Anything else becomes
            `.unknown "<tokens>"`,
            which makes the Lean theorem about that arm fail.
"""
import os, re, sys


def lean_str(s):
    return '"' + s.replace('\\', '\\\\').replace('"', '\\"') + '"'


def strip_comments(src):
    return re.sub(r'//[^\n]*', '', src)


def split_top(s, sep=','):
    """split at top-level separators (not inside (), [], {})"""
    out, depth, cur = [], 0, ''
    for ch in s:
        if ch in '([{':
            depth += 1
        elif ch in ')]}':
            depth -= 1
        if ch == sep and depth == 0:
            out.append(cur)
            cur = ''
        else:
            cur += ch
    if cur.strip():
        out.append(cur)
    return [x.strip() for x in out]


def norm(s):
    return ' '.join(s.replace('$ ', '$').split())


def closing(s, i):
    """index of the delimiter closing the one at s[i], or -1"""
    pairs = {'(': ')', '[': ']', '{': '}'}
    stack = []
    for j in range(i, len(s)):
        ch = s[j]
        if ch in pairs:
            stack.append(pairs[ch])
        elif ch in ')]}':
            if not stack or stack.pop() != ch:
                return -1
            if not stack:
                return j
    return -1


def balanced(s):
    stack = []
    pairs = {'(': ')', '[': ']', '{': '}'}
    for ch in s:
        if ch in pairs:
            stack.append(pairs[ch])
        elif ch in ')]}':
            if not stack or stack.pop() != ch:
                return False
    return not stack


OPT_GROUP = re.compile(r'\$\(([^()]*)\)\s*\?')


def optional_variants(p):
    """`$( … $X:frag … )?` groups of a pattern (other than the trailing-comma group `$(,)?`): every choice of
    present / absent groups is one variant. Returns [(pattern text without optional groups, {X: present})],
    the variant without any group first."""
    raw, p = p, norm(p)
    groups = [m for m in OPT_GROUP.finditer(p) if re.search(r'\$\s*\w+\s*:\s*\w+', m.group(1))]
    if not groups:
        return [(raw, {})]
    out = []
    for mask in range(1 << len(groups)):
        txt, last, present = '', 0, {}
        for gi, m in enumerate(groups):
            on = bool(mask >> gi & 1)
            txt += p[last:m.start()] + (' ' + m.group(1) + ' ' if on else ' ')
            last = m.end()
            for v in re.findall(r'\$\s*(\w+)\s*:\s*\w+', m.group(1)):
                present[v] = on
        out.append((txt + p[last:], present))
    return out


def instantiate_optionals(b, present):
    """the body of one variant: `$( … )?` mentioning only present variables is replaced by its contents, one
    mentioning only absent variables is dropped. Returns None when an absent variable is still mentioned afterwards
    (rustc rejects such a body) or a group mixes present and absent variables."""
    if not present:
        return b
    out, i = '', 0
    while True:
        j = b.find('$(', i)
        if j < 0:
            out += b[i:]
            break
        k = closing(b, j + 1)
        mq = re.compile(r'\s*\?').match(b, k + 1) if k >= 0 else None
        if k < 0 or not mq:
            out += b[i:j + 2]
            i = j + 2
            continue
        inner = b[j + 2:k]
        used = set(re.findall(r'\$(\w+)', inner)) & set(present)
        if used and all(present[v] for v in used):
            out += b[i:j] + inner
        elif used and not any(present[v] for v in used):
            out += b[i:j]
        else:
            out += b[i:mq.end()]
        i = mq.end()
    for v, on in present.items():
        if not on and re.search(r'\$%s\b' % re.escape(v), out):
            return None
    return out


def parse_pattern(p):
    p = norm(p)
    p = re.sub(r'\$\s*(\w+)\s*:\s*(\w+)', r'$\1:\2', p)
    trailing = False
    m = re.search(r'\$\(\s*,\s*\)\s*\?\s*$', p)
    if m:
        trailing = True
        p = p[:m.start()].strip()
    rep = None
    # `labels!` style repetition: $( $KEY:expr => $VALUE:expr ),*
    m = re.fullmatch(r'\$\(\s*\$(\w+):expr\s*=>\s*\$(\w+):expr\s*\)\s*,\s*\*', p)
    if m:
        return [], ('pairs', m.group(1), m.group(2)), trailing
    m = re.search(r'\$\(\s*,\s*\$(\w+):expr\s*\)\s*\*\s*$', p)
    if m:
        rep = ('tail', m.group(1))
        p = p[:m.start()].strip()
    params = []
    # commas only separate parameters; `[` and `]` are literal tokens of their own
    for t in p.replace(',', ' ').replace('[', ' [ ').replace(']', ' ] ').split():
        mm = re.fullmatch(r'\$(\w+):(\w+)', t)
        if mm:
            params.append(('.%s' % ('expr' if mm.group(2) == 'expr' else 'ident'), mm.group(1)))
        else:
            params.append(('.lit', t))
    return params, rep, trailing


def match_call(e):
    """`name!( … )` or `$crate::name!( … )` where the parenthesis opened after `!` closes at the very end:
    (name, argument text), else None"""
    m = re.match(r'(?:\$crate::)?(\w+)!\s*\(', e)
    if not m or closing(e, m.end() - 1) != len(e) - 1:
        return None
    return m.group(1), e[m.end():-1]


def parse_construct(e):
    """`$crate::<Type or $TYPE>::with_opts(args).unwrap()` / `…::new(args).unwrap()` - the constructor expression"""
    m = re.fullmatch(r'\$crate::(\$?\w+)::(with_opts|new)\((.*)\)\s*\.unwrap\(\)', e, re.S)
    if not m or not balanced(m.group(3)):
        return None
    ty = m.group(1)
    ty_e = '(.var %s)' % lean_str(ty[1:]) if ty.startswith('$') else '(.ident %s)' % lean_str(ty)
    args = [parse_expr(a) for a in split_top(m.group(3))]
    return '(.construct %s [%s])' % (ty_e, ', '.join(args))


def parse_metric(e):
    """the metric a body registers: a constructor expression, or a fragment `$METRIC`"""
    e = e.strip()
    m = re.fullmatch(r'\$(\w+)', e)
    if m:
        return '(.var %s)' % lean_str(m.group(1))
    return parse_construct(e)


def parse_expr(e):
    """an argument expression inside a body: `$X`, a bare identifier, a nested macro call or a constructor expression"""
    e = e.strip()
    m = re.fullmatch(r'\$(\w+)', e)
    if m:
        return '(.var %s)' % lean_str(m.group(1))
    mc = match_call(e)
    if mc:
        return parse_call(*mc)
    m = re.fullmatch(r'[A-Za-z_]\w*', e)
    if m:
        return '(.ident %s)' % lean_str(e)
    c = parse_construct(e)
    if c:
        return c
    return '(.unknown %s)' % lean_str(norm(e))


def parse_call_part(a):
    """one comma-separated part of an invocation: marker tokens `@word` and `[ … ]` token groups (the delimiters become
    literal tokens, the contents are parts again), then at most one expression. A lone `[ … ]` without a marker before
    or tokens after it stays an (array) expression."""
    out, s, marked = [], a.strip(), False
    while s:
        m = re.match(r'@\w+', s)
        if m:
            out.append('(.lit %s)' % lean_str(m.group(0)))
            s, marked = s[m.end():].lstrip(), True
            continue
        if s[0] == '[':
            k = closing(s, 0)
            rest = s[k + 1:].lstrip() if k >= 0 else ''
            if k >= 0 and (marked or rest) and not rest.startswith(('.', '?', '[')):
                out.append('(.lit "[")')
                for x in split_top(s[1:k]):
                    out += parse_call_part(x)
                out.append('(.lit "]")')
                s, marked = rest, True
                continue
        out.append(parse_expr(s))
        break
    return out


def parse_call(name, args):
    parts = []
    for a in split_top(args):
        parts += parse_call_part(a)
    return '(.call %s [%s])' % (lean_str(name), ', '.join(parts))


def parse_hopts_chain(b):
    """`let v = E0; let v = v.buckets($B); … v.const_labels($C)` where E0 is `$crate::HistogramOpts::new($N, $H)` or a nested
    macro call, every later step a `.buckets($X)` / `.const_labels($X)` call on the variable bound just before. Returns the
    term, or None when `b` is not such a chain (the other patterns then apply)."""
    steps = [x.strip() for x in b.split(';')]
    if len(steps) < 2 or any(not x for x in steps):
        return None
    term = None; var = None
    for i, st in enumerate(steps):
        last = i == len(steps) - 1
        if not last:
            m = re.fullmatch(r'let (\w+) = (.*)', st, re.S)
            if not m:
                return None
            name, e = m.group(1), m.group(2).strip()
        else:
            name, e = None, st
        if term is None:
            m0 = re.fullmatch(r'\$crate::HistogramOpts::new\(\$(\w+), \$(\w+)\)', e)
            m1 = match_call(e)
            if m0:
                term = '(.newHistOpts (.var %s) (.var %s))' % (lean_str(m0.group(1)), lean_str(m0.group(2)))
            elif m1 and not last:
                term = parse_call(*m1)
            else:
                return None
        else:
            m2 = re.fullmatch(r'(\w+)\.(buckets|const_labels)\(\$(\w+)\)', e)
            if not m2 or m2.group(1) != var:
                return None
            ctor = '.setBuckets' if m2.group(2) == 'buckets' else '.setConstLabels'
            term = '(%s %s (.var %s))' % (ctor, term, lean_str(m2.group(3)))
        var = name
    return term


def parse_body(b):
    b = norm(b)
    b = re.sub(r'^\{\s*(.*?)\s*\}$', r'\1', b)        # the inner block of `{{ … }}`
    # comments were removed by the caller; the following rewrites are meaning-preserving normalisations
    # `match E { Ok(()) => Ok(h), Err(e) => Err(e), }`  ==  `E.map(|()| h)`
    b = re.sub(r'match (.+?) \{ Ok\(\(\)\) => Ok\((\w+)\), Err\((\w+)\) => Err\(\3\),? \}$', r'\1.map(|()| \2)', b)
    # a chain of `let hopts = …;` steps on HistogramOpts, evaluated by substitution
    mm = parse_hopts_chain(b)
    if mm is not None:
        return mm
    # a bare nested macro call
    mc = match_call(b)
    if mc:
        return parse_call(*mc)
    m = re.fullmatch(r'\$crate::HistogramOpts::new\(\$(\w+), \$(\w+)\)', b)
    if m:
        return '(.newHistOpts (.var %s) (.var %s))' % (lean_str(m.group(1)), lean_str(m.group(2)))
    m = re.fullmatch(r'let hopts = (\w+)!\((.*?)\); hopts\.(buckets|const_labels)\(\$(\w+)\)', b)
    if m:
        ctor = '.setBuckets' if m.group(3) == 'buckets' else '.setConstLabels'
        return '(%s %s (.var %s))' % (ctor, parse_call(m.group(1), m.group(2)), lean_str(m.group(4)))
    # build + register a boxed clone + map back to the handle: `let m = E; R.register(Box::new(m.clone())).map(|()| m)`
    # with E a constructor expression or a fragment `$METRIC` (bound to one by the invocation), R a fragment `$REGISTRY`
    m = re.fullmatch(r'let (\w+) = (.+?); (.+?)\s*\.register\(Box::new\(\1\.clone\(\)\)\)\s*\.map\(\|\(\)\| \1\)', b)
    if m:
        metric = parse_metric(m.group(2))
        mt = re.fullmatch(r'\$(\w+)', m.group(3).strip())
        if metric and mt:
            return '(.registerIn (.var %s) %s)' % (lean_str(mt.group(1)), metric)
        return '(.unknown %s)' % lean_str(b)
    # the same in the default registry: `$crate::register(Box::new(m.clone())).map(|()| m)`
    m = re.fullmatch(r'let (\w+) = (.+?); \$crate::register\(Box::new\(\1\.clone\(\)\)\)\s*\.map\(\|\(\)\| \1\)', b)
    if m:
        metric = parse_metric(m.group(2))
        if metric:
            return '(.registerDefault %s)' % metric
        return '(.unknown %s)' % lean_str(b)
    # opts!: Opts::new + extend every given map in order (later maps override earlier ones)
    m = re.fullmatch(r'use std::collections::HashMap; let opts = \$crate::Opts::new\(\$(\w+), \$(\w+)\); let lbs = HashMap::<String, String>::new\(\); '
                     r'\$\( #\[allow\(clippy::redundant_locals\)\] let mut lbs = lbs; lbs\.extend\(\$(\w+)\.iter\(\)\.map\(\|\(k, v\)\| \(\(\*k\)\.into\(\), \(\*v\)\.into\(\)\)\)\); \)\* opts\.const_labels\(lbs\)', b)
    if m:
        return '(.optsExtendAll (.var %s) (.var %s) %s)' % (lean_str(m.group(1)), lean_str(m.group(2)), lean_str(m.group(3)))
    # the same with ONE mutable map that every given map extends in order
    m = re.fullmatch(r'use std::collections::HashMap; let opts = \$crate::Opts::new\(\$(\w+), \$(\w+)\); (?:#\[allow\(unused_mut\)\] )?let mut (\w+) = HashMap::<String, String>::new\(\); '
                     r'\$\( \3\.extend\(\$(\w+)\.iter\(\)\.map\(\|\(k, v\)\| \(\(\*k\)\.into\(\), \(\*v\)\.into\(\)\)\)\); \)\* opts\.const_labels\(\3\)', b)
    if m:
        return '(.optsExtendAll (.var %s) (.var %s) %s)' % (lean_str(m.group(1)), lean_str(m.group(2)), lean_str(m.group(4)))
    # labels!: HashMap::new + insert every pair in order
    m = re.fullmatch(r'use std::collections::HashMap; let mut lbs = HashMap::new\(\); \$\( lbs\.insert\(\$(\w+), \$(\w+)\); \)\* lbs', b)
    if m:
        return '(.labelsInsertAll %s %s)' % (lean_str(m.group(1)), lean_str(m.group(2)))
    return '(.unknown %s)' % lean_str(b)


def parse_macros(src):
    src = strip_comments(src)
    out = []
    for m in re.finditer(r'((?:#\[[^\]]*\]\s*)*)macro_rules!\s*(\w+)\s*\{', src):
        exported = 'macro_export' in (m.group(1) or '') and '#[doc(hidden)]' not in (m.group(1) or '')
        name = m.group(2)
        i = m.end()
        depth = 1
        j = i
        while depth > 0:
            if src[j] == '{':
                depth += 1
            elif src[j] == '}':
                depth -= 1
            j += 1
        body = src[i:j - 1]
        arms = []
        k = 0
        while True:
            ms = re.compile(r'\s*\(').match(body, k)
            if not ms:
                break
            # pattern
            d, p0 = 1, ms.end()
            q = p0
            while d > 0:
                if body[q] == '(':
                    d += 1
                elif body[q] == ')':
                    d -= 1
                q += 1
            pat = body[p0:q - 1]
            ma = re.compile(r'\s*=>\s*\{').match(body, q)
            if not ma:
                break
            d, b0 = 1, ma.end()
            r = b0
            while d > 0:
                if body[r] == '{':
                    d += 1
                elif body[r] == '}':
                    d -= 1
                r += 1
            arm_body = body[b0:r - 1]
            arms.append((pat, arm_body))
            mt = re.compile(r'\s*;?').match(body, r)
            k = mt.end()
        out.append((name, exported, arms))
    return out


def main(repo, out):
    src = open(os.path.join(repo, 'src/macros.rs')).read()
    macros = parse_macros(src)
    L = ['/- GENERATED by translate/macros.py from /repo/src/macros.rs — do not edit. -/',
         'import Prom.Model.MacroTypes', 'namespace Prom.Gen', 'open Prom.Macros', '',
         '/-- every `macro_rules!` of src/macros.rs: (name, exported, arms in order) -/',
         'def macroTable : List MacroDef := [']
    rows = []
    for name, exported, arms in macros:
        arm_rows = []
        for pat, body in arms:
            for pat_v, present in optional_variants(pat):
                params, rep, trailing = parse_pattern(pat_v)
                ps = ', '.join('(%s, %s)' % (k, lean_str(n)) for k, n in params)
                if rep is None:
                    rp = '.none'
                elif rep[0] == 'tail':
                    rp = '(.tail %s)' % lean_str(rep[1])
                else:
                    rp = '(.pairs %s %s)' % (lean_str(rep[1]), lean_str(rep[2]))
                body_v = instantiate_optionals(norm(body), present) if present else body
                term = parse_body(body_v) if body_v is not None else '(.unknown %s)' % lean_str(norm(body))
                arm_rows.append('    ⟨[%s], %s, %s, %s⟩' % (ps, rp, 'true' if trailing else 'false', term))
        rows.append('  ⟨%s, %s, [\n%s]⟩' % (lean_str(name), 'true' if exported else 'false', ',\n'.join(arm_rows)))
    L.append(',\n'.join(rows))
    L += [']', '', 'end Prom.Gen', '']
    txt = '\n'.join(L)
    if not os.path.exists(out) or open(out).read() != txt:
        open(out, 'w').write(txt)


if __name__ == '__main__':
    main(sys.argv[1], sys.argv[2])
