#!/usr/bin/env python3
"""Regenerate lean/Prom/Gen/MacroArms.lean from /repo/src/macros.rs.

Every `macro_rules!` arm becomes (pattern, body):
  pattern : the parameters in order (`expr` / `ident` fragments, literal marker tokens such as
            `@of_type`, an optional trailing repetition `$(, $X:expr)*`) and whether a trailing
            comma is accepted;
  body    : a term of a small action language (MExpr) for the recognised idioms - constructor
            calls, builder calls, `register` in the default / a named registry followed by
            `.map(|()| handle)`, nested macro invocations. Anything else becomes `.unknown "<tokens>"`,
            which makes the Lean theorem about that arm fail.
"""
import os, re, sys


def lean_str(s):
    return '"' + s.replace('\\', '\\\\').replace('"', '\\"') + '"'


def strip_comments(src):
    return re.sub(r'//[^\n]*', '', src)


def split_top(s, sep=','):
    """split at top-level separators (not inside (), [], {})"""
    out, depth, cur = [], 0, ''
    for ch in s:
        if ch in '([{':
            depth += 1
        elif ch in ')]}':
            depth -= 1
        if ch == sep and depth == 0:
            out.append(cur)
            cur = ''
        else:
            cur += ch
    if cur.strip():
        out.append(cur)
    return [x.strip() for x in out]


def norm(s):
    return ' '.join(s.replace('$ ', '$').split())


def parse_pattern(p):
    p = norm(p)
    p = re.sub(r'\$\s*(\w+)\s*:\s*(\w+)', r'$\1:\2', p)
    trailing = False
    m = re.search(r'\$\(\s*,\s*\)\s*\?\s*$', p)
    if m:
        trailing = True
        p = p[:m.start()].strip()
    rep = None
    # `labels!` style repetition: $( $KEY:expr => $VALUE:expr ),*
    m = re.fullmatch(r'\$\(\s*\$(\w+):expr\s*=>\s*\$(\w+):expr\s*\)\s*,\s*\*', p)
    if m:
        return [], ('pairs', m.group(1), m.group(2)), trailing
    m = re.search(r'\$\(\s*,\s*\$(\w+):expr\s*\)\s*\*\s*$', p)
    if m:
        rep = ('tail', m.group(1))
        p = p[:m.start()].strip()
    params = []
    for part in split_top(p):
        toks = part.split()
        for t in toks:
            mm = re.fullmatch(r'\$(\w+):(\w+)', t)
            if mm:
                params.append(('.%s' % ('expr' if mm.group(2) == 'expr' else 'ident'), mm.group(1)))
            else:
                params.append(('.lit', t))
    return params, rep, trailing


def parse_expr(e):
    """an argument expression inside a body: `$X`, a bare identifier, or a nested macro call"""
    e = e.strip()
    m = re.fullmatch(r'\$(\w+)', e)
    if m:
        return '(.var %s)' % lean_str(m.group(1))
    m = re.fullmatch(r'(\w+)!\s*\((.*)\)', e, re.S)
    if m:
        return parse_call(m.group(1), m.group(2))
    m = re.fullmatch(r'[A-Za-z_]\w*', e)
    if m:
        return '(.ident %s)' % lean_str(e)
    return '(.unknown %s)' % lean_str(norm(e))


def parse_call(name, args):
    parts = []
    for a in split_top(args):
        toks = a.split()
        if len(toks) >= 2 and toks[0].startswith('@'):
            parts.append('(.lit %s)' % lean_str(toks[0]))
            parts.append(parse_expr(' '.join(toks[1:])))
        else:
            parts.append(parse_expr(a))
    return '(.call %s [%s])' % (lean_str(name), ', '.join(parts))


def parse_hopts_chain(b):
    """`let v = E0; let v = v.buckets($B); … v.const_labels($C)` where E0 is `$crate::HistogramOpts::new($N, $H)` or a nested
    macro call, every later step a `.buckets($X)` / `.const_labels($X)` call on the variable bound just before. Returns the
    term, or None when `b` is not such a chain (the other patterns then apply)."""
    steps = [x.strip() for x in b.split(';')]
    if len(steps) < 2 or any(not x for x in steps):
        return None
    term = None; var = None
    for i, st in enumerate(steps):
        last = i == len(steps) - 1
        if not last:
            m = re.fullmatch(r'let (\w+) = (.*)', st, re.S)
            if not m:
                return None
            name, e = m.group(1), m.group(2).strip()
        else:
            name, e = None, st
        if term is None:
            m0 = re.fullmatch(r'\$crate::HistogramOpts::new\(\$(\w+), \$(\w+)\)', e)
            m1 = re.fullmatch(r'(\w+)!\s*\((.*)\)', e, re.S)
            if m0:
                term = '(.newHistOpts (.var %s) (.var %s))' % (lean_str(m0.group(1)), lean_str(m0.group(2)))
            elif m1 and not last:
                term = parse_call(m1.group(1), m1.group(2))
            else:
                return None
        else:
            m2 = re.fullmatch(r'(\w+)\.(buckets|const_labels)\(\$(\w+)\)', e)
            if not m2 or m2.group(1) != var:
                return None
            ctor = '.setBuckets' if m2.group(2) == 'buckets' else '.setConstLabels'
            term = '(%s %s (.var %s))' % (ctor, term, lean_str(m2.group(3)))
        var = name
    return term


def parse_body(b):
    b = norm(b)
    b = re.sub(r'^\{\s*(.*?)\s*\}$', r'\1', b)        # the inner block of `{{ … }}`
    # comments were removed by the caller; the following rewrites are meaning-preserving normalisations
    # `match E { Ok(()) => Ok(h), Err(e) => Err(e), }`  ==  `E.map(|()| h)`
    b = re.sub(r'match (.+?) \{ Ok\(\(\)\) => Ok\((\w+)\), Err\((\w+)\) => Err\(\3\),? \}$', r'\1.map(|()| \2)', b)
    # a chain of `let hopts = …;` steps on HistogramOpts, evaluated by substitution
    mm = parse_hopts_chain(b)
    if mm is not None:
        return mm
    # a bare nested macro call
    m = re.fullmatch(r'(\w+)!\s*\((.*)\)', b, re.S)
    if m:
        return parse_call(m.group(1), m.group(2))
    m = re.fullmatch(r'\$crate::HistogramOpts::new\(\$(\w+), \$(\w+)\)', b)
    if m:
        return '(.newHistOpts (.var %s) (.var %s))' % (lean_str(m.group(1)), lean_str(m.group(2)))
    m = re.fullmatch(r'let hopts = (\w+)!\((.*?)\); hopts\.(buckets|const_labels)\(\$(\w+)\)', b)
    if m:
        ctor = '.setBuckets' if m.group(3) == 'buckets' else '.setConstLabels'
        return '(%s %s (.var %s))' % (ctor, parse_call(m.group(1), m.group(2)), lean_str(m.group(4)))
    # construct + register + map to the handle
    m = re.fullmatch(r'let (\w+) = \$crate::(\$?\w+)::(with_opts|new)\((.*?)\)\.unwrap\(\); (.*?) \.register\(Box::new\(\1\.clone\(\)\)\) \.map\(\|\(\)\| \1\)'.replace(r' \.', r'\s*\.'), b)
    if m:
        ty = m.group(2)
        ty_e = '(.var %s)' % lean_str(ty[1:]) if ty.startswith('$') else '(.ident %s)' % lean_str(ty)
        args = [parse_expr(a) for a in split_top(m.group(4))]
        ctor = '(.construct %s [%s])' % (ty_e, ', '.join(args))
        target = m.group(5).strip()
        if target == '$crate::register(Box::new(%s.clone())).map(|()| %s)' % (m.group(1), m.group(1)):
            pass
        if target == '$crate':
            return '(.unknown %s)' % lean_str(b)
        mt = re.fullmatch(r'\$(\w+)', target)
        if mt:
            return '(.registerIn (.var %s) %s)' % (lean_str(mt.group(1)), ctor)
        return '(.unknown %s)' % lean_str(b)
    m = re.fullmatch(r'let (\w+) = \$crate::(\$?\w+)::(with_opts|new)\((.*?)\)\.unwrap\(\); \$crate::register\(Box::new\(\1\.clone\(\)\)\)\.map\(\|\(\)\| \1\)', b)
    if m:
        ty = m.group(2)
        ty_e = '(.var %s)' % lean_str(ty[1:]) if ty.startswith('$') else '(.ident %s)' % lean_str(ty)
        args = [parse_expr(a) for a in split_top(m.group(4))]
        return '(.registerDefault (.construct %s [%s]))' % (ty_e, ', '.join(args))
    # opts!: Opts::new + extend every given map in order (later maps override earlier ones)
    m = re.fullmatch(r'use std::collections::HashMap; let opts = \$crate::Opts::new\(\$(\w+), \$(\w+)\); let lbs = HashMap::<String, String>::new\(\); '
                     r'\$\( #\[allow\(clippy::redundant_locals\)\] let mut lbs = lbs; lbs\.extend\(\$(\w+)\.iter\(\)\.map\(\|\(k, v\)\| \(\(\*k\)\.into\(\), \(\*v\)\.into\(\)\)\)\); \)\* opts\.const_labels\(lbs\)', b)
    if m:
        return '(.optsExtendAll (.var %s) (.var %s) %s)' % (lean_str(m.group(1)), lean_str(m.group(2)), lean_str(m.group(3)))
    # the same with ONE mutable map that every given map extends in order
    m = re.fullmatch(r'use std::collections::HashMap; let opts = \$crate::Opts::new\(\$(\w+), \$(\w+)\); (?:#\[allow\(unused_mut\)\] )?let mut (\w+) = HashMap::<String, String>::new\(\); '
                     r'\$\( \3\.extend\(\$(\w+)\.iter\(\)\.map\(\|\(k, v\)\| \(\(\*k\)\.into\(\), \(\*v\)\.into\(\)\)\)\); \)\* opts\.const_labels\(\3\)', b)
    if m:
        return '(.optsExtendAll (.var %s) (.var %s) %s)' % (lean_str(m.group(1)), lean_str(m.group(2)), lean_str(m.group(4)))
    # labels!: HashMap::new + insert every pair in order
    m = re.fullmatch(r'use std::collections::HashMap; let mut lbs = HashMap::new\(\); \$\( lbs\.insert\(\$(\w+), \$(\w+)\); \)\* lbs', b)
    if m:
        return '(.labelsInsertAll %s %s)' % (lean_str(m.group(1)), lean_str(m.group(2)))
    return '(.unknown %s)' % lean_str(b)


def parse_macros(src):
    src = strip_comments(src)
    out = []
    for m in re.finditer(r'((?:#\[[^\]]*\]\s*)*)macro_rules!\s*(\w+)\s*\{', src):
        exported = 'macro_export' in (m.group(1) or '') and '#[doc(hidden)]' not in (m.group(1) or '')
        name = m.group(2)
        i = m.end()
        depth = 1
        j = i
        while depth > 0:
            if src[j] == '{':
                depth += 1
            elif src[j] == '}':
                depth -= 1
            j += 1
        body = src[i:j - 1]
        arms = []
        k = 0
        while True:
            ms = re.compile(r'\s*\(').match(body, k)
            if not ms:
                break
            # pattern
            d, p0 = 1, ms.end()
            q = p0
            while d > 0:
                if body[q] == '(':
                    d += 1
                elif body[q] == ')':
                    d -= 1
                q += 1
            pat = body[p0:q - 1]
            ma = re.compile(r'\s*=>\s*\{').match(body, q)
            if not ma:
                break
            d, b0 = 1, ma.end()
            r = b0
            while d > 0:
                if body[r] == '{':
                    d += 1
                elif body[r] == '}':
                    d -= 1
                r += 1
            arm_body = body[b0:r - 1]
            arms.append((pat, arm_body))
            mt = re.compile(r'\s*;?').match(body, r)
            k = mt.end()
        out.append((name, exported, arms))
    return out


def main(repo, out):
    src = open(os.path.join(repo, 'src/macros.rs')).read()
    macros = parse_macros(src)
    L = ['/- GENERATED by translate/macros.py from /repo/src/macros.rs — do not edit. -/',
         'import Prom.Model.MacroTypes', 'namespace Prom.Gen', 'open Prom.Macros', '',
         '/-- every `macro_rules!` of src/macros.rs: (name, exported, arms in order) -/',
         'def macroTable : List MacroDef := [']
    rows = []
    for name, exported, arms in macros:
        arm_rows = []
        for pat, body in arms:
            params, rep, trailing = parse_pattern(pat)
            ps = ', '.join('(%s, %s)' % (k, lean_str(n)) for k, n in params)
            if rep is None:
                rp = '.none'
            elif rep[0] == 'tail':
                rp = '(.tail %s)' % lean_str(rep[1])
            else:
                rp = '(.pairs %s %s)' % (lean_str(rep[1]), lean_str(rep[2]))
            arm_rows.append('    ⟨[%s], %s, %s, %s⟩' % (ps, rp, 'true' if trailing else 'false', parse_body(body)))
        rows.append('  ⟨%s, %s, [\n%s]⟩' % (lean_str(name), 'true' if exported else 'false', ',\n'.join(arm_rows)))
    L.append(',\n'.join(rows))
    L += [']', '', 'end Prom.Gen', '']
    txt = '\n'.join(L)
    if not os.path.exists(out) or open(out).read() != txt:
        open(out, 'w').write(txt)


if __name__ == '__main__':
    main(sys.argv[1], sys.argv[2])
