#!/usr/bin/env python3
"""Regenerate lean/Prom/Gen/Charsets.lean from /repo/src/desc.rs.

Translates the name-validation code of src/desc.rs to Lean definitions over `Char`:

  * every top-level `fn NAME(c: char) -> bool { EXPR }` whose EXPR is built from
      c.is_ascii_alphabetic()  c.is_ascii_digit()  c.is_ascii_alphanumeric()
      c.is_ascii_uppercase()   c.is_ascii_lowercase()
      c == 'x' (a char literal, escapes included)   OTHER(c) (another such function)
      matches!(c, 'a'..='z' | '_' | ...) (char literals and inclusive char ranges)
      ||   &&   !   ( )
    becomes `def NAME (c : Char) : Bool := ...` with explicit code-point range tests;
  * the shape of `is_valid_ident` (empty input: false; first character: the `if` condition
    `charset_validator(zeroth)`; every later character: the body of the closure given to
    `chars.all`, e.g. `charset_validator(c) || c.is_ascii_digit()`) is recognised by pattern; the two
    expressions are translated with `charset_validator` as a parameter (`genFirstBody`, `genRestBody`)
    and the control shape becomes `genIdentOk`. Three source shapes are recognised: two that scan
    `input.chars()` (the `next().and_then(..).unwrap_or(false)` chain; a `match` on `chars.next()` with a
    guard) and one that scans `input.bytes().map(char::from)` (`let Some(z) = it.next() else { return
    false; }; FIRST(z) && it.all(|c| REST)`). WHAT the list handed to `genIdentOk` consists of is emitted
    as the flag `identScansBytes`: `false` = the string's characters, `true` = the bytes of its UTF-8
    encoding, each turned into the character U+0000..U+00FF of that value (`char::from(u8)`);
  * which predicate `is_valid_metric_name` / `is_valid_label_name` pass to `is_valid_ident`
    (`genMetricFirstOk`, `genMetricRestOk`, `genLabelFirstOk`, `genLabelRestOk`).

ANYTHING that is not recognised (`c.is_alphabetic()`, a call of a function that is not a translated
predicate, a statement instead of an expression, two definitions of one name, another shape of
`is_valid_ident`, another argument in `is_valid_metric_name` ...) is emitted as the predicate
`fun _ => false`, with the reason in a comment, and makes `charsetsKnown` false - which makes the Lean
theorem `generated_charsets_known` (Props/C09) fail. The output is well-formed Lean either way.
"""
import os, re, sys

CHAR_LIT = re.compile(r"'(?:\\x[0-7][0-9a-fA-F]|\\u\{[0-9a-fA-F_]{1,8}\}|\\[nrt\\0'\"]|[^'\\\n])'")

# Rust `char` methods with a fixed ASCII meaning: inclusive code-point ranges
METHODS = {
    'is_ascii_alphabetic': [(65, 90), (97, 122)],
    'is_ascii_digit': [(48, 57)],
    'is_ascii_alphanumeric': [(48, 57), (65, 90), (97, 122)],
    'is_ascii_uppercase': [(65, 90)],
    'is_ascii_lowercase': [(97, 122)],
}

# names the generated file defines itself / Lean keywords: a Rust function of that name is renamed
RESERVED = {'identScansBytes', 'genIdentOk', 'genFirstBody', 'genRestBody', 'genMetricFirstOk', 'genMetricRestOk',
            'genLabelFirstOk', 'genLabelRestOk', 'charsetsKnown', 'charsetsUnknown', 'def', 'fun', 'end',
            'at', 'from', 'have', 'show', 'open', 'namespace', 'theorem', 'instance', 'section', 'variable',
            'then', 'with', 'do', 'by', 'in', 'to', 'export', 'import', 'prefix', 'infix', 'notation',
            'macro', 'syntax', 'universe', 'example', 'axiom', 'structure', 'inductive', 'class', 'where',
            'deriving', 'mutual', 'private', 'protected', 'partial', 'unsafe', 'noncomputable', 'abbrev',
            'opaque', 'local', 'scoped', 'set_option', 'attribute', 'using', 'calc', 'nomatch', 'nofun',
            'Type', 'Sort', 'Prop'}


class Unknown(Exception):
    pass


def blank(s):
    return ''.join('\n' if ch == '\n' else ' ' for ch in s)


def scan(src):
    """Two copies of `src` of the same length: `code` has comments blanked, `mask` has comments AND the
    contents of string / char literals blanked (so braces can be matched on `mask` and expressions read
    from `code` at the same offsets)."""
    code, mask = [], []
    i, n = 0, len(src)
    while i < n:
        ch = src[i]
        if src.startswith('//', i):
            j = src.find('\n', i)
            j = n if j < 0 else j
            code.append(blank(src[i:j])); mask.append(blank(src[i:j])); i = j
        elif src.startswith('/*', i):
            depth, j = 1, i + 2
            while j < n and depth:
                if src.startswith('/*', j):
                    depth += 1; j += 2
                elif src.startswith('*/', j):
                    depth -= 1; j += 2
                else:
                    j += 1
            code.append(blank(src[i:j])); mask.append(blank(src[i:j])); i = j
        elif ch == '"' or (ch in 'rb' and re.match(r'b?r?#*"', src[i:]) and not (i and (src[i-1].isalnum() or src[i-1] == '_'))):
            m = re.match(r'(b?)(r?)(#*)"', src[i:])
            if m.group(2):  # raw string
                close = '"' + m.group(3)
                j = src.find(close, i + m.end())
                j = n if j < 0 else j + len(close)
            else:
                j = i + m.end()
                while j < n and src[j] != '"':
                    j += 2 if src[j] == '\\' else 1
                j = min(n, j + 1)
            code.append(src[i:j]); mask.append(blank(src[i:j])); i = j
        elif ch == "'":
            m = CHAR_LIT.match(src, i)
            if m:
                code.append(m.group(0)); mask.append(blank(m.group(0))); i = m.end()
            else:  # a lifetime / loop label
                code.append(ch); mask.append(ch); i += 1
        else:
            code.append(ch); mask.append(ch); i += 1
    return ''.join(code), ''.join(mask)


def match_brace(mask, i):
    """index just after the `}` matching the `{` at mask[i]"""
    depth = 0
    for j in range(i, len(mask)):
        if mask[j] == '{':
            depth += 1
        elif mask[j] == '}':
            depth -= 1
            if depth == 0:
                return j + 1
    raise Unknown('unbalanced braces')


def top_level_fns(code, mask):
    """(name, header text between name and `{`, body text without the outer braces) of every `fn` at
    brace depth 0, in source order. Nested functions (test modules, impl blocks) cannot be what the
    top-level functions below call by bare name, and are ignored."""
    out = []
    depth = 0
    i, n = 0, len(mask)
    pat = re.compile(r'\bfn\s+([A-Za-z_]\w*)')
    while i < n:
        ch = mask[i]
        if ch == '{':
            depth += 1; i += 1
        elif ch == '}':
            depth -= 1; i += 1
        elif depth == 0 and ch == 'f' and (i == 0 or not (mask[i-1].isalnum() or mask[i-1] == '_')):
            m = pat.match(mask, i)
            if not m:
                i += 1
                continue
            j = m.end()
            while j < n and mask[j] not in '{;':
                j += 1
            if j >= n or mask[j] == ';':
                i = j + 1
                continue
            k = match_brace(mask, j)
            out.append((m.group(1), ' '.join(code[m.end():j].split()), code[j+1:k-1]))
            i = k
        else:
            i += 1
    return out


TOKEN = re.compile(r"\s*(?:(?P<chr>" + CHAR_LIT.pattern + r")|(?P<id>[A-Za-z_]\w*)|(?P<num>\d\w*)|(?P<op>\|\||&&|==|!=|<=|>=|->|=>|::|\.\.|[-!().,;:{}\[\]<>=+*/%&|^?#@$~\"'\\]))")


def tokenize(s):
    toks, i = [], 0
    s = s.rstrip()
    while i < len(s):
        m = TOKEN.match(s, i)
        if not m or m.end() == i:
            raise Unknown('cannot tokenize %r' % s[i:i+20])
        kind = m.lastgroup
        toks.append((kind, m.group(kind)))
        i = m.end()
    return toks


def char_value(lit):
    b = lit[1:-1]
    if not b.startswith('\\'):
        if len(b) != 1:
            raise Unknown('char literal %s' % lit)
        v = ord(b)
    elif b[1] == 'x':
        v = int(b[2:], 16)
    elif b[1] == 'u':
        v = int(b[3:-1].replace('_', ''), 16)
    else:
        v = {'n': 10, 'r': 13, 't': 9, '\\': 92, '0': 0, "'": 39, '"': 34}[b[1]]
    if v > 0x10FFFF or 0xD800 <= v <= 0xDFFF:
        raise Unknown('char literal %s is not a scalar value' % lit)
    return v


def ranges(rs):
    parts = ['(%d ≤ c.toNat && c.toNat ≤ %d)' % r for r in rs]
    e = parts[0]
    for p in parts[1:]:
        e = '(%s || %s)' % (e, p)
    return e


class ExprParser:
    """Rust boolean expression over one `char` variable -> (Lean text, set of called functions).
    Precedence as in Rust: method call / call > `!` > `==` > `&&` > `||`. Typed: 'char' or 'bool'."""

    def __init__(self, toks, var, callables):
        self.t, self.i, self.var, self.callables = toks, 0, var, callables
        self.calls = set()

    def peek(self):
        return self.t[self.i] if self.i < len(self.t) else (None, None)

    def eat(self, val=None):
        k, v = self.peek()
        if k is None or (val is not None and v != val):
            raise Unknown('expected %s, found %s' % (val or 'a token', v if k else 'end of expression'))
        self.i += 1
        return k, v

    def parse(self, and_level=False):
        # and_level: the expression is the left operand of a `&&`, so a top-level `||` may not occur in it
        # (`a || b && rest` is `a || (b && rest)`): parsing stops before it and the leftover is refused
        ty, e = self.p_and() if and_level else self.p_or()
        if self.i != len(self.t):
            raise Unknown('unexpected token `%s`' % self.peek()[1])
        if ty != 'bool':
            raise Unknown('the expression is not a bool')
        return e

    def binop(self, sub, op):
        ty, e = sub()
        while self.peek()[1] == op:
            self.eat()
            ty2, e2 = sub()
            if ty != 'bool' or ty2 != 'bool':
                raise Unknown('`%s` on something that is not a bool' % op)
            e = '(%s %s %s)' % (e, op, e2)
        return ty, e

    def p_or(self):
        return self.binop(self.p_and, '||')

    def p_and(self):
        return self.binop(self.p_cmp, '&&')

    def p_cmp(self):
        ty, e = self.p_unary()
        if self.peek()[1] == '==':
            self.eat()
            ty2, e2 = self.p_unary()
            if ty == 'char' and ty2 == 'lit':
                return 'bool', '(c.toNat == %d)' % e2
            if ty == 'lit' and ty2 == 'char':
                return 'bool', '(c.toNat == %d)' % e
            raise Unknown('`==` other than between the character and a char literal')
        return ty, e

    def p_unary(self):
        if self.peek()[1] == '!':
            self.eat()
            ty, e = self.p_unary()
            if ty != 'bool':
                raise Unknown('`!` on something that is not a bool')
            return 'bool', '(!%s)' % e
        return self.p_postfix()

    def p_postfix(self):
        ty, e = self.p_primary()
        while self.peek()[1] == '.':
            self.eat()
            k, name = self.eat()
            self.eat('('); self.eat(')')
            if ty != 'char' or k != 'id' or name not in METHODS:
                raise Unknown('method `.%s()` is not one of the recognised ASCII tests' % name)
            ty, e = 'bool', ranges(METHODS[name])
        return ty, e

    def p_primary(self):
        k, v = self.eat()
        if v == '(':
            ty, e = self.p_or()
            self.eat(')')
            return ty, e
        if k == 'chr':
            return 'lit', char_value(v)
        if k == 'id' and v == 'matches' and self.peek()[1] == '!':
            # matches!(c, 'a'..='z' | 'A'..='Z' | '_'): alternatives of char literals and inclusive char ranges
            self.eat('!'); self.eat('(')
            k2, a = self.eat()
            if a != self.var:
                raise Unknown('matches!(%s, ..): the scrutinee is not the character' % a)
            self.eat(',')
            rs = []
            while True:
                k3, lo = self.eat()
                if k3 != 'chr':
                    raise Unknown('matches!: pattern `%s` is not a char literal or an inclusive char range' % lo)
                lo_v = char_value(lo); hi_v = lo_v
                if self.peek()[1] == '..':
                    self.eat('..'); self.eat('=')
                    k4, hi = self.eat()
                    if k4 != 'chr':
                        raise Unknown('matches!: range end `%s` is not a char literal' % hi)
                    hi_v = char_value(hi)
                rs.append((lo_v, hi_v))
                if self.peek()[1] == '|':
                    self.eat('|'); continue
                break
            if self.peek()[1] == ',':
                self.eat(',')
            self.eat(')')
            return 'bool', ranges(rs)
        if k == 'id' and self.peek()[1] == '(':
            self.eat('(')
            k2, a = self.eat()
            self.eat(')')
            if a != self.var:
                raise Unknown('call `%s(%s)`: the argument is not the character' % (v, a))
            if v not in self.callables:
                raise Unknown('call of `%s`, which is not a translated predicate' % v)
            self.calls.add(v)
            return 'bool', '%s c' % self.callables[v]
        if k == 'id' and v == self.var:
            return 'char', 'c'
        raise Unknown('unexpected token `%s`' % v)


def translate_expr(text, var, callables, and_level=False):
    p = ExprParser(tokenize(text), var, callables)
    e = p.parse(and_level)
    return e, p.calls


def comment(s):
    return ' '.join(s.split()).replace('-/', '- /').replace('/-', '/ -')


def lean_name(n):
    return n + '_' if n in RESERVED else n


PRED_HEADER = re.compile(r'^\(\s*([A-Za-z_]\w*)\s*:\s*char\s*\)\s*->\s*bool$')

IDENT = r'[A-Za-z_]\w*'
# `is_valid_ident`, on the space-joined token stream
SHAPE_HEADER = re.compile(
    r'^< (?P<F>%s) : (?:FnMut|Fn) \( char \) -> bool > \( (?P<inp>%s) : & str , (?:mut )?(?P<val>%s) : (?P=F) \) -> bool$' % (IDENT, IDENT, IDENT))
SHAPE_BODY = re.compile(
    r'^let mut (?P<it>%s) = (?P<inp>%s) \. chars \( \) ; '
    r'let (?P<z>%s) = (?P=it) \. next \( \) ; '
    r'(?P=z) \. and_then \( \| (?P<z2>%s) \| \{ '
    r'if (?P<cond>[^{}]*) \{ Some \( (?P=it) \. all \( \| (?P<c>%s) \| (?P<rest>[^{}]*) \) \) \} else \{ None \} '
    r'\} \) \. unwrap_or \( false \)$' % (IDENT, IDENT, IDENT, IDENT, IDENT))
# the same control shape written as a `match` on the first character with a guard:
#   let mut it = input.chars(); match it.next() { Some(z) if COND => { it.all(|c| REST) } _ => false , }
SHAPE_BODY_MATCH = re.compile(
    r'^let mut (?P<it>%s) = (?P<inp>%s) \. chars \( \) ; '
    r'match (?P=it) \. next \( \) \{ '
    r'Some \( (?P<z2>%s) \) if (?P<cond>[^{}]*?) => (?:\{ )?(?P=it) \. all \( \| (?P<c>%s) \| (?P<rest>[^{}]*?) \)(?: \})? ,? ?'
    r'_ => false ,? ?\}$' % (IDENT, IDENT, IDENT, IDENT))
# the scan over BYTES, each turned into a char (`char::from(u8)` = the scalar value U+0000..U+00FF):
#   let mut it = input.bytes().map(char::from); let Some(z) = it.next() else { return false; };
#   COND && it.all(|c| REST)
# COND must be an `&&`-level expression in `z` (checked by the expression parser: a top-level `||` in it
# would bind looser than the `&&` before `it.all`), REST is the whole closure body.
SHAPE_BODY_BYTES = re.compile(
    r'^let mut (?P<it>%s) = (?P<inp>%s) \. bytes \( \) \. map \( char :: from \) ; '
    r'let Some \( (?P<z2>%s) \) = (?P=it) \. next \( \) else \{ return false ;? ?\} ; '
    r'(?P<cond>[^{}]*?) && (?P=it) \. all \( \| (?P<c>%s) \| (?P<rest>[^{}]*) \)$' % (IDENT, IDENT, IDENT, IDENT))
CALLER_HEADER = re.compile(r'^\( (?P<n>%s) : & str \) -> bool$' % IDENT)
CALLER_BODY = re.compile(r'^(?P<f>%s) \( (?P<n>%s) , (?P<p>%s) \)$' % (IDENT, IDENT, IDENT))


def join(toks):
    return ' '.join(v for _, v in toks)


def pretty(s):
    """token stream back to readable source (for comments only)"""
    return comment(s).replace(' ( ', '(').replace('( ', '(').replace(' )', ')').replace(' . ', '.').replace(' ,', ',').replace('! ', '!')


def main(repo, out):
    path = os.path.join(repo, 'src/desc.rs')
    problems = []
    L = ['/- GENERATED by translate/charsets.py from /repo/src/desc.rs — do not edit. -/',
         'namespace Prom.Gen', '']
    try:
        code, mask = scan(open(path, encoding='utf-8').read())
        fns = top_level_fns(code, mask)
    except (OSError, UnicodeDecodeError, Unknown) as e:
        problems.append('src/desc.rs cannot be read: %s' % e)
        fns = []
    count = {}
    for name, _, _ in fns:
        count[name] = count.get(name, 0) + 1

    # --- the char predicates --------------------------------------------------------------
    preds = {}      # rust name -> (var, body)
    order = []
    for name, header, body in fns:
        m = PRED_HEADER.match(header)
        if m and name not in preds:
            preds[name] = (m.group(1), body)
            order.append(name)
    names = {n: lean_name(n) for n in order}
    if len(set(names.values())) != len(names):
        problems.append('two predicates would get the same Lean name')
    translated = {}  # name -> (lean expr or None, calls, reason)
    for n in order:
        var, body = preds[n]
        try:
            if count[n] != 1:
                raise Unknown('`%s` is defined %d times' % (n, count[n]))
            e, calls = translate_expr(body, var, names)
            translated[n] = (e, calls, None)
        except Unknown as ex:
            translated[n] = (None, set(), str(ex))
    # emit in dependency order; a cycle is not a definition Lean accepts as is -> unknown
    done, emitted = set(), []

    def visit(n, stack):
        if n in done:
            return
        if n in stack:
            for x in stack[stack.index(n):]:
                if translated[x][0] is not None:
                    translated[x] = (None, set(), 'recursive definition')
            return
        for d in sorted(translated[n][1]):
            visit(d, stack + [n])
        if n not in done:
            done.add(n)
            emitted.append(n)
    for n in order:
        visit(n, [])
    for n in emitted:
        e, _, why = translated[n]
        src = 'fn %s(%s: char) -> bool { %s }' % (n, preds[n][0], comment(preds[n][1]))
        if e is None:
            problems.append('%s: %s' % (n, why))
            L += ['/-- UNKNOWN (%s): `%s` -/' % (comment(why), src),
                  'def %s : Char → Bool := fun _ => false' % names[n], '']
        else:
            L += ['/-- `%s` -/' % src,
                  'def %s (c : Char) : Bool := %s' % (names[n], e), '']

    # --- the shape of is_valid_ident ------------------------------------------------------
    shape_ok = False
    first_e = rest_e = None
    ident_fn = 'is_valid_ident'
    try:
        cands = [f for f in fns if f[0] == ident_fn]
        if len(cands) != 1:
            raise Unknown('`%s` is defined %d times' % (ident_fn, len(cands)))
        _, header, body = cands[0]
        mh = SHAPE_HEADER.match(join(tokenize(header)))
        if not mh:
            raise Unknown('signature of `%s` not recognised' % ident_fn)
        body_toks = join(tokenize(body))
        mb = SHAPE_BODY.match(body_toks)
        zname = None
        scans_bytes = False
        if mb:
            zname = mb.group('z')
        else:
            mb = SHAPE_BODY_MATCH.match(body_toks)
            zname = '<match scrutinee>'
        if not mb:
            mb = SHAPE_BODY_BYTES.match(body_toks)
            zname = '<let-else scrutinee>'
            scans_bytes = bool(mb)
        if not mb:
            raise Unknown('body of `%s` does not have the recognised shape' % ident_fn)
        if mb.group('inp') != mh.group('inp'):
            raise Unknown('`%s` does not iterate over its input' % ident_fn)
        val = mh.group('val')
        if len({val, mb.group('it'), zname, mh.group('inp')}) != 4 or \
                val in (mb.group('z2'), mb.group('c')) or mb.group('it') in (mb.group('z2'), mb.group('c')):
            raise Unknown('`%s`: a binder shadows the validator or the iterator' % ident_fn)
        if val in preds:
            raise Unknown('`%s`: the parameter has the name of a function' % ident_fn)
        first_e, calls1 = translate_expr(mb.group('cond'), mb.group('z2'), {val: 'charset_validator'},
                                         and_level=scans_bytes)
        rest_e, calls2 = translate_expr(mb.group('rest'), mb.group('c'), {val: 'charset_validator'})
        shape_ok = True
        if scans_bytes:
            L += ['/-- what `is_valid_ident` scans: `%s.bytes().map(char::from)` - the BYTES of the UTF-8 encoding of the'
                  % mh.group('inp'),
                  '    input, each turned into the character U+0000..U+00FF of that value; `genIdentOk` below runs on that list -/',
                  'def identScansBytes : Bool := true', '']
        else:
            L += ['/-- what `is_valid_ident` scans: `%s.chars()` - the characters (Unicode scalar values) of the input;'
                  % mh.group('inp'),
                  '    `genIdentOk` below runs on that list -/',
                  'def identScansBytes : Bool := false', '']
        L += ['/-- first character of `is_valid_ident`: the condition `%s` (in `%s`), with the validator as a parameter -/'
              % (pretty(mb.group('cond')), mb.group('z2')),
              'def genFirstBody (charset_validator : Char → Bool) (c : Char) : Bool := %s' % first_e, '',
              '/-- every later character of `is_valid_ident`: the closure `|%s| %s` given to `%s.all`, with the validator as a parameter -/'
              % (mb.group('c'), pretty(mb.group('rest')), mb.group('it')),
              'def genRestBody (charset_validator : Char → Bool) (c : Char) : Bool := %s' % rest_e, '']
        if scans_bytes:
            L += ['/-- control shape of `is_valid_ident`: `%s.next()` is `None` (empty input) → the `else { return false }` of the'
                  % mb.group('it'),
                  '    `let Some(..)`; otherwise the first element must pass `first`, `&&`, the iterator\'s `%s.all` runs the closure over the remaining ones -/'
                  % mb.group('it')]
        else:
            L += ['/-- control shape of `is_valid_ident`: `%s.next()` is `None` (empty input) → `false`;' % mb.group('it'),
                  '    otherwise the first character must pass `first` and `%s.all` runs `rest` over the remaining ones -/'
                  % mb.group('it')]
        L += ['def genIdentOk (first rest : Char → Bool) : List Char → Bool',
              '  | [] => false',
              '  | c :: r => first c && r.all rest', '']
    except Unknown as ex:
        problems.append(str(ex))
        L += ['/-- UNKNOWN (%s) -/' % comment(str(ex)),
              'def identScansBytes : Bool := false', '',
              '/-- UNKNOWN (%s) -/' % comment(str(ex)),
              'def genFirstBody (_charset_validator : Char → Bool) : Char → Bool := fun _ => false', '',
              '/-- UNKNOWN (%s) -/' % comment(str(ex)),
              'def genRestBody (_charset_validator : Char → Bool) : Char → Bool := fun _ => false', '',
              '/-- UNKNOWN (%s) -/' % comment(str(ex)),
              'def genIdentOk (_first _rest : Char → Bool) : List Char → Bool := fun _ => false', '']

    # --- which charset each public validator uses -----------------------------------------
    for rust, lean, what in (('is_valid_metric_name', 'Metric', 'metric names'),
                             ('is_valid_label_name', 'Label', 'label names')):
        try:
            cands = [f for f in fns if f[0] == rust]
            if len(cands) != 1:
                raise Unknown('`%s` is defined %d times' % (rust, len(cands)))
            _, header, body = cands[0]
            mh = CALLER_HEADER.match(join(tokenize(header)))
            mb = CALLER_BODY.match(join(tokenize(body)))
            if not mh or not mb or mb.group('f') != ident_fn or mb.group('n') != mh.group('n'):
                raise Unknown('`%s` is not `%s(name, PREDICATE)`' % (rust, ident_fn))
            p = mb.group('p')
            if p not in preds or p == mh.group('n'):
                raise Unknown('`%s` passes `%s`, which is not a translated predicate' % (rust, p))
            L += ['/-- %s: `%s(name) = %s(name, %s)` -/' % (what, rust, ident_fn, p),
                  'def gen%sFirstOk : Char → Bool := genFirstBody %s' % (lean, names[p]),
                  '/-- %s, every character after the first -/' % what,
                  'def gen%sRestOk : Char → Bool := genRestBody %s' % (lean, names[p]), '']
        except Unknown as ex:
            problems.append(str(ex))
            L += ['/-- UNKNOWN (%s) -/' % comment(str(ex)),
                  'def gen%sFirstOk : Char → Bool := fun _ => false' % lean,
                  '/-- UNKNOWN (%s) -/' % comment(str(ex)),
                  'def gen%sRestOk : Char → Bool := fun _ => false' % lean, '']

    L += ['/-- did the translator recognise everything? (every `fn _(c: char) -> bool`, the shape of',
          '    `is_valid_ident`, the predicate each of `is_valid_metric_name` / `is_valid_label_name` passes) -/',
          'def charsetsKnown : Bool := %s' % ('false' if problems else 'true'), '',
          '/-- what was not recognised -/',
          'def charsetsUnknown : List String := [%s]'
          % ', '.join('"' + p.replace('\\', '\\\\').replace('"', '\\"').replace('\n', ' ') + '"' for p in problems),
          '', 'end Prom.Gen', '']
    txt = '\n'.join(L)
    if not os.path.exists(out) or open(out, encoding='utf-8').read() != txt:
        open(out, 'w', encoding='utf-8').write(txt)
    for p in problems:
        sys.stderr.write('translate/charsets.py: UNKNOWN: %s\n' % p)


if __name__ == '__main__':
    main(sys.argv[1], sys.argv[2])
