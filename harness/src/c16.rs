//! C16 scenario interpreter, compiled into BOTH harness crates: `pv-harness` (default features,
//! protobuf-backed data model) and `pv-plain` (`default-features = false`, plain data model).
//! Uses only the API common to both builds.
use crate::util::*;
use prometheus::core::Collector;
use prometheus::proto::{MetricFamily, MetricType};
use prometheus::*;
use std::collections::HashMap;

#[cfg(not(feature = "plain"))]
mod compat {
    use prometheus::proto::Metric;
    pub fn cval(m: &Metric) -> f64 { m.get_counter().value() }
    pub fn gval(m: &Metric) -> f64 { m.get_gauge().value() }
}
#[cfg(feature = "plain")]
mod compat {
    use prometheus::proto::Metric;
    pub fn cval(m: &Metric) -> f64 { m.get_counter().get_value() }
    pub fn gval(m: &Metric) -> f64 { m.get_gauge().get_value() }
}

pub fn pairs_str(p: &[(String, String)]) -> String { if p.is_empty() { "-".into() } else { p.iter().map(|(k, v)| format!("{}:{}", hex_list(&[k]), hex_list(&[v]))).collect::<Vec<_>>().join(",") } }
pub fn parse_pairs(s: &str) -> Vec<(String, String)> { if s == "-" { vec![] } else { s.split(',').map(|p| { let kv: Vec<&str> = p.split(':').collect(); (unhex_list(kv[0])[0].clone(), unhex_list(kv[1])[0].clone()) }).collect() } }

pub fn show_sample_val(ty: MetricType, m: &proto::Metric) -> String {
    match ty {
        MetricType::COUNTER => format!("c:{}", f64_show(compat::cval(m))),
        MetricType::GAUGE => format!("g:{}", f64_show(compat::gval(m))),
        MetricType::HISTOGRAM => { let h = m.get_histogram(); format!("h:{}/{}/{}", h.get_sample_count(), f64_show(h.get_sample_sum()), if h.get_bucket().is_empty() { "-".to_string() } else { h.get_bucket().iter().map(|b| format!("{}~{}", f64_show(b.upper_bound()), b.cumulative_count())).collect::<Vec<_>>().join(",") }) }
        _ => "?".into(),
    }
}
pub fn show_family(f: &MetricFamily) -> String {
    let ty = f.get_field_type();
    let samples: Vec<String> = f.get_metric().iter().map(|m| format!("{}={}@{}", pairs_str(&m.get_label().iter().map(|p| (p.name().to_string(), p.value().to_string())).collect::<Vec<_>>()), show_sample_val(ty, m), m.timestamp_ms())).collect();
    format!("{}^{}^{}^{}", hex_list(&[f.name()]), hex_list(&[f.help()]), format!("{:?}", ty).to_lowercase(), if samples.is_empty() { "-".to_string() } else { samples.join(";") })
}
pub fn show_gather(fams: &[MetricFamily]) -> String { if fams.is_empty() { "-".into() } else { fams.iter().map(show_family).collect::<Vec<_>>().join(" | ") } }

/// every f64 the text encoder formats for these families, with this build's own text
pub fn fmt_table(fams: &[MetricFamily]) -> String {
    let mut t: std::collections::BTreeMap<u64, String> = Default::default();
    let mut add = |x: f64| { t.insert(x.to_bits(), x.to_string()); };
    add(0.0);
    for f in fams { for m in f.get_metric() { match f.get_field_type() {
        MetricType::COUNTER => add(compat::cval(m)), MetricType::GAUGE => add(compat::gval(m)),
        MetricType::HISTOGRAM => { let h = m.get_histogram(); add(h.get_sample_count() as f64); add(h.get_sample_sum()); for b in h.get_bucket() { add(b.upper_bound()); add(b.cumulative_count() as f64); } }
        _ => {} } } }
    t.iter().map(|(b, s)| format!("{:016x}:{}", b, hex_list(&[s]))).collect::<Vec<_>>().join(",")
}

/// a user-written collector: fixed descriptors and hand-adjusted families (here: timestamps set on collected counter samples)
#[derive(Clone)]
struct Custom { descs: Vec<core::Desc>, fams: Vec<MetricFamily> }
impl Collector for Custom {
    fn desc(&self) -> Vec<&core::Desc> { self.descs.iter().collect() }
    fn collect(&self) -> Vec<MetricFamily> { self.fams.clone() }
}
enum Coll { C(Counter), IC(IntCounter), G(Gauge), IG(IntGauge), H(Histogram), P(PullingGauge), CV(CounterVec), GV(GaugeVec), HV(HistogramVec), X(Custom) }
impl Coll {
    fn boxed(&self) -> Box<dyn Collector> { match self { Coll::C(x) => Box::new(x.clone()), Coll::IC(x) => Box::new(x.clone()), Coll::G(x) => Box::new(x.clone()), Coll::IG(x) => Box::new(x.clone()), Coll::H(x) => Box::new(x.clone()), Coll::P(x) => Box::new(x.clone()), Coll::CV(x) => Box::new(x.clone()), Coll::GV(x) => Box::new(x.clone()), Coll::HV(x) => Box::new(x.clone()), Coll::X(x) => Box::new(x.clone()) } }
}
fn opts_of(name: &str, help: &str, consts: &[(String, String)]) -> Opts { let mut o = Opts::new(name, help); for (k, v) in consts { o = o.const_label(k.clone(), v.clone()); } o }

fn build(parts: &[&str]) -> Option<Coll> {
    let kind = field(parts, "kind")?;
    let name = unhex_list(field(parts, "name")?)[0].clone(); let help = unhex_list(field(parts, "help")?)[0].clone();
    let consts = parse_pairs(field(parts, "consts")?); let vars = unhex_list(field(parts, "vars")?);
    let val = field(parts, "val").map(f64_parse).unwrap_or(0.0);
    let o = opts_of(&name, &help, &consts).variable_labels(vars.clone());
    let vnames: Vec<&str> = vars.iter().map(|s| s.as_str()).collect();
    let tuples = || -> Vec<Vec<String>> { let ch = field(parts, "children").unwrap_or("none"); if ch == "none" { vec![] } else { ch.split(';').map(unhex_list).collect() } };
    Some(match kind {
        "counter" => { let c = Counter::with_opts(o).ok()?; c.inc_by(val); Coll::C(c) }
        "intcounter" => { let c = IntCounter::with_opts(o).ok()?; c.inc_by(val as u64); Coll::IC(c) }
        "gauge" => { let c = Gauge::with_opts(o).ok()?; c.set(val); Coll::G(c) }
        "intgauge" => { let c = IntGauge::with_opts(o).ok()?; c.set(val as i64); Coll::IG(c) }
        "histogram" => { let h = Histogram::with_opts(HistogramOpts::from(o).buckets(vec![0.5, 2.0])).ok()?; for v in f64_parse_list(field(parts, "obs").unwrap_or("-")) { h.observe(v); } Coll::H(h) }
        "pulling" => { let v = val; Coll::P(PullingGauge::new(name.clone(), help.clone(), Box::new(move || v)).ok()?) }
        "countervec" => { let v = CounterVec::new(opts_of(&name, &help, &consts), &vnames).ok()?; for (i, t) in tuples().iter().enumerate() { let tv: Vec<&str> = t.iter().map(|s| s.as_str()).collect(); v.get_metric_with_label_values(&tv).ok()?.inc_by((i + 1) as f64); } Coll::CV(v) }
        "gaugevec" => { let v = GaugeVec::new(opts_of(&name, &help, &consts), &vnames).ok()?; for (i, t) in tuples().iter().enumerate() { let tv: Vec<&str> = t.iter().map(|s| s.as_str()).collect(); v.get_metric_with_label_values(&tv).ok()?.set((i + 1) as f64); } Coll::GV(v) }
        "histogramvec" => { let v = HistogramVec::new(HistogramOpts::from(opts_of(&name, &help, &consts)).buckets(vec![0.5, 2.0]), &vnames).ok()?; for (i, t) in tuples().iter().enumerate() { let tv: Vec<&str> = t.iter().map(|s| s.as_str()).collect(); let h = v.get_metric_with_label_values(&tv).ok()?; for _ in 0..=i { h.observe(1.0); } } Coll::HV(v) }
        // sub=<name>/<help>/<pairs>/<val>/<ts|none> repeated: one counter sample per sub-metric, its timestamp set when given (also to 0)
        "custom" => {
            let mut descs = vec![]; let mut fams = vec![];
            for p in parts { if let Some(s) = p.strip_prefix("sub=") {
                let f: Vec<&str> = s.split('/').collect();
                let (n, h, ps, v) = (unhex_list(f[0])[0].clone(), unhex_list(f[1])[0].clone(), parse_pairs(f[2]), f64_parse(f[3]));
                let c = Counter::with_opts(opts_of(&n, &h, &ps)).ok()?; c.inc_by(v);
                descs.push(c.desc()[0].clone());
                let mut fam = c.collect().remove(0);
                if let Some(ts) = f.get(4).and_then(|t| t.parse::<i64>().ok()) { let mut ms: Vec<proto::Metric> = fam.get_metric().to_vec(); ms[0].set_timestamp_ms(ts); fam.set_metric(ms.into()); }
                fams.push(fam);
            } }
            if parts.contains(&"nodesc=1") { descs.clear(); }
            Coll::X(Custom { descs, fams })
        }
        _ => return None,
    })
}

/// run one case; returns (output line, model request line) per request
pub fn run_case(lines: &[String]) -> Vec<(String, String)> {
    let mut res = vec![];
    let mut reg: Option<Registry> = None; let mut defs: HashMap<String, Coll> = HashMap::new();
    for line in lines {
        let parts: Vec<&str> = line.split(' ').collect();
        let model_line = line.replacen("c16 ", "reg ", 1);
        match parts[1] {
            "new" => { let p = field(&parts, "prefix").unwrap(); let l = field(&parts, "labels").unwrap();
                let prefix = if p == "none" { None } else { Some(unhex_list(p)[0].clone()) };
                let hm: Option<HashMap<String, String>> = if l == "none" { None } else { Some(parse_pairs(l).into_iter().collect()) };
                defs.clear();
                match Registry::new_custom(prefix, hm) { Ok(r) => { reg = Some(r); res.push(("ok".into(), model_line)) } Err(e) => { reg = None; res.push((err_kind(&e), model_line)) } } }
            "def" => { match build(&parts[3..]) { Some(d) => { defs.insert(parts[2].to_string(), d); res.push(("ok".into(), model_line)) } None => { defs.remove(parts[2]); res.push(("err".into(), model_line)) } } }
            "register" | "unregister" => { match (&reg, defs.get(parts[2])) { (Some(r), Some(d)) => { let out = if parts[1] == "register" { r.register(d.boxed()) } else { r.unregister(d.boxed()) }; res.push((match out { Ok(()) => "ok".to_string(), Err(e) => err_kind(&e) }, model_line)) } _ => res.push(("no-coll".into(), model_line)) } }
            "gather" => { match &reg { None => res.push(("no-reg".into(), "reg gathertext fmt=-".into())), Some(r) => {
                let fams = r.gather();
                let txt = TextEncoder::new().encode_to_string(&fams);
                res.push((format!("{} text={}", show_gather(&fams), match &txt { Ok(t) => hex_bytes(t.as_bytes()), Err(_) => "err".to_string() }), format!("reg gathertext fmt={}", fmt_table(&fams)))) } } }
            // a family built by hand, as a custom collector may do, leaving some fields unset: every read goes through the
            // data model's defaults (proto2 default-on-read in the protobuf build, `Default` values in the plain build)
            "raw" => {
                let opt = |k: &str| -> Option<String> { let v = field(&parts, k).unwrap_or("none"); if v == "none" { None } else { Some(unhex_list(v)[0].clone()) } };
                let optf = |k: &str| -> Option<f64> { let v = field(&parts, k).unwrap_or("none"); if v == "none" { None } else { Some(f64_parse(v)) } };
                let mut f = MetricFamily::default();
                if let Some(n) = opt("name") { f.set_name(n); }
                if let Some(h) = opt("help") { f.set_help(h); }
                match field(&parts, "type").unwrap_or("none") { "counter" => f.set_field_type(MetricType::COUNTER), "gauge" => f.set_field_type(MetricType::GAUGE), _ => {} }
                let mut m = proto::Metric::default();
                if field(&parts, "label").unwrap_or("no") == "yes" { let mut lp = proto::LabelPair::default(); if let Some(n) = opt("lname") { lp.set_name(n); } if let Some(v) = opt("lval") { lp.set_value(v); } m.set_label(vec![lp].into()); }
                if let Some(v) = optf("cv") { let mut c = proto::Counter::default(); c.set_value(v); m.set_counter(c); }
                if let Some(v) = optf("gv") { let mut g = proto::Gauge::default(); g.set_value(v); m.set_gauge(g); }
                if let Some(t) = field(&parts, "ts").and_then(|t| t.parse::<i64>().ok()) { m.set_timestamp_ms(t); }
                f.set_metric(vec![m].into());
                let fams = vec![f];
                let txt = TextEncoder::new().encode_to_string(&fams);
                res.push((format!("{} text={}", show_gather(&fams), match &txt { Ok(t) => hex_bytes(t.as_bytes()), Err(_) => "err".to_string() }), format!("{} fmt={}", model_line, fmt_table(&fams)))) }
            _ => res.push(("bad-op".into(), model_line)),
        }
    }
    res
}
