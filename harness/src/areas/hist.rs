//! area `hist` (C08): bucket validation and `value <= bound` bucketing through
//! Histogram, HistogramVec children and LocalHistogram, plus the bucket helpers.
use crate::rng::Rng;
use crate::util::*;
use crate::{Area, ExecOut, Failure};
use prometheus::core::Collector;
use prometheus::*;

pub struct HistArea;

fn next_up(v: f64) -> f64 {
    if v.is_nan() || v == f64::INFINITY { return v; }
    if v == 0.0 { return f64::from_bits(1); }
    let b = v.to_bits();
    f64::from_bits(if v > 0.0 { b + 1 } else { b - 1 })
}
fn next_down(v: f64) -> f64 { -next_up(-v) }

pub fn pool() -> Vec<f64> {
    vec![f64::NEG_INFINITY, -f64::MAX, -2.0, -1.0, -f64::MIN_POSITIVE, -5e-324, -0.0, 0.0, 5e-324, f64::MIN_POSITIVE,
         0.005, 0.01, 0.1, 0.5, 1.0, next_up(1.0), 2.0, 2.5, 10.0, 9007199254740993.0, 1e300, f64::MAX, f64::INFINITY,
         f64::NAN, f64::from_bits(0x7ff0000000000001), f64::from_bits(0xfff8000000000000)]
}

pub fn snapshot(h: &Histogram) -> (u64, f64, Vec<u64>, Vec<f64>) {
    let mf = h.collect();
    let m = &mf[0].get_metric()[0];
    let p = m.get_histogram();
    (p.get_sample_count(), p.get_sample_sum(), p.get_bucket().iter().map(|b| b.cumulative_count()).collect(), p.get_bucket().iter().map(|b| b.upper_bound()).collect())
}

fn gen_bounds(rng: &mut Rng, stats: &mut Stats) -> Vec<f64> {
    let p = pool();
    let style = rng.below(100);
    let mut numbers: Vec<f64> = p.iter().cloned().filter(|v| !v.is_nan()).collect();
    numbers.sort_by(|a, b| a.partial_cmp(b).unwrap());
    numbers.dedup_by(|a, b| a == b);
    let pick_sorted = |rng: &mut Rng, k: usize| -> Vec<f64> {
        let mut idx: Vec<usize> = (0..numbers.len()).collect();
        rng.shuffle(&mut idx);
        let mut idx: Vec<usize> = idx.into_iter().take(k).collect();
        idx.sort();
        idx.into_iter().map(|i| numbers[i]).collect()
    };
    if style < 5 { stats.hit("bounds:empty"); vec![] }
    else if style < 50 { stats.hit("bounds:sorted"); let k = rng.range(1, 5); pick_sorted(rng, k).into_iter().filter(|v| *v != f64::INFINITY).collect() }
    else if style < 65 { stats.hit("bounds:sorted+inf"); let k = rng.range(0, 4); let mut b: Vec<f64> = pick_sorted(rng, k).into_iter().filter(|v| *v != f64::INFINITY).collect(); b.push(f64::INFINITY); b }
    else if style < 75 { stats.hit("bounds:unordered"); let k = rng.range(2, 5); let mut b = pick_sorted(rng, k); rng.shuffle(&mut b); b }
    else if style < 85 { stats.hit("bounds:duplicate"); let k = rng.range(1, 4); let mut b = pick_sorted(rng, k); let i = rng.below(b.len()); let d = if b[i] == 0.0 && rng.chance(50) { -b[i] } else { b[i] }; b.insert(i + 1, d); b }
    else if style < 95 { stats.hit("bounds:nan"); let k = rng.range(0, 4); let mut b = pick_sorted(rng, k); let i = rng.below(b.len() + 1); b.insert(i, *rng.pick(&[f64::NAN, f64::from_bits(0x7ff0000000000001), f64::from_bits(0xfff8000000000000)])); b }
    else { stats.hit("bounds:neighbours"); let c = *rng.pick(&numbers); let mut b = vec![next_down(c), c, next_up(c)]; b.dedup_by(|a, b| a.to_bits() == b.to_bits()); b }
}

impl Area for HistArea {
    fn corpus(&self) -> Vec<Vec<String>> {
        let l = |s: &str| vec![s.to_string()];
        vec![
            // F2 witnesses (fixed): NaN bounds must be refused
            l(&format!("hist run {} {} via=direct", f64_list(&[1.0, f64::NAN, 0.5]), f64_list(&[0.7]))),
            l(&format!("hist run {} {} via=direct", f64_list(&[f64::NAN]), f64_list(&[0.7]))),
            l(&format!("hist run {} {} via=vec", f64_list(&[-0.0, 0.0]), "-")),
            l(&format!("hist run {} {} via=local", f64_list(&[f64::NEG_INFINITY, -0.0, 1.0, f64::INFINITY]), f64_list(&[f64::NEG_INFINITY, 0.0, -0.0, 1.0, next_up(1.0), f64::NAN, f64::INFINITY]))),
            l(&format!("hist run - {} via=direct", f64_list(&[0.005, 0.0050000000000000001, 10.0, 10.000000000000002]))),
        ]
    }

    fn gen(&self, rng: &mut Rng, thorough: bool, stats: &mut Stats) -> Vec<String> {
        let k = rng.below(100);
        if k < 80 {
            let bounds = gen_bounds(rng, stats);
            let mut cand = pool();
            for b in &bounds { if !b.is_nan() { cand.push(next_up(*b)); cand.push(next_down(*b)); cand.push(*b); cand.push(*b); } }
            let n = rng.range(0, if thorough { 40 } else { 12 });
            let obs: Vec<f64> = (0..n).map(|_| *rng.pick(&cand)).collect();
            let via = *rng.pick(&["direct", "vec", "local", "local2"]);   // local2: one local histogram used for two batches (observe, flush, observe, flush)
            vec![format!("hist run {} {} via={}", f64_list(&bounds), f64_list(&obs), via)]
        } else if k < 90 {
            let p = pool();
            stats.hit("helper:linear");
            vec![format!("hist lin {} {} {}", f64_hex(*rng.pick(&p)), f64_hex(*rng.pick(&p)), rng.below(6))]
        } else {
            let p = pool();
            stats.hit("helper:exponential");
            vec![format!("hist exp {} {} {}", f64_hex(*rng.pick(&p)), f64_hex(*rng.pick(&p)), rng.below(6))]
        }
    }

    fn exec(&self, lines: &[String], stats: &mut Stats) -> ExecOut {
        let mut outs = vec![]; let mut fails = vec![];
        for line in lines {
            let parts: Vec<&str> = line.split(' ').collect();
            match parts[1] {
                "run" => {
                    let bounds = f64_parse_list(parts[2]); let obs = f64_parse_list(parts[3]);
                    let via = field(&parts, "via").unwrap_or("direct");
                    let opts = HistogramOpts::new("h", "help").buckets(bounds.clone());
                    let made: std::result::Result<Histogram, Error> = match via {
                        "vec" => HistogramVec::new(opts, &["l"]).and_then(|v| v.get_metric_with_label_values(&["x"])),
                        _ => Histogram::with_opts(opts),
                    };
                    // ---- oracle (independent of the Lean model): the property as stated
                    let eff: Vec<f64> = if bounds.is_empty() { DEFAULT_BUCKETS.to_vec() } else { bounds.clone() };
                    let strictly = eff.iter().all(|b| !b.is_nan()) && eff.windows(2).all(|w| w[0] < w[1]);
                    let mut want_bounds = eff.clone();
                    if strictly && want_bounds.last() == Some(&f64::INFINITY) { want_bounds.pop(); }
                    match made {
                        Err(e) => {
                            stats.hit("run:rejected");
                            stats.seen(&[line.clone()], bounds.len() >= 2);
                            if strictly { fails.push(Failure { class: "reject-valid-buckets".into(), detail: format!("strictly increasing bounds refused: {}", line) }); }
                            outs.push(err_kind(&e));
                        }
                        Ok(h) => {
                            stats.hit("run:accepted"); stats.hit(&format!("via:{}", via));
                            if !strictly { fails.push(Failure { class: "accept-invalid-buckets".into(), detail: format!("bounds that are not strictly increasing numbers accepted: {}", line) }); }
                            if via == "local" {
                                let l = h.local();
                                for v in &obs { l.observe(*v); }
                                l.flush();
                            } else if via == "local2" {
                                let l = h.local(); let k = obs.len() / 2;
                                for v in &obs[..k] { l.observe(*v); }
                                l.flush();
                                for v in &obs[k..] { l.observe(*v); }
                                l.flush();
                            } else { for v in &obs { h.observe(*v); } }
                            let (count, sum, cum, ub) = snapshot(&h);
                            let on_bound = obs.iter().any(|v| want_bounds.iter().any(|b| v == b) || !v.is_finite());
                            stats.seen(&[line.clone()], on_bound && !obs.is_empty());
                            if on_bound { stats.hit("run:obs-on-bound-or-nonfinite"); }
                            if strictly {
                                if ub.len() != want_bounds.len() || ub.iter().zip(want_bounds.iter()).any(|(a, b)| a.to_bits() != b.to_bits()) {
                                    fails.push(Failure { class: "bounds-mismatch".into(), detail: format!("stored bounds {:?} != expected {:?}", ub, want_bounds) });
                                }
                                for (i, b) in want_bounds.iter().enumerate() {
                                    let want = obs.iter().filter(|v| **v <= *b).count() as u64;
                                    if cum.get(i) != Some(&want) { fails.push(Failure { class: "cumulative-mismatch".into(), detail: format!("bucket {} (le {}) reports {:?}, {} observations are <= bound; {}", i, b, cum.get(i), want, line) }); }
                                }
                                if count != obs.len() as u64 { fails.push(Failure { class: "count-mismatch".into(), detail: format!("sample_count {} != {} observations", count, obs.len()) }); }
                                let want_sum = if via == "local2" { let k = obs.len() / 2; obs[..k].iter().fold(0.0f64, |a, v| a + *v) + obs[k..].iter().fold(0.0f64, |a, v| a + *v) } else { obs.iter().fold(0.0f64, |a, v| a + *v) };
                                if !(sum.to_bits() == want_sum.to_bits() || (sum.is_nan() && want_sum.is_nan())) { fails.push(Failure { class: "sum-mismatch".into(), detail: format!("sample_sum {} != in-order sum {}", sum, want_sum) }); }
                                if h.get_sample_count() != count { fails.push(Failure { class: "get_sample_count-mismatch".into(), detail: format!("{} vs {}", h.get_sample_count(), count) }); }
                            }
                            outs.push(format!("ok count={} sum={} cum={}", count, f64_show(sum), nat_list(&cum)));
                        }
                    }
                }
                "lin" | "exp" => {
                    let a = f64_parse(parts[2]); let b = f64_parse(parts[3]); let c: usize = parts[4].parse().unwrap();
                    let r = if parts[1] == "lin" { linear_buckets(a, b, c) } else { exponential_buckets(a, b, c) };
                    stats.seen(&[line.clone()], c > 0);
                    match r {
                        Ok(v) => { stats.hit("helper:ok");
                            if v.len() != c { fails.push(Failure { class: "helper-length".into(), detail: line.clone() }); }
                            outs.push(format!("ok {}", f64_show_list(&v))) }
                        Err(e) => { stats.hit("helper:err"); outs.push(err_kind(&e)) }
                    }
                }
                _ => outs.push("bad-op".into()),
            }
        }
        ExecOut { outs, fails, model_lines: None }
    }
}
