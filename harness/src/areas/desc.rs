//! area `desc` (C09, C15): name validation and structural descriptor identity, through
//! `Desc::new` and every metric constructor.
use crate::rng::Rng;
use crate::util::*;
use crate::{Area, ExecOut, Failure};
use prometheus::core::{Collector, Desc};
use prometheus::*;
use std::collections::HashMap;

pub struct DescArea;

pub const KINDS: &[&str] = &["desc", "counter", "intcounter", "gauge", "intgauge", "histogram", "countervec", "intcountervec", "gaugevec", "intgaugevec", "histogramvec"];

const ADV: &[&str] = &["a", "Z", "_", ":", "0", "9", "-", " ", "é", "ß", "Ａ", "٣", "𝟗", "$", "\u{7f}", "le"];
const GOOD: &[&str] = &["a", "ab", "abc", "b", "bc", "c", "a_b", "ab_c", "a_bc", "x", "le", "l1", "l2", "_", "A9", "quantile", "job", "instance"];
const VALS: &[&str] = &["", "a", "ab", "abc", "b", "bc", "c", "\u{ff}", "é", "a\u{0}", "\u{10ffff}", "x y", "ÿ", "\u{7f}"];

pub fn adv_string(rng: &mut Rng, maxlen: usize) -> String {
    let n = rng.below(maxlen + 1);
    (0..n).map(|_| *rng.pick(ADV)).collect()
}
pub fn name_string(rng: &mut Rng, stats: &mut Stats) -> String {
    if rng.chance(93) { rng.pick(GOOD).to_string() } else { stats.hit("string:adversarial"); adv_string(rng, 4) }
}

#[derive(Clone)]
pub struct Req { pub kind: String, pub ns: String, pub sub: String, pub name: String, pub help: String, pub vars: Vec<String>, pub consts: Vec<(String, String)> }

impl Req {
    pub fn line(&self) -> String {
        format!("desc new kind={} ns={} name={} help={} vars={} consts={}", self.kind, hex_list(&[&self.ns, &self.sub]), hex_list(&[&self.name]), hex_list(&[&self.help]),
            hex_list(&self.vars), if self.consts.is_empty() { "-".to_string() } else { self.consts.iter().map(|(k, v)| format!("{}:{}", hex_list(&[k]), hex_list(&[v]))).collect::<Vec<_>>().join(",") })
    }
    pub fn parse(line: &str) -> Req {
        let parts: Vec<&str> = line.split(' ').collect();
        let ns = unhex_list(field(&parts, "ns").unwrap());
        let consts = field(&parts, "consts").unwrap();
        Req { kind: field(&parts, "kind").unwrap().to_string(), ns: ns[0].clone(), sub: ns[1].clone(), name: unhex_list(field(&parts, "name").unwrap())[0].clone(),
              help: unhex_list(field(&parts, "help").unwrap())[0].clone(), vars: unhex_list(field(&parts, "vars").unwrap()),
              consts: if consts == "-" { vec![] } else { consts.split(',').map(|p| { let kv: Vec<&str> = p.split(':').collect(); (unhex_list(kv[0])[0].clone(), unhex_list(kv[1])[0].clone()) }).collect() } }
    }
    pub fn fq(&self) -> String {
        if self.kind == "desc" { return self.name.clone(); }
        if self.name.is_empty() { return String::new(); }
        let mut parts = vec![];
        if !self.ns.is_empty() { parts.push(self.ns.as_str()); }
        if !self.sub.is_empty() { parts.push(self.sub.as_str()); }
        parts.push(self.name.as_str());
        parts.join("_")
    }
}

fn metric_name_ok(s: &str) -> bool {
    let b = s.as_bytes();
    !b.is_empty() && (b[0].is_ascii_alphabetic() || b[0] == b'_' || b[0] == b':') && b[1..].iter().all(|c| c.is_ascii_alphanumeric() || *c == b'_' || *c == b':')
}
fn label_name_ok(s: &str) -> bool {
    let b = s.as_bytes();
    !b.is_empty() && (b[0].is_ascii_alphabetic() || b[0] == b'_') && b[1..].iter().all(|c| c.is_ascii_alphanumeric() || *c == b'_')
}

/// the real constructor for this kind; returns the descriptor the metric reports
pub fn construct(r: &Req, reverse: bool) -> std::result::Result<Desc, Error> {
    let mut hm: HashMap<String, String> = HashMap::new();
    let mut cs = r.consts.clone();
    if reverse { cs.reverse(); }
    for (k, v) in &cs { hm.insert(k.clone(), v.clone()); }
    if r.kind == "desc" { return Desc::new(r.name.clone(), r.help.clone(), r.vars.clone(), hm); }
    let opts = Opts::new(r.name.clone(), r.help.clone()).namespace(r.ns.clone()).subsystem(r.sub.clone()).const_labels(hm);
    let vars: Vec<&str> = r.vars.iter().map(|s| s.as_str()).collect();
    fn d<C: Collector>(c: C) -> Desc { c.desc()[0].clone() }
    match r.kind.as_str() {
        "counter" => Counter::with_opts(opts.variable_labels(r.vars.clone())).map(d),
        "intcounter" => IntCounter::with_opts(opts.variable_labels(r.vars.clone())).map(d),
        "gauge" => Gauge::with_opts(opts.variable_labels(r.vars.clone())).map(d),
        "intgauge" => IntGauge::with_opts(opts.variable_labels(r.vars.clone())).map(d),
        "histogram" => Histogram::with_opts(HistogramOpts::from(opts.variable_labels(r.vars.clone()))).map(d),
        "countervec" => CounterVec::new(opts, &vars).map(d),
        "intcountervec" => IntCounterVec::new(opts, &vars).map(d),
        "gaugevec" => GaugeVec::new(opts, &vars).map(d),
        "intgaugevec" => IntGaugeVec::new(opts, &vars).map(d),
        "histogramvec" => HistogramVec::new(HistogramOpts::from(opts), &vars).map(d),
        _ => panic!("kind"),
    }
}

pub fn show_desc(d: &Desc) -> String {
    format!("ok fq={} id={:016x} dim={:016x} pairs={} vars={}", hex_list(&[&d.fq_name]), d.id, d.dim_hash,
        if d.const_label_pairs.is_empty() { "-".to_string() } else { d.const_label_pairs.iter().map(|p| format!("{}:{}", hex_list(&[p.name()]), hex_list(&[p.value()]))).collect::<Vec<_>>().join(",") },
        hex_list(&d.variable_labels))
}

fn gen_req(rng: &mut Rng, stats: &mut Stats) -> Req {
    let kind = if rng.chance(40) { "desc" } else { *rng.pick(KINDS) };
    let nconst = *rng.pick(&[0, 0, 1, 1, 2, 2, 3]);
    let nvar = if kind.ends_with("vec") || kind == "desc" { *rng.pick(&[0, 1, 1, 2, 2, 3]) } else { *rng.pick(&[0, 0, 0, 0, 0, 1]) };
    let mut consts: Vec<(String, String)> = vec![];
    for _ in 0..nconst { let k = name_string(rng, stats); if consts.iter().all(|(x, _)| *x != k) { consts.push((k, rng.pick(VALS).to_string())); } }
    let vars = (0..nvar).map(|_| name_string(rng, stats)).collect();
    Req { kind: kind.to_string(), ns: if rng.chance(25) { name_string(rng, stats) } else { String::new() }, sub: if rng.chance(25) { name_string(rng, stats) } else { String::new() },
          name: name_string(rng, stats), help: if rng.chance(3) { String::new() } else { rng.pick(&["h", "help", "help ", "h\u{ff}", "a"]).to_string() }, vars, consts }
}

fn mutate(r: &Req, rng: &mut Rng, stats: &mut Stats) -> Req {
    let mut m = r.clone();
    match rng.below(11) {
        9 => { stats.hit("mut:add-const"); // a strict superset of the constant labels: another identity, another dimension signature
            let k = GOOD.iter().find(|g| m.consts.iter().all(|(x, _)| x != *g) && m.vars.iter().all(|x| x != *g)); if let Some(k) = k { m.consts.push((k.to_string(), rng.pick(VALS).to_string())); } }
        10 => { stats.hit("mut:drop-const"); if !m.consts.is_empty() { let i = rng.below(m.consts.len()); m.consts.remove(i); } }
        0 => { stats.hit("mut:shuffle-consts"); rng.shuffle(&mut m.consts); }
        1 => { stats.hit("mut:shuffle-vars"); rng.shuffle(&mut m.vars); }
        2 => { stats.hit("mut:boundary-shift-name-value"); // move last char of name to the front of the first const value (in name order)
            if !m.consts.is_empty() && m.name.len() > 1 && m.name.is_ascii() { m.consts.sort(); let c = m.name.pop().unwrap(); m.consts[0].1.insert(0, c); } }
        3 => { stats.hit("mut:boundary-shift-values"); if m.consts.len() >= 2 { m.consts.sort(); if let Some(c) = m.consts[0].1.pop() { m.consts[1].1.insert(0, c); } } }
        4 => { stats.hit("mut:help"); m.help = rng.pick(&["h", "help", "help ", "a"]).to_string(); }
        5 => { stats.hit("mut:const-to-var"); if let Some((k, _)) = m.consts.pop() { m.vars.push(k); } }
        6 => { stats.hit("mut:value"); if !m.consts.is_empty() { let i = rng.below(m.consts.len()); m.consts[i].1 = rng.pick(VALS).to_string(); } }
        7 => { stats.hit("mut:boundary-shift-help-name"); if m.help.len() > 1 && m.help.is_ascii() && !m.consts.is_empty() { m.consts.sort(); let c = m.help.pop().unwrap(); m.consts[0].0.insert(0, c); } }
        _ => { stats.hit("mut:split-name"); if m.ns.is_empty() && m.sub.is_empty() && m.kind != "desc" { if let Some(i) = m.name.find('_') { if i > 0 && i + 1 < m.name.len() { m.ns = m.name[..i].to_string(); m.name = m.name[i + 1..].to_string(); } } } }
    }
    m
}

impl Area for DescArea {
    fn corpus(&self) -> Vec<Vec<String>> {
        let r = |kind: &str, name: &str, help: &str, vars: &[&str], consts: &[(&str, &str)]| Req { kind: kind.into(), ns: "".into(), sub: "".into(), name: name.into(), help: help.into(),
            vars: vars.iter().map(|s| s.to_string()).collect(), consts: consts.iter().map(|(k, v)| (k.to_string(), v.to_string())).collect() }.line();
        vec![
            // F4 witness (fixed): variable label repeating a const label
            vec![r("countervec", "z", "h", &["a"], &[("a", "1")])],
            vec![r("desc", "ab", "h", &[], &[("x", "c")]), r("desc", "a", "h", &[], &[("x", "bc")])],
            vec![r("desc", "m", "h", &["a", "b"], &[]), r("desc", "m", "h", &["b", "a"], &[]), r("desc", "m", "h", &["a"], &[("b", "1")])],
            vec![r("histogram", "h", "h", &[], &[("le", "1")]), r("histogramvec", "h", "h", &["le"], &[]), r("counter", "h", "h", &[], &[("le", "1")])],
            vec![r("desc", "é", "h", &[], &[]), r("desc", "a", "h", &["ß"], &[]), r("desc", "a٣", "h", &[], &[]), r("desc", "a", "h", &[], &[("a𝟗", "v")])],
        ]
    }

    fn gen(&self, rng: &mut Rng, _thorough: bool, stats: &mut Stats) -> Vec<String> {
        let base = gen_req(rng, stats);
        let mut v = vec![base.clone()];
        let n = rng.range(1, 3);
        for _ in 0..n { let src = rng.pick(&v).clone(); v.push(mutate(&src, rng, stats)); }
        v.iter().map(|r| r.line()).collect()
    }

    fn exec(&self, lines: &[String], stats: &mut Stats) -> ExecOut {
        let mut outs = vec![]; let mut fails = vec![];
        let mut accepted: Vec<(Req, Desc)> = vec![];
        for line in lines {
            let r = Req::parse(line);
            let a = construct(&r, false);
            let b = construct(&r, true);
            // ---- oracle C09: accepted exactly when well formed
            let fq = r.fq();
            let mut all_names: Vec<&String> = r.consts.iter().map(|(k, _)| k).collect();
            all_names.extend(r.vars.iter());
            let distinct = { let mut s = std::collections::BTreeSet::new(); all_names.iter().all(|n| s.insert(n.as_str())) };
            let well_formed = !r.help.is_empty() && metric_name_ok(&fq) && all_names.iter().all(|n| label_name_ok(n)) && distinct;
            let is_hist = r.kind == "histogram";
            let has_le = all_names.iter().any(|n| n.as_str() == "le");
            let scalar = !r.kind.ends_with("vec") && r.kind != "desc";
            let expect_ok = well_formed && !(is_hist && has_le) && !(scalar && !r.vars.is_empty());
            match (&a, &b) {
                (Ok(da), Ok(db)) => {
                    stats.hit("accepted");
                    if !expect_ok { fails.push(Failure { class: if !well_formed { "accept-malformed".into() } else if is_hist && has_le { "accept-le-on-histogram".into() } else { "accept-unexpected".into() }, detail: format!("constructor accepted: {}", line) }); }
                    if show_desc(da) != show_desc(db) { fails.push(Failure { class: "order-dependent".into(), detail: format!("descriptor depends on const-label insertion order / hash seed: {} vs {}", show_desc(da), show_desc(db)) }); }
                    if da.fq_name != fq { fails.push(Failure { class: "fq-name".into(), detail: format!("fq_name {:?} != {:?}", da.fq_name, fq) }); }
                    accepted.push((r.clone(), da.clone()));
                    outs.push(show_desc(da));
                }
                (Err(e), Err(_)) => {
                    stats.hit("rejected");
                    if expect_ok { fails.push(Failure { class: "reject-wellformed".into(), detail: format!("constructor refused a well-formed request: {}", line) }); }
                    outs.push(err_kind(e));
                }
                _ => { fails.push(Failure { class: "order-dependent".into(), detail: format!("accept/reject depends on const-label insertion order: {}", line) }); outs.push("order-dependent".into()); }
            }
        }
        // ---- oracle C15: structural identity over all pairs of the case
        let nt = accepted.len() >= 2;
        stats.seen(lines, nt);
        for i in 0..accepted.len() { for j in (i + 1)..accepted.len() {
            let (ra, da) = &accepted[i]; let (rb, db) = &accepted[j];
            let key = |r: &Req| { let mut c = r.consts.clone(); c.sort(); (r.fq(), c.into_iter().map(|(_, v)| v).collect::<Vec<_>>()) };
            let dimkey = |r: &Req| { let mut c: Vec<String> = r.consts.iter().map(|(k, _)| k.clone()).collect(); c.sort(); let mut v = r.vars.clone(); v.sort(); (r.help.clone(), c, v) };
            let same_id = key(ra) == key(rb); let same_dim = dimkey(ra) == dimkey(rb);
            if same_id { stats.hit("pair:same-id"); } else { stats.hit("pair:diff-id"); }
            if same_dim { stats.hit("pair:same-dim"); } else { stats.hit("pair:diff-dim"); }
            if (da.id == db.id) != same_id { fails.push(Failure { class: "id-not-structural".into(), detail: format!("ids {} for structurally {} descriptors: {} | {}", if da.id == db.id { "equal" } else { "differ" }, if same_id { "equal" } else { "different" }, ra.line(), rb.line()) }); }
            if (da.dim_hash == db.dim_hash) != same_dim { fails.push(Failure { class: "dim-not-structural".into(), detail: format!("dim hashes {} for {} signatures: {} | {}", if da.dim_hash == db.dim_hash { "equal" } else { "differ" }, if same_dim { "equal" } else { "different" }, ra.line(), rb.line()) }); }
        } }
        ExecOut { outs, fails, model_lines: None }
    }
}
