//! area `local` (C12): local counters, local histograms and the local vectors hand over exactly
//! what they accumulated.
use crate::areas::hist::snapshot;
use crate::areas::vec::pairs_str;
use crate::rng::Rng;
use crate::util::*;
use crate::{Area, ExecOut, Failure};
use prometheus::core::Collector;
use prometheus::local::*;
use prometheus::*;

pub struct LocalArea;

enum CShared { F(Counter), I(IntCounter) }
enum CLocal { F(LocalCounter), I(LocalIntCounter) }
enum VShared { F(CounterVec), I(IntCounterVec), H(HistogramVec) }
enum VLocal { F(LocalCounterVec), I(LocalIntCounterVec), H(LocalHistogramVec) }

impl Area for LocalArea {
    fn corpus(&self) -> Vec<Vec<String>> {
        let s = |x: &[&str]| x.iter().map(|l| l.to_string()).collect::<Vec<String>>();
        vec![
            s(&["local cnew kind=counter", "local lnew", "local linc 0 3", "local lclone 0", "local lflush 1", "local cget", "local lflush 0", "local lflush 0", "local cget", "local linc 0 2", "local lreset 0", "local lflush 0", "local sreset", "local linc 1 4", "local lflush 1", "local cget"]),
            s(&["local hnew 3ff0000000000000,4000000000000000", "local hlnew", "local hlobs 0 3ff0000000000000", "local hlclone 0", "local hlobs 1 4008000000000000", "local hldrop 1", "local hget", "local hlflush 0", "local hlflush 0", "local hget", "local hlobs 0 3fe0000000000000", "local hlclear 0", "local hldrop 0", "local hget"]),
            s(&["local vnew kind=histogramvec names=6c", "local vlnew", "local vlnew", "local vlwith 0 78 2", "local vlwith 1 78 1", "local vlrm 1 78", "local vlrm 0 78", "local vlwith 0 78 1", "local vlflush 0", "local vget", "local vldrop 0", "local vget"]),
            s(&["local vnew kind=intcountervec names=6c,6d", "local vlnew", "local vlwith 0 6162,63 2", "local vlwith 0 61,6263 5", "local vlflush 0", "local vget"]),
        ]
    }

    fn gen(&self, rng: &mut Rng, thorough: bool, stats: &mut Stats) -> Vec<String> {
        let n = rng.range(6, if thorough { 60 } else { 28 });
        let mut lines = vec![];
        match rng.below(3) {
            0 => { stats.hit("world:counter");
                lines.push(format!("local cnew kind={}", rng.pick(&["counter", "intcounter"]))); lines.push("local lnew".into());
                let mut nh = 1;
                for _ in 0..n { let h = rng.below(nh); match rng.below(100) {
                    0..=34 => lines.push(format!("local linc {} {}", h, rng.below(5))), 35..=54 => lines.push(format!("local lflush {}", h)), 55..=62 => lines.push(format!("local lreset {}", h)),
                    63..=72 => { lines.push(format!("local lclone {}", h)); nh += 1 } 73..=82 => lines.push(format!("local sinc {}", rng.below(4))), 83..=86 => lines.push("local sreset".into()), _ => lines.push("local cget".into()) } }
                lines.push("local cget".into()); }
            1 => { stats.hit("world:histogram");
                lines.push("local hnew 3ff0000000000000,4000000000000000,4010000000000000".into()); lines.push("local hlnew".into());
                let mut nh = 1; let vals = [0.0, 1.0, 2.0, 3.0, 4.0, 8.0, -1.0, -2.5, -0.0, 0.25, f64::NAN, -8.0];
                for _ in 0..n { let h = rng.below(nh); match rng.below(100) {
                    0..=34 => lines.push(format!("local hlobs {} {}", h, f64_hex(*rng.pick(&vals)))), 35..=52 => lines.push(format!("local hlflush {}", h)), 53..=60 => lines.push(format!("local hlclear {}", h)),
                    61..=70 => { lines.push(format!("local hlclone {}", h)); nh += 1 } 71..=78 => lines.push(format!("local hldrop {}", h)), 79..=86 => lines.push(format!("local hsobs {}", f64_hex(*rng.pick(&vals)))), _ => lines.push("local hget".into()) } }
                lines.push("local hget".into()); }
            _ => { stats.hit("world:vector");
                let kind = *rng.pick(&["countervec", "intcountervec", "histogramvec"]);
                let two = rng.chance(50);
                lines.push(format!("local vnew kind={} names={}", kind, if two { "6c,6d" } else { "6c" })); lines.push("local vlnew".into());
                let mut nh = 1; let tuples: Vec<Vec<&str>> = if two { vec![vec!["ab", "c"], vec!["a", "bc"], vec!["", "x"], vec!["x", ""]] } else { vec![vec!["a"], vec!["b"], vec![""]] };
                for _ in 0..n { let h = rng.below(nh); let tt: &Vec<&str> = &tuples[rng.below(tuples.len())]; let t = hex_list(tt); match rng.below(100) {
                    0..=39 => lines.push(format!("local vlwith {} {} {}", h, t, rng.below(4))), 40..=57 => lines.push(format!("local vlflush {}", h)), 58..=69 => lines.push(format!("local vlrm {} {}", h, t)),
                    70..=79 => { if rng.chance(50) { lines.push(format!("local vlclone {}", h)) } else { lines.push("local vlnew".into()) } nh += 1 } 80..=86 => lines.push(format!("local vldrop {}", h)), _ => lines.push("local vget".into()) } }
                lines.push("local vget".into()); }
        }
        lines
    }

    fn exec(&self, lines: &[String], stats: &mut Stats) -> ExecOut {
        let mut outs = vec![]; let mut fails: Vec<Failure> = vec![];
        let mut cs: Option<CShared> = None; let mut cl: Vec<CLocal> = vec![];
        let mut hs: Option<Histogram> = None; let mut hl: Vec<Option<LocalHistogram>> = vec![];
        let mut vs: Option<VShared> = None; let mut vl: Vec<Option<VLocal>> = vec![];
        // ---- oracle bookkeeping (the property): shared = direct + flushed batches
        let (mut direct, mut flushed): (u64, u64) = (0, 0); let mut pend: Vec<u64> = vec![];
        let (mut hdirect, mut hflushed): (u64, u64) = (0, 0); let mut hpend: Vec<Option<u64>> = vec![];
        // sums, in the order the code adds them: a local sum is the left fold of its observations from 0.0, a flush adds that sum to the shared sum
        let mut hsum_ref: f64 = 0.0; let mut hpsum: Vec<f64> = vec![]; let mut hpv: Vec<Vec<f64>> = vec![]; let mut hdel: Vec<f64> = vec![];
        let mut nflush = 0;
        // vector reference: exported children (tuple -> (generation, value)); per handle: tuple -> (generation bound, pending)
        let mut vexp: std::collections::HashMap<Vec<String>, (u64, u64)> = Default::default(); let mut vgen: u64 = 0;
        let mut vcache: Vec<Option<std::collections::HashMap<Vec<String>, (u64, u64)>>> = vec![]; let mut vhist = false;
        for line in lines {
            let p: Vec<&str> = line.split(' ').collect();
            let num = |i: usize| -> usize { p[i].parse().unwrap() };
            match p[1] {
                "cnew" => { cs = Some(if field(&p, "kind") == Some("counter") { CShared::F(Counter::new("c", "h").unwrap()) } else { CShared::I(IntCounter::new("c", "h").unwrap()) }); cl.clear(); pend.clear(); direct = 0; flushed = 0; outs.push("ok".into()) }
                "lnew" => { cl.push(match cs.as_ref().unwrap() { CShared::F(c) => CLocal::F(c.local()), CShared::I(c) => CLocal::I(c.local()) }); pend.push(0); outs.push(format!("ok h={}", cl.len() - 1)) }
                "linc" => { let d = num(3); match &cl[num(2)] { CLocal::F(l) => l.inc_by(d as f64), CLocal::I(l) => l.inc_by(d as u64) } pend[num(2)] += d as u64; outs.push("ok".into()) }
                "lflush" => { match &cl[num(2)] { CLocal::F(l) => l.flush(), CLocal::I(l) => l.flush() } flushed += pend[num(2)]; pend[num(2)] = 0; nflush += 1; outs.push("ok".into()) }
                "lreset" => { match &cl[num(2)] { CLocal::F(l) => l.reset(), CLocal::I(l) => l.reset() } pend[num(2)] = 0; outs.push("ok".into()) }
                "lclone" => { let c = match &cl[num(2)] { CLocal::F(l) => CLocal::F(l.clone()), CLocal::I(l) => CLocal::I(l.clone()) }; cl.push(c); pend.push(0); outs.push(format!("ok h={}", cl.len() - 1)) }
                "sinc" => { match cs.as_ref().unwrap() { CShared::F(c) => c.inc_by(num(2) as f64), CShared::I(c) => c.inc_by(num(2) as u64) } direct += num(2) as u64; outs.push("ok".into()) }
                "sreset" => { match cs.as_ref().unwrap() { CShared::F(c) => c.reset(), CShared::I(c) => c.reset() } direct = 0; flushed = 0; outs.push("ok".into()) }
                "cget" => {
                    let shared = match cs.as_ref().unwrap() { CShared::F(c) => c.get() as u64, CShared::I(c) => c.get() };
                    let locals: Vec<u64> = cl.iter().map(|l| match l { CLocal::F(l) => l.get() as u64, CLocal::I(l) => l.get() }).collect();
                    if shared != direct + flushed { fails.push(Failure { class: "counter-handover".into(), detail: format!("shared counter = {} but direct updates {} + flushed batches {} (since the last shared reset)", shared, direct, flushed) }); }
                    if locals != pend { fails.push(Failure { class: "counter-pending".into(), detail: format!("local pending {:?}, accumulated since last flush/reset {:?}", locals, pend) }); }
                    outs.push(format!("shared={} locals={}", shared, nat_list(&locals))) }
                "hnew" => { hs = Some(Histogram::with_opts(HistogramOpts::new("h", "h").buckets(f64_parse_list(p[2]))).unwrap()); hl.clear(); hpend.clear(); hdirect = 0; hflushed = 0; hsum_ref = 0.0; hpsum.clear(); hpv.clear(); hdel.clear(); outs.push("ok".into()) }
                "hlnew" => { hl.push(Some(hs.as_ref().unwrap().local())); hpend.push(Some(0)); hpsum.push(0.0); hpv.push(vec![]); outs.push(format!("ok h={}", hl.len() - 1)) }
                "hlobs" => { if let Some(l) = &hl[num(2)] { l.observe(f64_parse(p[3])); *hpend[num(2)].as_mut().unwrap() += 1; hpsum[num(2)] += f64_parse(p[3]); hpv[num(2)].push(f64_parse(p[3])); } outs.push("ok".into()) }
                "hlflush" => { if let Some(l) = &hl[num(2)] { l.flush(); let vs = std::mem::take(&mut hpv[num(2)]); hdel.extend(vs); if hpend[num(2)].unwrap() > 0 { hsum_ref += hpsum[num(2)]; } hpsum[num(2)] = 0.0; hflushed += hpend[num(2)].unwrap(); hpend[num(2)] = Some(0); nflush += 1; } outs.push("ok".into()) }
                "hlclear" => { if let Some(l) = &hl[num(2)] { l.clear(); hpend[num(2)] = Some(0); hpsum[num(2)] = 0.0; hpv[num(2)].clear(); } outs.push("ok".into()) }
                "hlclone" => { match &hl[num(2)] { Some(l) => { let c = l.clone(); hl.push(Some(c)); hpend.push(Some(0)); hpsum.push(0.0); hpv.push(vec![]); } None => { hl.push(None); hpend.push(None); hpsum.push(0.0); hpv.push(vec![]); } } outs.push(format!("ok h={}", hl.len() - 1)) }
                "hldrop" => { let i = num(2); if hl[i].is_some() { hl[i] = None; let vs = std::mem::take(&mut hpv[i]); hdel.extend(vs); if hpend[i].unwrap() > 0 { hsum_ref += hpsum[i]; } hpsum[i] = 0.0; hflushed += hpend[i].unwrap(); hpend[i] = None; nflush += 1; } outs.push("ok".into()) }
                "hsobs" => { hs.as_ref().unwrap().observe(f64_parse(p[2])); hdirect += 1; hsum_ref += f64_parse(p[2]); hdel.push(f64_parse(p[2])); outs.push("ok".into()) }
                "hget" => {
                    let (count, sum, cum, ub) = snapshot(hs.as_ref().unwrap());
                    // every bucket holds exactly the delivered observations not greater than its bound (direct ones and those of flushed / dropped batches)
                    for (i, b) in ub.iter().enumerate() { let want = hdel.iter().filter(|v| **v <= *b).count() as u64; if cum.get(i) != Some(&want) { fails.push(Failure { class: "histogram-handover".into(), detail: format!("bucket le={} holds {:?} observations, {} of the delivered ones are <= the bound", b, cum.get(i), want) }); } }
                    if count != hdirect + hflushed { fails.push(Failure { class: "histogram-handover".into(), detail: format!("shared sample_count = {} but direct {} + flushed/dropped batches {}", count, hdirect, hflushed) }); }
                    if f64_show(sum) != f64_show(hsum_ref) { fails.push(Failure { class: "histogram-handover".into(), detail: format!("shared sample_sum = {} but direct observations plus the flushed/dropped batches' sums give {}", sum, hsum_ref) }); }
                    for (i, l) in hl.iter().enumerate() { if let Some(l) = l { if f64_show(l.get_sample_sum()) != f64_show(hpsum[i]) { fails.push(Failure { class: "histogram-pending".into(), detail: format!("local {} holds sum {}, accumulated since the last flush/clear {}", i, l.get_sample_sum(), hpsum[i]) }); } } }
                    let locals: Vec<String> = hl.iter().map(|l| match l { Some(l) => format!("{}/{}", l.get_sample_count(), f64_show(l.get_sample_sum())), None => "x".into() }).collect();
                    for (i, l) in hl.iter().enumerate() { if let Some(l) = l { if Some(l.get_sample_count()) != hpend[i] { fails.push(Failure { class: "histogram-pending".into(), detail: format!("local {} holds {} observations, accumulated {:?}", i, l.get_sample_count(), hpend[i]) }); } } }
                    if cum.last().map(|c| *c > count).unwrap_or(false) { fails.push(Failure { class: "histogram-handover".into(), detail: format!("bucket count {:?} exceeds sample count {}", cum, count) }); }
                    outs.push(format!("count={} sum={} cum={} locals={}", count, f64_show(sum), nat_list(&cum), if locals.is_empty() { "-".to_string() } else { locals.join(";") })) }
                "vnew" => { let names = unhex_list(field(&p, "names").unwrap()); let n: Vec<&str> = names.iter().map(|s| s.as_str()).collect();
                    vs = Some(match field(&p, "kind").unwrap() { "countervec" => VShared::F(CounterVec::new(Opts::new("v", "h"), &n).unwrap()), "intcountervec" => VShared::I(IntCounterVec::new(Opts::new("v", "h"), &n).unwrap()), _ => VShared::H(HistogramVec::new(HistogramOpts::new("v", "h").buckets(vec![0.5, 2.0]), &n).unwrap()) });
                    vl.clear(); vexp.clear(); vcache.clear(); vhist = field(&p, "kind") == Some("histogramvec"); outs.push("ok".into()) }
                "vlnew" => { vl.push(Some(match vs.as_ref().unwrap() { VShared::F(v) => VLocal::F(v.local()), VShared::I(v) => VLocal::I(v.local()), VShared::H(v) => VLocal::H(v.local()) })); vcache.push(Some(Default::default())); outs.push(format!("ok h={}", vl.len() - 1)) }
                "vlwith" => { let t = unhex_list(p[3]); let tv: Vec<&str> = t.iter().map(|s| s.as_str()).collect(); let d = num(4);
                    match vl[num(2)].as_mut() { Some(VLocal::F(l)) => l.with_label_values(&tv).inc_by(d as f64), Some(VLocal::I(l)) => l.with_label_values(&tv).inc_by(d as u64), Some(VLocal::H(l)) => { let h = l.with_label_values(&tv); for _ in 0..d { h.observe(1.0); } } None => {} }
                    if let Some(c) = vcache[num(2)].as_mut() { let e = c.entry(t.clone()).or_insert_with(|| { let g = vexp.entry(t.clone()).or_insert_with(|| { vgen += 1; (vgen, 0) }); (g.0, 0) }); e.1 += d as u64; }
                    outs.push("ok".into()) }
                "vlflush" => { match vl[num(2)].as_ref() { Some(VLocal::F(l)) => l.flush(), Some(VLocal::I(l)) => l.flush(), Some(VLocal::H(l)) => l.flush(), None => {} } nflush += 1;
                    if let Some(c) = vcache[num(2)].as_mut() { for (t, e) in c.iter_mut() { if let Some(x) = vexp.get_mut(t) { if x.0 == e.0 { x.1 += e.1; } } e.1 = 0; } }
                    outs.push("ok".into()) }
                "vlrm" => { let t = unhex_list(p[3]); let tv: Vec<&str> = t.iter().map(|s| s.as_str()).collect();
                    let r = match vl[num(2)].as_mut() { Some(VLocal::F(l)) => l.remove_label_values(&tv), Some(VLocal::I(l)) => l.remove_label_values(&tv), Some(VLocal::H(l)) => l.remove_label_values(&tv), None => Err(Error::Msg("dropped".into())) };
                    if let Some(c) = vcache[num(2)].as_mut() { if t.len() == match vs.as_ref().unwrap() { VShared::F(v) => v.desc()[0].variable_labels.len(), VShared::I(v) => v.desc()[0].variable_labels.len(), VShared::H(v) => v.desc()[0].variable_labels.len() } {
                        if let Some(e) = c.remove(&t) { if vhist { if let Some(x) = vexp.get_mut(&t) { if x.0 == e.0 { x.1 += e.1; } } } }
                        vexp.remove(&t); } }
                    outs.push(match r { Ok(()) => "ok".into(), Err(e) => err_kind(&e) }) }
                "vlclone" => { let c = match vl[num(2)].as_ref() { Some(VLocal::F(l)) => Some(VLocal::F(l.clone())), Some(VLocal::I(l)) => Some(VLocal::I(l.clone())), Some(VLocal::H(l)) => Some(VLocal::H(l.clone())), None => None }; vcache.push(if c.is_some() { Some(Default::default()) } else { None }); vl.push(c); outs.push(format!("ok h={}", vl.len() - 1)) }
                "vldrop" => { let i = num(2); vl[i] = None;
                    if let Some(c) = vcache[i].take() { if vhist { for (t, e) in c.iter() { if let Some(x) = vexp.get_mut(t) { if x.0 == e.0 { x.1 += e.1; } } } } }
                    outs.push("ok".into()) }
                "vget" => { let mfs = match vs.as_ref().unwrap() { VShared::F(v) => v.collect(), VShared::I(v) => v.collect(), VShared::H(v) => v.collect() };
                    let mut strs: Vec<String> = mfs[0].get_metric().iter().map(|m| { let l: Vec<(String, String)> = m.get_label().iter().map(|q| (q.name().to_string(), q.value().to_string())).collect();
                        let v = match vs.as_ref().unwrap() { VShared::H(_) => m.get_histogram().get_sample_count(), _ => m.get_counter().value() as u64 }; format!("{}={}", pairs_str(&l), v) }).collect(); strs.sort();
                    let names: Vec<String> = match vs.as_ref().unwrap() { VShared::F(v) => v.desc()[0].variable_labels.clone(), VShared::I(v) => v.desc()[0].variable_labels.clone(), VShared::H(v) => v.desc()[0].variable_labels.clone() };
                    let mut want: Vec<String> = vexp.iter().map(|(t, x)| { let mut l: Vec<(String, String)> = names.iter().cloned().zip(t.iter().cloned()).collect(); l.sort(); format!("{}={}", pairs_str(&l), x.1) }).collect(); want.sort();
                    if want != strs { fails.push(Failure { class: "vector-handover".into(), detail: format!("shared vector shows [{}]; children = flushed batches since creation gives [{}]", strs.join(";"), want.join(";")) }); }
                    outs.push(format!("n={} {}", strs.len(), if strs.is_empty() { "-".to_string() } else { strs.join(";") })) }
                _ => outs.push("bad-op".into()),
            }
        }
        stats.seen(lines, nflush >= 2);
        ExecOut { outs, fails, model_lines: None }
    }
}
