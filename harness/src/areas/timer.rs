//! area `timer` (C18): a timer records exactly once, or never when discarded.
use crate::rng::Rng;
use crate::util::*;
use crate::{Area, ExecOut, Failure};
use prometheus::local::*;
use prometheus::*;

pub struct TimerArea;

enum T { S(HistogramTimer), L(LocalHistogramTimer) }

impl Area for TimerArea {
    fn corpus(&self) -> Vec<Vec<String>> {
        let s = |x: &[&str]| x.iter().map(|l| l.to_string()).collect::<Vec<String>>();
        vec![
            s(&["timer new", "timer start shared", "timer discard 0 thread", "timer start shared", "timer record 1", "timer start shared", "timer drop 2 thread", "timer closure", "timer get"]),
            s(&["timer new", "timer pobs", "timer pobs", "timer start local", "timer discard 0", "timer start local", "timer drop 1", "timer get", "timer pflush", "timer get"]),
            s(&["timer new", "timer pobs", "timer start local", "timer record 0", "timer get", "timer start shared", "timer pdrop 1", "timer start local", "timer pdrop 2", "timer get"]),
            s(&["timer new tiny", "timer start local", "timer record 0", "timer pobs", "timer start local", "timer drop 1", "timer pflush", "timer get"]),
        ]
    }
    fn gen(&self, rng: &mut Rng, thorough: bool, stats: &mut Stats) -> Vec<String> {
        // `tiny`: the only finite bound is -1, so every duration (and the parent's plain observations) lands in the implicit +Inf bucket only
        let mut lines = vec![if rng.chance(30) { stats.hit("buckets:all-above-last-bound"); "timer new tiny".to_string() } else { "timer new".to_string() }];
        let n = rng.range(4, if thorough { 40 } else { 18 });
        let mut alive: Vec<(usize, bool)> = vec![]; let mut nt = 0;
        for _ in 0..n {
            let k = rng.below(100);
            if k < 30 || alive.is_empty() { let loc = rng.chance(45); lines.push(format!("timer start {}", if loc { "local" } else { "shared" })); alive.push((nt, loc)); nt += 1; stats.hit(if loc { "start:local" } else { "start:shared" }); }
            else if k < 78 { let i = rng.below(alive.len()); let (t, loc) = alive.remove(i); let op = *rng.pick(&["record", "observe", "discard", "discard", "drop", "pdrop"]); stats.hit(&format!("end:{}", op));
                lines.push(format!("timer {} {}{}", op, t, if !loc && rng.chance(40) { " thread" } else { "" })); }
            else if k < 84 { lines.push("timer closure".into()); } else if k < 92 { lines.push("timer pobs".into()); } else if k < 96 { lines.push("timer pflush".into()); } else { lines.push("timer get".into()); }
        }
        lines.push("timer get".into());
        lines
    }
    fn exec(&self, lines: &[String], stats: &mut Stats) -> ExecOut {
        let mut outs = vec![]; let mut fails: Vec<Failure> = vec![];
        let mut h: Option<Histogram> = None; let mut parent: Option<LocalHistogram> = None; let mut timers: Vec<Option<T>> = vec![];
        // oracle: one observation per timer ended by record/observe/drop, none per discard; values >= 0
        // values: every recorded duration lies between 0 and the wall-clock time since that timer was started (measured here, around the calls)
        let mut want: u64 = 0; let mut pend: u64 = 0; let mut ended = 0;
        let mut started: Vec<std::time::Instant> = vec![]; let mut sum_lo: f64 = 0.0; let mut sum_hi: f64 = 0.0; let mut pend_sum: f64 = 0.0;
        for line in lines {
            let p: Vec<&str> = line.split(' ').collect();
            let on_thread = p.len() > 3 && p[3] == "thread";
            match p[1] {
                "new" => { let hh = Histogram::with_opts(HistogramOpts::new("t", "h").buckets(if p.len() > 2 && p[2] == "tiny" { vec![-1.0] } else { vec![1e9] })).unwrap(); parent = Some(hh.local()); h = Some(hh); timers.clear(); want = 0; pend = 0; started.clear(); sum_lo = 0.0; sum_hi = 0.0; pend_sum = 0.0; outs.push("ok".into()); continue; }
                "start" => { started.push(std::time::Instant::now()); timers.push(Some(if p[2] == "local" { T::L(parent.as_ref().unwrap().start_timer()) } else { T::S(h.as_ref().unwrap().start_timer()) })); outs.push(format!("ok t={}", timers.len() - 1)); continue; }
                "record" | "observe" | "discard" | "drop" | "pdrop" => {
                    let i: usize = p[2].parse().unwrap();
                    if let Some(t) = timers[i].take() {
                        ended += 1;
                        let op = p[1].to_string();
                        let run = move |t: T| -> Option<f64> { match (t, op.as_str()) {
                            (T::S(t), "record") => Some(t.stop_and_record()), (T::S(t), "observe") => { t.observe_duration(); None } (T::S(t), "discard") => Some(t.stop_and_discard()),
                            (T::S(t), "pdrop") => { let _ = std::panic::catch_unwind(std::panic::AssertUnwindSafe(move || { let _held = t; panic!("unwinding with a timer in scope") })); None }
                            (T::L(t), "pdrop") => { let _ = std::panic::catch_unwind(std::panic::AssertUnwindSafe(move || { let _held = t; panic!("unwinding with a timer in scope") })); None }
                            (T::S(t), _) => { drop(t); None }
                            (T::L(t), "record") => Some(t.stop_and_record()), (T::L(t), "observe") => { t.observe_duration(); None } (T::L(t), "discard") => Some(t.stop_and_discard()), (T::L(t), _) => { drop(t); None } } };
                        let v = match t { T::S(ts) if on_thread => std::thread::spawn(move || run(T::S(ts))).join().unwrap(), t => run(t) };
                        if let Some(v) = v { if !(v >= 0.0) { fails.push(Failure { class: "negative-duration".into(), detail: format!("{} returned {}", line, v) }); } }
                        if p[1] != "discard" { want += 1; sum_hi += started[i].elapsed().as_secs_f64(); }
                        if let Some(v) = v { if v > started[i].elapsed().as_secs_f64() { fails.push(Failure { class: "timer-value".into(), detail: format!("{} returned {} s, more than the wall-clock time since the timer was started", line, v) }); } }
                    }
                }
                "closure" => { let t0 = std::time::Instant::now(); let r = h.as_ref().unwrap().observe_closure_duration(|| 41 + 1); sum_hi += t0.elapsed().as_secs_f64(); if r != 42 { fails.push(Failure { class: "closure-result".into(), detail: format!("closure result {}", r) }); } want += 1; }
                "pobs" => { parent.as_ref().unwrap().observe(64.0); pend += 1; pend_sum += 64.0; }
                "pflush" => { parent.as_ref().unwrap().flush(); want += pend; pend = 0; sum_lo += pend_sum; sum_hi += pend_sum; pend_sum = 0.0; }
                "get" => {}
                _ => { outs.push("bad-op".into()); continue; }
            }
            let shared = h.as_ref().unwrap().get_sample_count(); let par = parent.as_ref().unwrap().get_sample_count();
            if shared != want || par != pend { fails.push(Failure { class: "timer-contribution".into(), detail: format!("after `{}`: histogram holds {} observations (parent local pending {}), the timers' contributions give {} (pending {})", line, shared, par, want, pend) }); }
            let ssum = h.as_ref().unwrap().get_sample_sum();
            if !(ssum >= sum_lo && ssum <= sum_hi + 1e-9) { fails.push(Failure { class: "timer-value".into(), detail: format!("after `{}`: sample sum {} is not (flushed plain observations {}) + (one duration in [0, wall-clock time since start] per recorded timer: at most {})", line, ssum, sum_lo, sum_hi) }); }
            if parent.as_ref().unwrap().get_sample_sum() != pend_sum { fails.push(Failure { class: "timer-value".into(), detail: format!("after `{}`: the parent local histogram's pending sum is {}, its own plain observations give {}", line, parent.as_ref().unwrap().get_sample_sum(), pend_sum) }); }
            // the buckets agree with the count: every recorded value is >= 0 and far below 1e9, so the one finite bucket holds all of them (bound 1e9) or none (bound -1)
            { let mf = prometheus::core::Collector::collect(h.as_ref().unwrap()); let hp = mf[0].get_metric()[0].get_histogram(); let b0 = hp.get_bucket().first().map(|b| (b.upper_bound(), b.cumulative_count()));
              if let Some((ub, cc)) = b0 { let wantb = if ub < 0.0 { 0 } else { hp.get_sample_count() }; if cc != wantb { fails.push(Failure { class: "timer-contribution".into(), detail: format!("after `{}`: bucket le={} holds {} of {} observations, expected {}", line, ub, cc, hp.get_sample_count(), wantb) }); } } }
            if h.as_ref().unwrap().get_sample_sum() < 0.0 { fails.push(Failure { class: "negative-duration".into(), detail: "negative sample sum".into() }); }
            outs.push(format!("shared={} parent={}", shared, par));
        }
        stats.seen(lines, ended >= 2);
        ExecOut { outs, fails, model_lines: None }
    }
}
