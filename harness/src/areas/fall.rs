//! area `fall` (C17): every Result-returning API under `catch_unwind`, outcome class ok / err / panic.
use crate::areas::desc::{adv_string, construct, Req, KINDS};
use crate::areas::hist::pool;
use crate::areas::vec::{pairs_str, parse_pairs, AnyVec};
use crate::rng::Rng;
use crate::util::*;
use crate::{Area, ExecOut, Failure};
use prometheus::proto::{self, MetricFamily, MetricType};
use prometheus::*;
use std::collections::HashMap;

pub struct FallArea;

struct FailWriter;
impl std::io::Write for FailWriter {
    fn write(&mut self, _: &[u8]) -> std::io::Result<usize> { Err(std::io::Error::new(std::io::ErrorKind::Other, "fail")) }
    fn flush(&mut self) -> std::io::Result<()> { Ok(()) }
}

fn class<T>(f: impl FnOnce() -> Result<T> + std::panic::UnwindSafe) -> String {
    match std::panic::catch_unwind(f) { Ok(Ok(_)) => "ok".into(), Ok(Err(_)) => "err".into(), Err(_) => "panic".into() }
}

fn mk_family(ty: &str, name: &str, n: usize) -> MetricFamily {
    let mut f = MetricFamily::default();
    f.set_name(name.to_string()); f.set_help("h".to_string());
    let t = match ty { "counter" => MetricType::COUNTER, "gauge" => MetricType::GAUGE, "summary" => MetricType::SUMMARY, "untyped" => MetricType::UNTYPED, _ => MetricType::HISTOGRAM };
    f.set_field_type(t);
    let mut ms = vec![];
    for i in 0..n { let mut m = proto::Metric::default();
        // every second sample carries the slot matching the type, the others carry a counter slot or nothing
        if i % 2 == 0 { match t { MetricType::COUNTER => { let mut c = proto::Counter::default(); c.set_value(1.0); m.set_counter(c) } MetricType::GAUGE => { let mut g = proto::Gauge::default(); g.set_value(1.0); m.set_gauge(g) }
            MetricType::HISTOGRAM => { let mut h = proto::Histogram::default(); h.set_sample_count(1); m.set_histogram(h) } MetricType::SUMMARY => { let s = proto::Summary::default(); m.set_summary(s) } _ => {} } }
        ms.push(m); }
    f.set_metric(ms);
    f
}

const ESC: &[&str] = &["a", "é", "日", "\u{10ffff}", "\\", "\n", "\"", "\r", "ß"];

impl Area for FallArea {
    fn corpus(&self) -> Vec<Vec<String>> {
        let l = |s: &str| vec![s.to_string()];
        vec![
            // F6 witness (fixed): UNTYPED family through the text encoder
            l("fall encode kind=text writer=ok fams=untyped/6d/1"),
            l("fall encode kind=pb writer=ok fams=untyped/6d/1"),
            l(&format!("fall escape 0 {}", hex_list(&["café\\menu"]))),
            l(&format!("fall escape 1 {}", hex_list(&["temperature in °\n\"x\""]))),
            l(&format!("fall buckets {}", f64_list(&[1.0, f64::NAN]))),
            l(&format!("fall buckets {}", f64_list(&[0.1, 0.5, f64::NAN, 2.0]))),
            l("fall vec op=with names=61,62 arg=78"),
        ]
    }
    fn gen(&self, rng: &mut Rng, _thorough: bool, stats: &mut Stats) -> Vec<String> {
        let k = rng.below(100);
        let line = if k < 15 { stats.hit("buckets"); let p = pool(); let n = rng.below(5); let mut b: Vec<f64> = (0..n).map(|_| *rng.pick(&p)).collect(); if rng.chance(50) { b.sort_by(|a, b| a.partial_cmp(b).unwrap_or(std::cmp::Ordering::Equal)); b.dedup_by(|a, b| a == b); } format!("fall buckets {}", f64_list(&b)) }
        else if k < 23 { stats.hit("helpers"); let p = pool(); format!("fall {} {} {} {}", rng.pick(&["lin", "exp"]), f64_hex(*rng.pick(&p)), f64_hex(*rng.pick(&p)), rng.below(7)) }
        else if k < 40 { stats.hit("ctor"); let kind = *rng.pick(KINDS); let names = ["a", "le", "", "9", "a b", "é", "b"];
            let nv = rng.below(3); let vars: Vec<String> = (0..nv).map(|_| rng.pick(&names).to_string()).collect();
            let mut consts: Vec<(String, String)> = vec![]; for _ in 0..rng.below(3) { let k = rng.pick(&names).to_string(); if consts.iter().all(|c| c.0 != k) { consts.push((k, "v".into())); } }
            let r = Req { kind: kind.into(), ns: if rng.chance(20) { adv_string(rng, 2) } else { String::new() }, sub: String::new(), name: if rng.chance(80) { "m".into() } else { adv_string(rng, 3) }, help: if rng.chance(90) { "h".into() } else { String::new() }, vars, consts };
            r.line().replacen("desc new", "fall ctor", 1) }
        else if k < 62 { stats.hit("vec"); let nn = rng.below(4); let names: Vec<String> = ["a", "b", "c"][..nn.min(3)].iter().map(|s| s.to_string()).collect();
            let op = *rng.pick(&["with", "withmap", "rm", "rmmap"]); let na = rng.below(6);
            // children that exist already when the call under test is made (well-formed lookups; an existing child must not make an ill-formed lookup succeed)
            let pre = if rng.chance(50) { let n = 1 + rng.below(3); let ls: Vec<String> = (0..n).map(|_| { let a: Vec<String> = (0..names.len()).map(|_| rng.pick(&["", "x", "é", "v"]).to_string()).collect(); hex_list(&a) }).collect(); format!(" pre={}", ls.join("/")) } else { String::new() };
            if op == "with" || op == "rm" { let a: Vec<String> = (0..na).map(|_| rng.pick(&["", "x", "é"]).to_string()).collect(); format!("fall vec op={} names={} arg={}{}", op, hex_list(&names), hex_list(&a), pre) }
            else { let keys = ["a", "b", "c", "zz", "", "d"]; let mut m: Vec<(String, String)> = vec![]; for i in 0..na.min(6) { if rng.chance(70) { m.push((keys[i].to_string(), "v".into())); } } format!("fall vec op={} names={} arg={}{}", op, hex_list(&names), pairs_str(&m), pre) } }
        else if k < 70 { stats.hit("newcustom"); let p = if rng.chance(40) { "none".to_string() } else { hex_list(&[adv_string(rng, 3)]) };
            let l = if rng.chance(40) { "none".to_string() } else { let mut v: Vec<(String, String)> = vec![]; for _ in 0..rng.below(3) { let k = if rng.chance(60) { rng.pick(&["a", "b", "zone"]).to_string() } else { adv_string(rng, 3) }; if v.iter().all(|c| c.0 != k) { v.push((k, "v".into())); } } pairs_str(&v) };
            format!("fall newcustom prefix={} labels={}", p, l) }
        else if k < 85 { stats.hit("escape"); let n = rng.range(1, 6); let s: String = (0..n).map(|_| *rng.pick(ESC)).collect(); format!("fall escape {} {}", rng.below(2), hex_list(&[s])) }
        else { stats.hit("encode"); let n = rng.below(4); let fams: Vec<String> = (0..n).map(|_| format!("{}/{}/{}", rng.pick(&["counter", "gauge", "summary", "untyped", "histogram"]), if rng.chance(85) { "6d".to_string() } else { "~".to_string() }, if rng.chance(80) { rng.range(1, 3) } else { 0 })).collect();
            format!("fall encode kind={} writer={} fams={}", rng.pick(&["text", "pb"]), if rng.chance(85) { "ok" } else { "fail" }, if fams.is_empty() { "-".to_string() } else { fams.join(";") }) };
        vec![line]
    }
    fn exec(&self, lines: &[String], stats: &mut Stats) -> ExecOut {
        let mut outs = vec![]; let mut fails: Vec<Failure> = vec![];
        for line in lines {
            let p: Vec<&str> = line.split(' ').collect();
            let out = match p[1] {
                "buckets" => { let b = f64_parse_list(p[2]); class(move || Histogram::with_opts(HistogramOpts::new("h", "h").buckets(b))) }
                "lin" | "exp" => { let (a, b, c) = (f64_parse(p[2]), f64_parse(p[3]), p[4].parse::<usize>().unwrap()); let lin = p[1] == "lin"; class(move || if lin { linear_buckets(a, b, c) } else { exponential_buckets(a, b, c) }) }
                "ctor" => { let r = Req::parse(&line.replacen("fall ctor", "desc new", 1)); class(move || construct(&r, false)) }
                "vec" => { let names = unhex_list(field(&p, "names").unwrap()); let arg = field(&p, "arg").unwrap().to_string(); let op = field(&p, "op").unwrap().to_string();
                    let pre: Vec<Vec<String>> = field(&p, "pre").map(|s| s.split('/').map(unhex_list).collect()).unwrap_or_default();
                    class(move || { let v = AnyVec::new("countervec", &names, &[])?;
                        for a in &pre { let _ = v.with(&a.iter().map(|s| s.as_str()).collect::<Vec<_>>()); }
                        match op.as_str() { "with" => { let a = unhex_list(&arg); v.with(&a.iter().map(|s| s.as_str()).collect::<Vec<_>>()).map(|_| ()) } "rm" => { let a = unhex_list(&arg); v.rm(&a.iter().map(|s| s.as_str()).collect::<Vec<_>>()) }
                            "withmap" => { let m = parse_pairs(&arg); let hm: HashMap<&str, &str> = m.iter().map(|(k, v)| (k.as_str(), v.as_str())).collect(); v.with_map(&hm).map(|_| ()) }
                            _ => { let m = parse_pairs(&arg); let hm: HashMap<&str, &str> = m.iter().map(|(k, v)| (k.as_str(), v.as_str())).collect(); v.rm_map(&hm) } } }) }
                "newcustom" => { let pr = field(&p, "prefix").unwrap(); let l = field(&p, "labels").unwrap();
                    let pr = if pr == "none" { None } else { Some(unhex_list(pr)[0].clone()) }; let l: Option<HashMap<String, String>> = if l == "none" { None } else { Some(parse_pairs(l).into_iter().collect()) };
                    class(move || Registry::new_custom(pr, l)) }
                "escape" => { let s = unhex_list(p[3])[0].clone(); let quote = p[2] == "1";
                    class(move || { let mut f = mk_family("counter", "m", 1); if quote { let mut lp = proto::LabelPair::default(); lp.set_name("l".into()); lp.set_value(s.clone()); f.mut_metric()[0].set_label(vec![lp]); } else { f.set_help(s.clone()); }
                        TextEncoder::new().encode_to_string(&[f]) }) }
                "encode" => { let fams = field(&p, "fams").unwrap(); let fl: Vec<MetricFamily> = if fams == "-" { vec![] } else { fams.split(';').map(|s| { let q: Vec<&str> = s.split('/').collect(); mk_family(q[0], &unhex_list(q[1])[0], q[2].parse().unwrap()) }).collect() };
                    let text = field(&p, "kind") == Some("text"); let fail = field(&p, "writer") == Some("fail");
                    class(move || { if fail { let mut w = FailWriter; if text { TextEncoder::new().encode(&fl, &mut w) } else { ProtobufEncoder::new().encode(&fl, &mut w) } } else { let mut w = Vec::new(); if text { TextEncoder::new().encode(&fl, &mut w) } else { ProtobufEncoder::new().encode(&fl, &mut w) } } }) }
                _ => "bad-op".into(),
            };
            // ---- oracle for the vector lookups (independent of the model): a request is well-formed exactly when it gives one value per
            // declared label (map form: exactly the declared names); everything else is invalid input and must be refused with Err
            if p[1] == "vec" { let names = unhex_list(field(&p, "names").unwrap()); let arg = field(&p, "arg").unwrap(); let op = field(&p, "op").unwrap();
                let wellformed = if op == "with" || op == "rm" { unhex_list(arg).len() == names.len() } else { let m = parse_pairs(arg); m.len() == names.len() && names.iter().all(|n| m.iter().any(|kv| &kv.0 == n)) };
                let pre: Vec<Vec<String>> = field(&p, "pre").map(|s| s.split('/').map(unhex_list).collect()).unwrap_or_default();
                // a removal succeeds exactly when it is well-formed and names a child created before (a fresh vector holds none)
                let exists = wellformed && if op == "rm" { pre.contains(&unhex_list(arg)) } else if op == "rmmap" { let m = parse_pairs(arg); let vals: Vec<String> = names.iter().map(|n| m.iter().find(|kv| &kv.0 == n).map(|kv| kv.1.clone()).unwrap_or_default()).collect(); pre.contains(&vals) } else { false };
                let want = if ((op == "with" || op == "withmap") && wellformed) || exists { "ok" } else { "err" };
                if out != "panic" && out != want { fails.push(Failure { class: "invalid-input-accepted".into(), detail: format!("{} returned {}, expected {} (declared labels {:?})", line, out, want, names) }); } }
            // ---- the same for bucket lists: valid exactly when the bounds (an empty list means the defaults; a trailing +Inf counts) are
            // strictly increasing NUMBERS (-0.0 and 0.0 are the same number; NaN is none)
            if p[1] == "buckets" { let b = f64_parse_list(p[2]);
                let valid = b.iter().all(|x| !x.is_nan()) && b.windows(2).all(|w| w[0] < w[1]);
                let want = if valid { "ok" } else { "err" };
                if out != "panic" && out != want { fails.push(Failure { class: "invalid-input-accepted".into(), detail: format!("{} returned {}, expected {}", line, out, want) }); } }
            stats.hit(&format!("outcome:{}", out));
            if out == "panic" { fails.push(Failure { class: "panic".into(), detail: format!("a Result-returning API panicked: {}", line) }); }
            stats.seen(&[line.clone()], out == "err");
            outs.push(out);
        }
        ExecOut { outs, fails, model_lines: None }
    }
}
