//! area `c16` (C16): the same scenario script through the default (protobuf) build - this binary -
//! and through `pv-plain` (built with `default-features = false`); gather structure and text bytes
//! must be identical, and both must equal the Lean model's.
use crate::c16::{pairs_str, run_case};
use crate::rng::Rng;
use crate::util::*;
use crate::{Area, ExecOut, Failure};
use std::io::Write;
use std::process::{Command, Stdio};

pub struct C16Area;

fn plain_bin() -> String {
    std::env::var("PV_PLAIN").unwrap_or_else(|_| { let me = std::env::current_exe().unwrap(); me.parent().unwrap().parent().unwrap().parent().unwrap().parent().unwrap().join("harness-plain/target/debug/pv-plain").to_string_lossy().to_string() })
}

fn gen_def(rng: &mut Rng, cid: usize, stats: &mut Stats) -> String {
    let kind = *rng.pick(&["counter", "intcounter", "gauge", "intgauge", "histogram", "pulling", "countervec", "gaugevec", "histogramvec", "custom"]);
    // names carry the kind group so that collectors of different kinds never share a name (K2 is C14's subject)
    let group = match kind { "counter" | "intcounter" | "countervec" => "c", "histogram" | "histogramvec" => "h", "custom" => "u", _ => "g" };   // a custom collector shares its name with no other collector
    let name = format!("{}_{}", rng.pick(&["m", "req:total", "x"]), group);
    let help = *rng.pick(&["h", "help \\ \"q\" \n é", "日本"]);
    let mut consts: Vec<(String, String)> = vec![];
    for (k, vs) in [("k", ["1", "2", ""]), ("z", ["é\n", "a\"b", "\\"])] { if rng.chance(40) { consts.push((k.to_string(), rng.pick(&vs).to_string())); } }
    stats.hit(&format!("def:{}", kind));
    let vals = [0.0, 1.0, 2.5, 1e21, 0.1, 123456789.0, -0.0, -1.5];
    match kind {
        // a descriptor-less custom collector handing out 2-3 counter samples of ONE name and label set that differ only in their timestamp
        // (never set / set to 0 / set to another value): gather orders them by timestamp alone
        "custom" => {
            let n = 2 + rng.below(2); let mut tss = vec!["none", "0", "5", "-7", "none", "0"]; let mut subs = vec![];
            for i in 0..n { let k = rng.below(tss.len()); let ts = tss.remove(k); subs.push(format!("sub={}/{}/{}/{}/{}", hex(&name), hex(help), pairs_str(&consts), f64_hex((i + 1) as f64), ts)); }
            format!("c16 def c{} kind=custom name={} help={} consts=- vars=- {} nodesc=1", cid, hex(&name), hex(help), subs.join(" ")) }
        "pulling" => format!("c16 def c{} kind=pulling name={} help={} consts=- vars=- val={}", cid, hex(&name), hex(help), f64_hex(*rng.pick(&vals))),
        "countervec" | "gaugevec" | "histogramvec" => {
            let vars: Vec<String> = if rng.chance(50) { vec!["l".into()] } else { vec!["l".into(), "b".into()] };
            let pool = ["", "a", "b\n", "\"q\"", "é", "10", "9"]; let mut seen = std::collections::BTreeSet::new(); let mut ch = vec![];
            for _ in 0..rng.below(4) { let t: Vec<String> = vars.iter().map(|_| rng.pick(&pool).to_string()).collect(); if seen.insert(t.clone()) { ch.push(hex_list(&t)); } }
            format!("c16 def c{} kind={} name={} help={} consts={} vars={} children={}", cid, kind, hex(&name), hex(help), pairs_str(&consts), hex_list(&vars), if ch.is_empty() { "none".to_string() } else { ch.join(";") }) }
        "histogram" => format!("c16 def c{} kind=histogram name={} help={} consts={} vars=- obs={}", cid, hex(&name), hex(help), pairs_str(&consts), f64_list(&(0..rng.below(4)).map(|_| *rng.pick(&[0.25, 0.5, 1.0, 3.0])).collect::<Vec<_>>())),
        _ => format!("c16 def c{} kind={} name={} help={} consts={} vars=- val={}", cid, kind, hex(&name), hex(help), pairs_str(&consts), f64_hex(if kind.starts_with("int") { rng.below(9) as f64 } else if kind == "counter" { *rng.pick(&vals[..7]) } else { *rng.pick(&vals) })),   // a counter cannot be decreased
    }
}

impl Area for C16Area {
    fn corpus(&self) -> Vec<Vec<String>> {
        let s = |x: &[&str]| x.iter().map(|l| l.to_string()).collect::<Vec<String>>();
        vec![s(&["c16 new prefix=70 labels=636c7573746572:65750a,6161:31", "c16 def c0 kind=countervec name=6d5f63 help=68 consts=6b:31 vars=6d6574686f64 children=676574;706f7374", "c16 def c1 kind=histogram name=785f68 help=68 consts=- vars=- obs=3fd0000000000000,4008000000000000", "c16 register c0", "c16 register c1", "c16 gather"]),
             s(&["c16 new prefix=none labels=none", "c16 raw name=726177 help=none type=none label=yes lname=6c lval=none cv=3ff0000000000000 gv=none ts=none", "c16 raw name=726177 help=68 type=gauge label=no lname=none lval=none cv=none gv=none ts=5", "c16 raw name=none help=68 type=counter label=yes lname=none lval=76 cv=none gv=4008000000000000 ts=none"])]
    }
    fn gen(&self, rng: &mut Rng, _thorough: bool, stats: &mut Stats) -> Vec<String> {
        let prefix = if rng.chance(65) { "none".to_string() } else { hex_list(&[rng.pick(&["p", "ns:x"])]) };
        let labels = if rng.chance(50) { "none".to_string() } else { let pool = [("zone", "eu\n"), ("aa", "1"), ("mm", "\"x\""), ("cluster", "c")]; let mut v = vec![]; for (k, val) in pool.iter() { if rng.chance(45) { v.push((k.to_string(), val.to_string())); } } rng.shuffle(&mut v); pairs_str(&v) };
        let mut lines = vec![format!("c16 new prefix={} labels={}", prefix, labels)];
        let ndef = rng.range(1, 5);
        for i in 0..ndef { lines.push(gen_def(rng, i, stats)); }
        for _ in 0..rng.range(2, 10) { let c = rng.below(ndef); match rng.below(10) { 0..=6 => lines.push(format!("c16 register c{}", c)), 7 => lines.push(format!("c16 unregister c{}", c)), _ => lines.push("c16 gather".into()) } }
        lines.push("c16 gather".into());
        // hand-built families with unset fields (defaults of the two data models)
        for _ in 0..rng.below(3) {
            let o = |rng: &mut Rng, pool: &[&str]| -> String { if rng.chance(35) { "none".to_string() } else { hex_list(&[rng.pick(pool)]) } };
            let name = if rng.chance(15) { "none".to_string() } else { hex_list(&[rng.pick(&["raw", "r:x", "raw", ""])]) };   // "" = a name that is present but empty
            let ty = *rng.pick(&["counter", "gauge", "none", "none"]);
            let (cv, gv) = match rng.below(4) { 3 => (f64_hex(*rng.pick(&[1.0, 2.5])), f64_hex(*rng.pick(&[3.0, -1.0]))), /* both value kinds set on one Metric */ 0 => (f64_hex(*rng.pick(&[1.0, 2.5, 0.0, -0.0])), "none".to_string()), 1 => ("none".to_string(), f64_hex(*rng.pick(&[3.0, -1.0, -0.0, 0.0]))), _ => ("none".to_string(), "none".to_string()) };
            let label = rng.chance(50);
            stats.hit("raw-family");
            lines.push(format!("c16 raw name={} help={} type={} label={} lname={} lval={} cv={} gv={} ts={}", name, o(rng, &["h", "é\n"]), ty, if label { "yes" } else { "no" }, o(rng, &["l", "k"]), o(rng, &["v", "\"q\""]), cv, gv, rng.pick(&["none", "none", "5", "-7", "0"])));
        }
        lines
    }
    fn exec(&self, lines: &[String], stats: &mut Stats) -> ExecOut {
        let r = run_case(lines);
        let outs: Vec<String> = r.iter().map(|x| x.0.clone()).collect();
        let model_lines: Vec<String> = r.iter().map(|x| x.1.clone()).collect();
        let mut fails = vec![];
        // the other build
        let child = Command::new(plain_bin()).stdin(Stdio::piped()).stdout(Stdio::piped()).spawn();
        match child {
            Err(e) => fails.push(Failure { class: "harness-panic".into(), detail: format!("cannot run pv-plain: {}", e) }),
            Ok(mut ch) => {
                { let mut si = ch.stdin.take().unwrap(); for l in lines { writeln!(si, "{}", l).unwrap(); } }
                let o = ch.wait_with_output().unwrap();
                let plain: Vec<String> = String::from_utf8_lossy(&o.stdout).lines().map(|s| s.to_string()).collect();
                stats.hit("compared-with-plain-build");
                if plain != outs {
                    let k = (0..outs.len().max(plain.len())).find(|i| outs.get(*i) != plain.get(*i)).unwrap_or(0);
                    fails.push(Failure { class: "feature-dependent-output".into(), detail: format!("request `{}`: default build -> {:?} ; --no-default-features build -> {:?}", lines.get(k).cloned().unwrap_or_default(), outs.get(k), plain.get(k)) });
                }
            }
        }
        stats.seen(lines, outs.iter().any(|o| o.contains(';') || o.contains(" | ")));
        ExecOut { outs, fails, model_lines: Some(model_lines) }
    }
}
