pub mod hist;
pub mod desc;
pub mod vec;
pub mod reg;
pub mod local;
pub mod timer;
pub mod fall;
use crate::Area;
pub fn lookup(name: &str) -> Option<Box<dyn Area>> {
    match name {
        "hist" => Some(Box::new(hist::HistArea)),
        "desc" => Some(Box::new(desc::DescArea)),
        "vec" => Some(Box::new(vec::VecArea)),
        "reg" => Some(Box::new(reg::RegArea)),
        "local" => Some(Box::new(local::LocalArea)),
        "timer" => Some(Box::new(timer::TimerArea)),
        "fall" => Some(Box::new(fall::FallArea)),
        _ => None,
    }
}
