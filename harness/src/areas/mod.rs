pub mod hist;
pub mod desc;
pub mod vec;
pub mod reg;
use crate::Area;
pub fn lookup(name: &str) -> Option<Box<dyn Area>> {
    match name {
        "hist" => Some(Box::new(hist::HistArea)),
        "desc" => Some(Box::new(desc::DescArea)),
        "vec" => Some(Box::new(vec::VecArea)),
        "reg" => Some(Box::new(reg::RegArea)),
        _ => None,
    }
}
