pub mod hist;
use crate::Area;
pub fn lookup(name: &str) -> Option<Box<dyn Area>> {
    match name {
        "hist" => Some(Box::new(hist::HistArea)),
        _ => None,
    }
}
