pub mod hist;
pub mod desc;
pub mod vec;
pub mod reg;
pub mod local;
pub mod timer;
pub mod fall;
pub mod conc;
pub mod text;
pub mod pb;
pub mod c16;
pub mod macros;
pub mod macro_sites;
use crate::Area;
pub fn lookup(name: &str) -> Option<Box<dyn Area>> {
    match name {
        "hist" => Some(Box::new(hist::HistArea)),
        "desc" => Some(Box::new(desc::DescArea)),
        "vec" => Some(Box::new(vec::VecArea)),
        "reg" => Some(Box::new(reg::RegArea)),
        "local" => Some(Box::new(local::LocalArea)),
        "timer" => Some(Box::new(timer::TimerArea)),
        "fall" => Some(Box::new(fall::FallArea)),
        "text" => Some(Box::new(text::TextArea)),
        "pb" => Some(Box::new(pb::PbArea)),
        "c16" => Some(Box::new(c16::C16Area)),
        "macro" => Some(Box::new(macros::MacroArea)),
        "catom" => Some(Box::new(conc::ConcAtomic { kinds: &["counter", "intcounter", "gauge", "intgauge"] })),
        "catomc" => Some(Box::new(conc::ConcAtomic { kinds: &["counter", "intcounter"] })),
        "catomg" => Some(Box::new(conc::ConcAtomic { kinds: &["gauge", "intgauge"] })),
        "cvec" => Some(Box::new(conc::ConcVec)),
        "chist" => Some(Box::new(conc::ConcHist)),
        "creg" => Some(Box::new(conc::ConcReg)),
        _ => None,
    }
}
