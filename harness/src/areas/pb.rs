//! area `pb` (C13): ProtobufEncoder output vs the table-driven Lean writer, byte for byte, and the
//! schema-driven Lean decoder applied to the REAL bytes.
use crate::areas::text::{build, gen_fam, parse_fams, show_fams, show_fams_exact, Fam, Smp, Val};
use crate::rng::Rng;
use crate::util::*;
use crate::{Area, ExecOut, Failure};
use prometheus::proto::MetricFamily;
use prometheus::*;

pub struct PbArea;

/// a writer that accepts at most `max` bytes per `write` call (as pipes, sockets and `LineWriter`s may),
/// and nothing at all once `cap` bytes have been taken (a full fixed-size buffer)
struct Chunky { got: Vec<u8>, max: usize, cap: usize }
impl std::io::Write for Chunky {
    fn write(&mut self, b: &[u8]) -> std::io::Result<usize> { let n = b.len().min(self.max).min(self.cap - self.got.len()); self.got.extend_from_slice(&b[..n]); Ok(n) }
    fn flush(&mut self) -> std::io::Result<()> { Ok(()) }
}

impl Area for PbArea {
    fn corpus(&self) -> Vec<Vec<String>> {
        let s = |l: Vec<(&str, &str)>, v: Val, ts: i64| Smp { labels: l.into_iter().map(|(a, b)| (a.to_string(), b.to_string())).collect(), val: v, ts };
        let mk = |fams: Vec<Fam>, pre: &str| vec![format!("pb enc pre={} fams={}", hex_list(&[pre]), show_fams(&fams, false))];
        vec![
            mk(vec![Fam { name: "m".into(), help: "é\n\"\\".into(), ty: "counter".into(), samples: vec![s(vec![("l", "日\u{0}")], Val::C(-0.0), 0), s(vec![], Val::C(f64::from_bits(0x7ff0000000000001)), -5)] },
                    Fam { name: "h".into(), help: "".into(), ty: "histogram".into(), samples: vec![s(vec![("a", "1")], Val::H(300, 0.25, vec![(0.005, 0), (1.0, 300), (f64::INFINITY, 300)]), 1234567890123)] }], "x"),
            mk(vec![Fam { name: "s".into(), help: "h".into(), ty: "summary".into(), samples: vec![s(vec![], Val::S(u64::MAX, f64::NAN, vec![(0.5, 3.0)]), 0)] }, Fam { name: "".into(), help: "h".into(), ty: "gauge".into(), samples: vec![s(vec![], Val::G(1.0), 0)] }], ""),
        ]
    }
    fn gen(&self, rng: &mut Rng, _thorough: bool, stats: &mut Stats) -> Vec<String> {
        let nf = rng.range(1, 3);
        let mut fams: Vec<Fam> = (0..nf).map(|i| gen_fam(rng, stats, i)).collect();
        if rng.chance(5) { let i = rng.below(fams.len()); fams[i].name = String::new(); stats.hit("family:no-name"); }
        for f in fams.iter_mut() { for s in f.samples.iter_mut() { if let Val::H(c, _, b) = &mut s.val { if rng.chance(20) { *c = *rng.pick(&[127, 128, 16383, 16384, u64::MAX, 1 << 35]); for x in b.iter_mut() { x.1 = *c; } } } } }
        let pre = if rng.chance(30) { "pre" } else { "" };
        vec![format!("pb enc pre={} fams={}", hex_list(&[pre]), show_fams(&fams, false))]
    }
    fn exec(&self, lines: &[String], stats: &mut Stats) -> ExecOut {
        let mut outs = vec![]; let mut fails: Vec<Failure> = vec![]; let mut model_lines = vec![];
        for line in lines {
            let p: Vec<&str> = line.split(' ').collect();
            let pre = unhex_list(field(&p, "pre").unwrap())[0].clone(); let fams = parse_fams(field(&p, "fams").unwrap());
            let mfs: Vec<MetricFamily> = fams.iter().map(build).collect();
            let mut w: Vec<u8> = pre.as_bytes().to_vec();
            let r = ProtobufEncoder::new().encode(&mfs, &mut w);
            // ---- oracle: refused exactly when a family has no name or no samples
            let want_err = fams.iter().any(|f| f.name.is_empty() || f.samples.is_empty());
            if r.is_err() != want_err { fails.push(Failure { class: "refusal-wrong".into(), detail: format!("encode returned {:?}-ness {} but a family without name/samples present = {}; {}", r.is_ok(), r.is_ok(), want_err, line) }); }
            if !w.starts_with(pre.as_bytes()) { fails.push(Failure { class: "not-append-only".into(), detail: line.clone() }); }
            // ---- oracle: the stream does not depend on how the writer takes the bytes; a writer that stops taking bytes is an error, never a silent truncation
            let body = &w[pre.len()..];
            let mut ch = Chunky { got: vec![], max: 7, cap: usize::MAX };
            let rc = ProtobufEncoder::new().encode(&mfs, &mut ch);
            if rc.is_ok() != r.is_ok() || (r.is_ok() && ch.got != body) { fails.push(Failure { class: "writer-dependent-stream".into(), detail: format!("a writer taking 7 bytes per call received {} bytes (Ok = {}), a Vec received {} (Ok = {}); {}", ch.got.len(), rc.is_ok(), body.len(), r.is_ok(), line) }); }
            if r.is_ok() && body.len() > 1 { let mut full = Chunky { got: vec![], max: usize::MAX, cap: body.len() - 1 }; let rf = ProtobufEncoder::new().encode(&mfs, &mut full);
                if rf.is_ok() { fails.push(Failure { class: "writer-dependent-stream".into(), detail: format!("a writer that is full after {} of {} bytes: encode returned Ok (silent truncation); {}", body.len() - 1, body.len(), line) }); } }
            stats.hit("short-writer-checked");
            stats.hit(if r.is_ok() { "encode:ok" } else { "encode:err" });
            model_lines.push(line.clone());
            outs.push(format!("{} {}", if r.is_ok() { "ok" } else { "err" }, hex_bytes(&w)));
            stats.seen(&[line.clone()], r.is_ok() && fams.iter().any(|f| f.samples.iter().any(|s| !s.labels.is_empty())));
            if r.is_ok() {
                // the schema-driven Lean decoder is applied to the REAL bytes
                stats.hit("decode-checked");
                model_lines.push(format!("pb dec {}", hex_bytes(&w[pre.len()..])));
                outs.push(show_fams_exact(&fams).replace("n:", "u:0000000000000000"));
                // second phase: mutate the SAME family objects (their encoded size changes) and encode them again
                let mut mfs2 = mfs; let mut fams2 = fams.clone();
                for (mf, f) in mfs2.iter_mut().zip(fams2.iter_mut()) {
                    for (m, s) in mf.mut_metric().iter_mut().zip(f.samples.iter_mut()) {
                        let mut l = m.take_label(); let mut lp = prometheus::proto::LabelPair::default(); lp.set_name("zz".into()); lp.set_value("again".into()); l.push(lp); m.set_label(l);
                        s.labels.push(("zz".into(), "again".into()));
                    }
                    let h = format!("{}+", f.help); mf.set_help(h.clone()); f.help = h;
                }
                let mut w2: Vec<u8> = vec![];
                let r2 = ProtobufEncoder::new().encode(&mfs2, &mut w2);
                stats.hit("re-encode-after-mutation");
                model_lines.push(format!("pb enc pre=~ fams={}", show_fams(&fams2, false)));
                outs.push(format!("{} {}", if r2.is_ok() { "ok" } else { "err" }, hex_bytes(&w2)));
                if r2.is_ok() { model_lines.push(format!("pb dec {}", hex_bytes(&w2))); outs.push(show_fams_exact(&fams2).replace("n:", "u:0000000000000000")); }
            }
        }
        ExecOut { outs, fails, model_lines: Some(model_lines) }
    }
}
