//! area `text` (C04): TextEncoder output vs the Lean encoder model, byte for byte, and the
//! Lean text-format reader applied to the REAL bytes (round trip).
use crate::areas::vec::pairs_str;
use crate::rng::Rng;
use crate::util::*;
use crate::{Area, ExecOut, Failure};
use prometheus::proto::{self, MetricFamily, MetricType};
use prometheus::*;
use std::collections::BTreeMap;

pub struct TextArea;

#[derive(Clone, Debug)]
pub enum Val { C(f64), G(f64), H(u64, f64, Vec<(f64, u64)>), S(u64, f64, Vec<(f64, f64)>), None }
#[derive(Clone, Debug)]
pub struct Smp { pub labels: Vec<(String, String)>, pub val: Val, pub ts: i64 }
#[derive(Clone, Debug)]
pub struct Fam { pub name: String, pub help: String, pub ty: String, pub samples: Vec<Smp> }

pub fn show_val(v: &Val, canon: bool) -> String {
    let f = |x: f64| f64_show(x);
    match v {
        Val::C(x) => format!("c:{}", f(*x)), Val::G(x) => format!("g:{}", f(*x)), Val::None => "n:".into(),
        Val::H(c, s, b) => { let mut b: Vec<(f64, u64)> = b.clone(); if canon && !b.iter().any(|x| x.0 == f64::INFINITY) { b.push((f64::INFINITY, *c)); }
            format!("h:{}/{}/{}", c, f(*s), if b.is_empty() { "-".to_string() } else { b.iter().map(|x| format!("{}~{}", f(x.0), x.1)).collect::<Vec<_>>().join(",") }) }
        Val::S(c, s, q) => format!("s:{}/{}/{}", c, f(*s), if q.is_empty() { "-".to_string() } else { q.iter().map(|x| format!("{}~{}", f(x.0), f(x.1))).collect::<Vec<_>>().join(",") }),
    }
}
/// request form uses raw bits (NaN payloads kept); canonical form identifies NaNs
pub fn show_val_raw(v: &Val) -> String {
    let f = |x: f64| f64_hex(x);
    match v {
        Val::C(x) => format!("c:{}", f(*x)), Val::G(x) => format!("g:{}", f(*x)), Val::None => "n:".into(),
        Val::H(c, s, b) => format!("h:{}/{}/{}", c, f(*s), if b.is_empty() { "-".to_string() } else { b.iter().map(|x| format!("{}~{}", f(x.0), x.1)).collect::<Vec<_>>().join(",") }),
        Val::S(c, s, q) => format!("s:{}/{}/{}", c, f(*s), if q.is_empty() { "-".to_string() } else { q.iter().map(|x| format!("{}~{}", f(x.0), f(x.1))).collect::<Vec<_>>().join(",") }),
    }
}
pub fn show_fams(fams: &[Fam], canon: bool) -> String {
    if fams.is_empty() { return "-".into(); }
    fams.iter().map(|f| format!("{}^{}^{}^{}", hex_list(&[&f.name]), hex_list(&[&f.help]), if canon && f.ty == "unset" { "counter" } else { f.ty.as_str() },
        if f.samples.is_empty() { "-".to_string() } else { f.samples.iter().map(|s| format!("{}={}@{}", pairs_str(&s.labels), if canon { show_val(&s.val, true) } else { show_val_raw(&s.val) }, s.ts)).collect::<Vec<_>>().join(";") })).collect::<Vec<_>>().join("|")
}
/// families with NaNs identified but nothing else canonicalised (what a lossless decoder returns)
pub fn show_fams_exact(fams: &[Fam]) -> String {
    if fams.is_empty() { return "-".into(); }
    fams.iter().map(|f| format!("{}^{}^{}^{}", hex_list(&[&f.name]), hex_list(&[&f.help]), f.ty,
        if f.samples.is_empty() { "-".to_string() } else { f.samples.iter().map(|s| format!("{}={}@{}", pairs_str(&s.labels), show_val(&s.val, false), s.ts)).collect::<Vec<_>>().join(";") })).collect::<Vec<_>>().join("|")
}
pub fn parse_fams(s: &str) -> Vec<Fam> {
    if s == "-" { return vec![]; }
    s.split('|').map(|f| { let p: Vec<&str> = f.split('^').collect();
        Fam { name: unhex_list(p[0])[0].clone(), help: unhex_list(p[1])[0].clone(), ty: p[2].to_string(),
              samples: if p[3] == "-" { vec![] } else { p[3].split(';').map(|s| { let (ps, rest) = s.split_once('=').unwrap(); let (v, ts) = rest.rsplit_once('@').unwrap();
                  Smp { labels: crate::areas::vec::parse_pairs(ps), ts: ts.parse().unwrap(), val: parse_val(v) } }).collect() } } }).collect()
}
fn parse_val(v: &str) -> Val {
    let (k, r) = v.split_once(':').unwrap();
    match k {
        "c" => Val::C(f64_parse(r)), "g" => Val::G(f64_parse(r)), "n" => Val::None,
        "h" => { let q: Vec<&str> = r.split('/').collect(); Val::H(q[0].parse().unwrap(), f64_parse(q[1]), if q[2] == "-" { vec![] } else { q[2].split(',').map(|x| { let (a, b) = x.split_once('~').unwrap(); (f64_parse(a), b.parse().unwrap()) }).collect() }) }
        _ => { let q: Vec<&str> = r.split('/').collect(); Val::S(q[0].parse().unwrap(), f64_parse(q[1]), if q[2] == "-" { vec![] } else { q[2].split(',').map(|x| { let (a, b) = x.split_once('~').unwrap(); (f64_parse(a), f64_parse(b)) }).collect() }) }
    }
}
pub fn build(f: &Fam) -> MetricFamily {
    let mut mf = MetricFamily::default();
    mf.set_name(f.name.clone()); mf.set_help(f.help.clone());
    // "unset": the type field is never written; it reads as its proto2 default, COUNTER, in both data models
    if f.ty != "unset" { mf.set_field_type(match f.ty.as_str() { "counter" => MetricType::COUNTER, "gauge" => MetricType::GAUGE, "summary" => MetricType::SUMMARY, "untyped" => MetricType::UNTYPED, _ => MetricType::HISTOGRAM }); }
    mf.set_metric(f.samples.iter().map(|s| { let mut m = proto::Metric::default();
        m.set_label(s.labels.iter().map(|(k, v)| { let mut lp = proto::LabelPair::default(); lp.set_name(k.clone()); lp.set_value(v.clone()); lp }).collect());
        if s.ts != 0 { m.set_timestamp_ms(s.ts); }
        match &s.val {
            Val::C(x) => { let mut c = proto::Counter::default(); c.set_value(*x); m.set_counter(c) } Val::G(x) => { let mut g = proto::Gauge::default(); g.set_value(*x); m.set_gauge(g) }
            Val::H(c, sum, b) => { let mut h = proto::Histogram::default(); h.set_sample_count(*c); h.set_sample_sum(*sum); h.set_bucket(b.iter().map(|(ub, n)| { let mut bk = proto::Bucket::default(); bk.set_upper_bound(*ub); bk.set_cumulative_count(*n); bk }).collect()); m.set_histogram(h) }
            Val::S(c, sum, q) => { let mut su = proto::Summary::default(); su.set_sample_count(*c); su.set_sample_sum(*sum); su.set_quantile(q.iter().map(|(a, b)| { let mut qq = proto::Quantile::default(); qq.set_quantile(*a); qq.set_value(*b); qq }).collect()); m.set_summary(su) }
            Val::None => {}
        }
        m }).collect());
    mf
}
/// every f64 the encoder may format for these families, with Rust's own text
pub fn fmt_table(fams: &[Fam]) -> String {
    let mut t: BTreeMap<u64, String> = BTreeMap::new();
    let mut add = |x: f64| { t.insert(x.to_bits(), x.to_string()); };
    add(0.0);
    for f in fams { for s in &f.samples { match &s.val {
        Val::C(x) | Val::G(x) => add(*x), Val::None => {}
        Val::H(c, sum, b) => { add(*c as f64); add(*sum); for (ub, n) in b { add(*ub); add(*n as f64); } }
        Val::S(c, sum, q) => { add(*c as f64); add(*sum); for (a, b) in q { add(*a); add(*b); } } } } }
    t.iter().map(|(b, s)| format!("{:016x}:{}", b, hex_list(&[s]))).collect::<Vec<_>>().join(",")
}

const CH: &[&str] = &["a", "b", " ", "\\", "\"", "\n", "\r", "\u{0}", "é", "日", "\u{10ffff}", "n", "\\n", "ß", "=", ",", "{", "}", "#"];
fn gen_text(rng: &mut Rng, max: usize) -> String { let n = rng.below(max + 1); (0..n).map(|_| *rng.pick(CH)).collect() }
pub fn float_pool() -> Vec<f64> { vec![0.0, -0.0, 1.0, -1.0, 0.1, 0.25, 42.0, 1e21, 1.5e-7, 5e-324, f64::MIN_POSITIVE, 2.2250738585072011e-308, 9007199254740992.0, 9007199254740993.0, 1.2e19, f64::MAX, -f64::MAX, f64::INFINITY, f64::NEG_INFINITY, f64::NAN, f64::from_bits(0x7ff0000000000001), 123456.789, 1e300, 0.30000000000000004] }

pub fn gen_fam(rng: &mut Rng, stats: &mut Stats, idx: usize) -> Fam {
    let ty = *rng.pick(&["counter", "gauge", "histogram", "summary", "counter", "gauge", "histogram", "untyped"]);
    let fp = float_pool();
    let name = format!("{}{}", rng.pick(&["m", "req_total", "a:b", "_x9"]), idx);
    let help = if rng.chance(15) { String::new() } else if rng.chance(4) { stats.hit("help:leading-blank"); format!(" {}", gen_text(rng, 3)) } else { let h = gen_text(rng, 6); if h.starts_with(' ') || h.starts_with('\t') { format!("h{}", h) } else { h } };
    let ns = if rng.chance(6) { 0 } else { rng.range(1, 3) };
    let lnames = ["l", "le2", "a_b", "_z"]; let nl = rng.below(4);
    let samples = (0..ns).map(|_| {
        let labels: Vec<(String, String)> = (0..nl).map(|i| (lnames[i].to_string(), gen_text(rng, 4))).collect();
        let cnt = if rng.chance(3) { stats.hit("count:above-2^53"); (1u64 << 53) + 1 } else { rng.below(50) as u64 };
        let val = if rng.chance(4) { stats.hit("slot:mismatch"); Val::None } else { match ty {
            "counter" => Val::C(*rng.pick(&fp)), "gauge" => Val::G(*rng.pick(&fp)), "untyped" => Val::None,
            "histogram" => { let nb = rng.below(5); let mut b: Vec<(f64, u64)> = (0..nb).map(|i| (*rng.pick(&[0.005, 0.1, 1.0, 2.5, 10.0, -1.0, 1e9, f64::NEG_INFINITY]), (i as u64 + 1) * 2)).collect(); if rng.chance(25) { b.push((f64::INFINITY, cnt)); } Val::H(cnt, *rng.pick(&fp), b) }
            _ => { let nq = rng.below(4); Val::S(cnt, *rng.pick(&fp), (0..nq).map(|_| (*rng.pick(&[0.5, 0.9, 0.99]), *rng.pick(&fp))).collect()) } } };
        Smp { labels, val, ts: *rng.pick(&[0, 0, 0, 1234567890123, -5]) } }).collect();
    Fam { name, help, ty: ty.to_string(), samples }
}

fn wf(f: &Fam) -> bool {
    !f.help.starts_with(' ') && !f.help.starts_with('\t') && f.ty != "untyped" && !f.samples.is_empty() && f.samples.iter().all(|s| match (&s.val, f.ty.as_str()) {
        (Val::C(_), "counter") | (Val::C(_), "unset") | (Val::G(_), "gauge") => true,
        (Val::H(c, _, b), "histogram") => *c < (1 << 53) && b.iter().all(|x| x.1 < (1 << 53)),
        (Val::S(c, _, _), "summary") => *c < (1 << 53), _ => false })
}

impl Area for TextArea {
    fn corpus(&self) -> Vec<Vec<String>> {
        let mk = |fams: Vec<Fam>, pre: &str| vec![format!("text enc pre={} fams={} fmt={}", hex_list(&[pre]), show_fams(&fams, false), fmt_table(&fams))];
        let s = |l: Vec<(&str, &str)>, v: Val, ts: i64| Smp { labels: l.into_iter().map(|(a, b)| (a.to_string(), b.to_string())).collect(), val: v, ts };
        vec![
            mk(vec![Fam { name: "m".into(), help: "C:\\srv\\data\r\n \"q\" é".into(), ty: "counter".into(), samples: vec![s(vec![("l", "C:\\srv\\data\r\n\"x\" 日")], Val::C(-0.0), 0), s(vec![("l", "")], Val::C(1.2e19), -5)] }], "x"),
            mk(vec![Fam { name: "h".into(), help: "".into(), ty: "histogram".into(), samples: vec![s(vec![("a", "1")], Val::H(3, 0.25, vec![(0.005, 0), (1.0, 3)]), 0), s(vec![], Val::H(2, f64::NAN, vec![(f64::INFINITY, 2)]), 7)] },
                    Fam { name: "s".into(), help: "sum\\nmary".into(), ty: "summary".into(), samples: vec![s(vec![], Val::S(5, 15.0, vec![(0.5, 3.0), (0.99, f64::INFINITY)]), 0)] }], ""),
            mk(vec![Fam { name: "g".into(), help: "h".into(), ty: "gauge".into(), samples: vec![s(vec![], Val::G(f64::NEG_INFINITY), 0)] }, Fam { name: "u".into(), help: "h".into(), ty: "untyped".into(), samples: vec![s(vec![], Val::None, 0)] }], "pre\n"),
        ]
    }
    fn gen(&self, rng: &mut Rng, _thorough: bool, stats: &mut Stats) -> Vec<String> {
        let nf = rng.range(1, 3);
        let mut fams: Vec<Fam> = (0..nf).map(|i| gen_fam(rng, stats, i)).collect();
        for f in fams.iter_mut() { if f.ty == "counter" && rng.chance(12) { f.ty = "unset".into(); } }
        let pre = if rng.chance(30) { "# pre\n" } else { "" };
        vec![format!("text enc pre={} fams={} fmt={}", hex_list(&[pre]), show_fams(&fams, false), fmt_table(&fams))]
    }
    fn exec(&self, lines: &[String], stats: &mut Stats) -> ExecOut {
        let mut outs = vec![]; let mut fails: Vec<Failure> = vec![]; let mut model_lines = vec![];
        for line in lines {
            let p: Vec<&str> = line.split(' ').collect();
            if p[1] != "enc" { outs.push("bad-op".into()); model_lines.push(line.clone()); continue; }
            let pre = unhex_list(field(&p, "pre").unwrap())[0].clone(); let fams = parse_fams(field(&p, "fams").unwrap());
            let mfs: Vec<MetricFamily> = fams.iter().map(build).collect();
            let enc = TextEncoder::new();
            let mut w: Vec<u8> = pre.as_bytes().to_vec();
            let r = enc.encode(&mfs, &mut w);
            let mut sbuf = pre.clone(); let r2 = enc.encode_utf8(&mfs, &mut sbuf);
            let r3 = enc.encode_to_string(&mfs);
            // ---- oracle: the three entry points agree and only append
            if r.is_ok() != r2.is_ok() || sbuf.as_bytes() != w.as_slice() { fails.push(Failure { class: "entry-points-differ".into(), detail: format!("encode vs encode_utf8 differ: {}", line) }); }
            if let Ok(s3) = &r3 { if format!("{}{}", pre, s3).as_bytes() != w.as_slice() { fails.push(Failure { class: "entry-points-differ".into(), detail: format!("encode_to_string differs: {}", line) }); } }
            if !w.starts_with(pre.as_bytes()) { fails.push(Failure { class: "not-append-only".into(), detail: line.clone() }); }
            // the bytes do not depend on how the writer takes them: a writer accepting 5 bytes per write call receives the same text,
            // and a writer that stops taking bytes makes encode fail instead of silently truncating
            { struct Chunky { got: Vec<u8>, max: usize, cap: usize }
              impl std::io::Write for Chunky { fn write(&mut self, b: &[u8]) -> std::io::Result<usize> { let n = b.len().min(self.max).min(self.cap - self.got.len()); self.got.extend_from_slice(&b[..n]); Ok(n) } fn flush(&mut self) -> std::io::Result<()> { Ok(()) } }
              let body = &w[pre.len()..];
              let mut ch = Chunky { got: vec![], max: 5, cap: usize::MAX };
              let rc = enc.encode(&mfs, &mut ch);
              if rc.is_ok() != r.is_ok() || ch.got != body { fails.push(Failure { class: "entry-points-differ".into(), detail: format!("a writer taking 5 bytes per call received {} bytes (Ok = {}), a Vec received {} (Ok = {}); {}", ch.got.len(), rc.is_ok(), body.len(), r.is_ok(), line) }); }
              if r.is_ok() && body.len() > 1 { let mut full = Chunky { got: vec![], max: usize::MAX, cap: body.len() - 1 }; if enc.encode(&mfs, &mut full).is_ok() { fails.push(Failure { class: "entry-points-differ".into(), detail: format!("a writer that is full after {} of {} bytes: encode returned Ok (silent truncation); {}", body.len() - 1, body.len(), line) }); } }
              stats.hit("short-writer-checked"); }
            if std::str::from_utf8(&w).is_err() { fails.push(Failure { class: "not-utf8".into(), detail: line.clone() }); }
            stats.hit(if r.is_ok() { "encode:ok" } else { "encode:err" });
            for f in &fams { stats.hit(&format!("type:{}", f.ty)); }
            model_lines.push(line.clone());
            outs.push(format!("{} {} fmt=ok", if r.is_ok() { "ok" } else { "err" }, hex_bytes(&w)));
            let all_wf = fams.iter().all(wf);
            stats.seen(&[line.clone()], all_wf && fams.iter().any(|f| f.samples.iter().any(|s| s.labels.iter().any(|l| l.1.contains('\\') || l.1.contains('"') || l.1.contains('\n'))) || f.help.contains('\\') || f.help.contains('\n')));
            // a well-formed family (valid names, declared or defaulted type matching its value slots, at least one sample) is always rendered
            if r.is_err() && all_wf { fails.push(Failure { class: "wellformed-family-refused".into(), detail: format!("encode returned {:?} for well-formed families: {}", r.as_ref().err(), line) }); }
            if r.is_ok() && all_wf {
                // round trip: the Lean reader is applied to the REAL bytes (without the pre-filled prefix)
                stats.hit("roundtrip-checked");
                model_lines.push(format!("text parse {}", hex_bytes(&w[pre.len()..])));
                outs.push(show_fams(&fams, true));
            }
        }
        ExecOut { outs, fails, model_lines: Some(model_lines) }
    }
}
