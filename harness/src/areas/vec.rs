//! area `vec` (C05; sequential histories of C10): one child per distinct label-value tuple.
use crate::rng::Rng;
use crate::util::*;
use crate::{Area, ExecOut, Failure};
use prometheus::core::Collector;
use prometheus::*;
use std::collections::HashMap;

pub struct VecArea;

pub enum AnyVec { C(CounterVec), IC(IntCounterVec), G(GaugeVec), IG(IntGaugeVec), H(HistogramVec) }
pub enum AnyChild { C(Counter), IC(IntCounter), G(Gauge), IG(IntGauge), H(Histogram) }

impl AnyChild {
    pub fn bump(&self) { match self { AnyChild::C(c) => c.inc(), AnyChild::IC(c) => c.inc(), AnyChild::G(c) => c.inc(), AnyChild::IG(c) => c.inc(), AnyChild::H(h) => h.observe(1.0) } }
    pub fn val(&self) -> u64 { match self { AnyChild::C(c) => c.get() as u64, AnyChild::IC(c) => c.get(), AnyChild::G(c) => c.get() as u64, AnyChild::IG(c) => c.get() as u64, AnyChild::H(h) => h.get_sample_count() } }
}
impl AnyVec {
    pub fn new(kind: &str, names: &[String], consts: &[(String, String)]) -> Result<AnyVec> {
        let mut o = Opts::new("v", "h");
        for (k, v) in consts { o = o.const_label(k.clone(), v.clone()); }
        let n: Vec<&str> = names.iter().map(|s| s.as_str()).collect();
        Ok(match kind {
            "countervec" => AnyVec::C(CounterVec::new(o, &n)?), "intcountervec" => AnyVec::IC(IntCounterVec::new(o, &n)?),
            "gaugevec" => AnyVec::G(GaugeVec::new(o, &n)?), "intgaugevec" => AnyVec::IG(IntGaugeVec::new(o, &n)?),
            "histogramvec" => AnyVec::H(HistogramVec::new(HistogramOpts::from(o).buckets(vec![0.5, 2.0]), &n)?),
            _ => panic!("kind"),
        })
    }
    pub fn with(&self, v: &[&str]) -> Result<AnyChild> { Ok(match self { AnyVec::C(x) => AnyChild::C(x.get_metric_with_label_values(v)?), AnyVec::IC(x) => AnyChild::IC(x.get_metric_with_label_values(v)?), AnyVec::G(x) => AnyChild::G(x.get_metric_with_label_values(v)?), AnyVec::IG(x) => AnyChild::IG(x.get_metric_with_label_values(v)?), AnyVec::H(x) => AnyChild::H(x.get_metric_with_label_values(v)?) }) }
    pub fn with_map(&self, m: &HashMap<&str, &str>) -> Result<AnyChild> { Ok(match self { AnyVec::C(x) => AnyChild::C(x.get_metric_with(m)?), AnyVec::IC(x) => AnyChild::IC(x.get_metric_with(m)?), AnyVec::G(x) => AnyChild::G(x.get_metric_with(m)?), AnyVec::IG(x) => AnyChild::IG(x.get_metric_with(m)?), AnyVec::H(x) => AnyChild::H(x.get_metric_with(m)?) }) }
    pub fn rm(&self, v: &[&str]) -> Result<()> { match self { AnyVec::C(x) => x.remove_label_values(v), AnyVec::IC(x) => x.remove_label_values(v), AnyVec::G(x) => x.remove_label_values(v), AnyVec::IG(x) => x.remove_label_values(v), AnyVec::H(x) => x.remove_label_values(v) } }
    pub fn rm_map(&self, m: &HashMap<&str, &str>) -> Result<()> { match self { AnyVec::C(x) => x.remove(m), AnyVec::IC(x) => x.remove(m), AnyVec::G(x) => x.remove(m), AnyVec::IG(x) => x.remove(m), AnyVec::H(x) => x.remove(m) } }
    pub fn reset(&self) { match self { AnyVec::C(x) => x.reset(), AnyVec::IC(x) => x.reset(), AnyVec::G(x) => x.reset(), AnyVec::IG(x) => x.reset(), AnyVec::H(x) => x.reset() } }
    pub fn key(&self, v: &[&str]) -> Result<u64> { match self { AnyVec::C(x) => x.verif_key(v), AnyVec::IC(x) => x.verif_key(v), AnyVec::G(x) => x.verif_key(v), AnyVec::IG(x) => x.verif_key(v), AnyVec::H(x) => x.verif_key(v) } }
    /// (label pairs, value) of every exposed child
    pub fn collect(&self) -> Vec<(Vec<(String, String)>, u64)> {
        let mfs = match self { AnyVec::C(x) => x.collect(), AnyVec::IC(x) => x.collect(), AnyVec::G(x) => x.collect(), AnyVec::IG(x) => x.collect(), AnyVec::H(x) => x.collect() };
        mfs[0].get_metric().iter().map(|m| {
            let l = m.get_label().iter().map(|p| (p.name().to_string(), p.value().to_string())).collect();
            let v = match self { AnyVec::C(_) | AnyVec::IC(_) => m.get_counter().value() as u64, AnyVec::G(_) | AnyVec::IG(_) => m.get_gauge().value() as u64, AnyVec::H(_) => m.get_histogram().get_sample_count() };
            (l, v)
        }).collect()
    }
}

pub fn fnv(bytes: &[u8]) -> u64 { let mut h: u64 = 0xcbf29ce484222325; for b in bytes { h = (h ^ *b as u64).wrapping_mul(0x100000001b3); } h }
pub fn tuple_key(vals: &[String]) -> u64 { let mut b = vec![]; for v in vals { b.extend_from_slice(v.as_bytes()); b.push(0xff); } fnv(&b) }

pub fn pairs_str(p: &[(String, String)]) -> String { if p.is_empty() { "-".into() } else { p.iter().map(|(k, v)| format!("{}:{}", hex_list(&[k]), hex_list(&[v]))).collect::<Vec<_>>().join(",") } }
pub fn parse_pairs(s: &str) -> Vec<(String, String)> { if s == "-" { vec![] } else { s.split(',').map(|p| { let kv: Vec<&str> = p.split(':').collect(); (unhex_list(kv[0])[0].clone(), unhex_list(kv[1])[0].clone()) }).collect() } }

const BASES: &[&str] = &["abc", "a\u{7f}b", "xéy", "a\u{0}b", "ab\u{10ffff}", "", "a", "ab", "77kepQFQ8Kl", "!0IC=VloaY", "ÿ", "a b"];

fn gen_tuple(rng: &mut Rng, n: usize, prev: &[Vec<String>], stats: &mut Stats) -> Vec<String> {
    if !prev.is_empty() && rng.chance(45) {
        let p = rng.pick(prev).clone();
        if rng.chance(40) { stats.hit("tuple:repeat"); return p; }
        // boundary shift: move the split point between two adjacent values
        if p.len() >= 2 { stats.hit("tuple:boundary-shift");
            let i = rng.below(p.len() - 1);
            let joined: Vec<char> = format!("{}{}", p[i], p[i + 1]).chars().collect();
            let cut = rng.below(joined.len() + 1);
            let mut q = p.clone(); q[i] = joined[..cut].iter().collect(); q[i + 1] = joined[cut..].iter().collect();
            return q; }
    }
    let m = if rng.chance(88) { n } else { stats.hit("tuple:wrong-cardinality"); if n > 0 && rng.chance(50) { n - 1 } else { n + 1 } };
    (0..m).map(|_| rng.pick(BASES).to_string()).collect()
}

impl Area for VecArea {
    fn corpus(&self) -> Vec<Vec<String>> {
        let s = |x: &[&str]| x.iter().map(|l| l.to_string()).collect::<Vec<String>>();
        let t = |v: &[&str]| hex_list(v);
        vec![
            // F1 witness (fixed): tuples differing only in the split point
            s(&["vec new kind=countervec names=6c31,6c32 consts=-", &format!("vec with {}", t(&["ab", "c"])), &format!("vec with {}", t(&["a", "bc"])), "vec collect"]),
            // K1 witness (known finding): FNV-1a collision
            s(&["vec new kind=intcountervec names=6c31 consts=-", &format!("vec with {}", t(&["77kepQFQ8Kl"])), &format!("vec with {}", t(&["!0IC=VloaY"])), "vec collect"]),
            s(&["vec new kind=histogramvec names=6c31,6c32 consts=63:31", &format!("vec with {}", t(&["", "x"])), &format!("vec with {}", t(&["x", ""])), &format!("vec withmap {}", pairs_str(&[("l2".into(), "".into()), ("l1".into(), "x".into())])), "vec collect", &format!("vec rm {}", t(&["", "x"])), "vec inc 0", "vec collect"]),
            s(&["vec new kind=histogramvec names=6c65 consts=-", &format!("vec with {}", t(&["x"])), "vec collect"]),
        ]
    }

    fn gen(&self, rng: &mut Rng, thorough: bool, stats: &mut Stats) -> Vec<String> {
        let kind = *rng.pick(&["countervec", "intcountervec", "gaugevec", "intgaugevec", "histogramvec"]);
        let mut pool = vec!["l1", "l2", "b", "a"]; rng.shuffle(&mut pool);
        let n = *rng.pick(&[1, 1, 2, 2, 2, 3, 0]);
        let names: Vec<String> = pool[..n].iter().map(|s| s.to_string()).collect();
        let consts: Vec<(String, String)> = if rng.chance(40) { vec![("c".into(), "1".into())] } else if rng.chance(15) { vec![("zz".into(), "".into()), ("c".into(), "ÿ".into())] } else { vec![] };
        let mut lines = vec![format!("vec new kind={} names={} consts={}", kind, hex_list(&names), pairs_str(&consts))];
        let mut prev: Vec<Vec<String>> = vec![];
        let nops = rng.range(3, if thorough { 25 } else { 12 });
        let mut nh = 0;
        for _ in 0..nops {
            let k = rng.below(100);
            if k < 40 { let t = gen_tuple(rng, n, &prev, stats); lines.push(format!("vec with {}", hex_list(&t))); prev.push(t); nh += 1; }
            else if k < 58 {
                let t = gen_tuple(rng, n, &prev, stats);
                let mut m: Vec<(String, String)> = names.iter().cloned().zip(t.iter().cloned()).collect();
                if rng.chance(12) && !m.is_empty() { stats.hit("map:wrong-name"); let i = rng.below(m.len()); m[i].0 = "zz".into(); }
                if rng.chance(8) { stats.hit("map:extra"); m.push(("extra".into(), "v".into())); }
                rng.shuffle(&mut m);
                lines.push(format!("vec withmap {}", pairs_str(&m))); nh += 1;
                if t.len() == n { prev.push(t); }
            }
            else if k < 70 { let t = gen_tuple(rng, n, &prev, stats); lines.push(format!("vec rm {}", hex_list(&t))); }
            else if k < 76 { let t = gen_tuple(rng, n, &prev, stats); let mut m: Vec<(String, String)> = names.iter().cloned().zip(t.iter().cloned()).collect(); rng.shuffle(&mut m); lines.push(format!("vec rmmap {}", pairs_str(&m))); }
            else if k < 80 { lines.push("vec reset".into()); }
            else if k < 90 && nh > 0 { lines.push(format!("vec inc {}", rng.below(nh))); }
            else { lines.push("vec collect".into()); }
        }
        lines.push("vec collect".into());
        lines
    }

    fn exec(&self, lines: &[String], stats: &mut Stats) -> ExecOut {
        let mut outs = vec![]; let mut fails: Vec<Failure> = vec![];
        let mut vec: Option<AnyVec> = None;
        let mut names: Vec<String> = vec![]; let mut consts: Vec<(String, String)> = vec![]; let mut hist_le = false;
        let mut handles: Vec<AnyChild> = vec![];
        // ---- reference (the property's abstract spec): one child per distinct tuple
        let mut ref_map: HashMap<Vec<String>, usize> = HashMap::new(); // tuple -> ref child
        let mut ref_vals: Vec<u64> = vec![];                         // ref child -> value
        let mut ref_handles: Vec<usize> = vec![];
        let mut collision = false; let mut nontrivial = false;
        let mut fail = |fails: &mut Vec<Failure>, collision: bool, class: &str, d: String| fails.push(Failure { class: if collision { "fnv-collision".into() } else { class.into() }, detail: d });
        for line in lines {
            let parts: Vec<&str> = line.split(' ').collect();
            if parts[1] == "new" {
                names = unhex_list(field(&parts, "names").unwrap()); consts = parse_pairs(field(&parts, "consts").unwrap());
                let kind = field(&parts, "kind").unwrap();
                hist_le = kind == "histogramvec" && (names.iter().any(|n| n == "le") || consts.iter().any(|(k, _)| k == "le"));
                handles.clear(); ref_map.clear(); ref_vals.clear(); ref_handles.clear();
                match AnyVec::new(kind, &names, &consts) { Ok(v) => { vec = Some(v); outs.push("ok".into()) } Err(e) => { vec = None; outs.push(err_kind(&e)) } }
                continue;
            }
            let v = match &vec { Some(v) => v, None => { outs.push("no-vec".into()); continue } };
            let all = |handles: &Vec<AnyChild>| nat_list(&handles.iter().map(|h| h.val()).collect::<Vec<_>>());
            let ref_all = |ref_handles: &Vec<usize>, ref_vals: &Vec<u64>| nat_list(&ref_handles.iter().map(|h| ref_vals[*h]).collect::<Vec<_>>());
            match parts[1] {
                "with" | "withmap" => {
                    // resolve the request to (expected error | tuple) by the property's rule
                    let (res, expect): (Result<AnyChild>, std::result::Result<Vec<String>, String>) = if parts[1] == "with" {
                        let t = unhex_list(parts[2]); let tv: Vec<&str> = t.iter().map(|s| s.as_str()).collect();
                        (v.with(&tv), if t.len() != names.len() { Err(format!("err:Card({},{})", names.len(), t.len())) } else { Ok(t) })
                    } else {
                        let m = parse_pairs(parts[2]); let hm: HashMap<&str, &str> = m.iter().map(|(k, v)| (k.as_str(), v.as_str())).collect();
                        let e = if hm.len() != names.len() { Err(format!("err:Card({},{})", names.len(), hm.len())) } else if let Some(t) = names.iter().map(|n| hm.get(n.as_str()).map(|s| s.to_string())).collect::<Option<Vec<String>>>() { Ok(t) } else { Err("err:Msg".to_string()) };
                        (v.with_map(&hm), e)
                    };
                    let expect = if hist_le { expect.and_then(|_| Err("err:Msg".to_string())) } else { expect };
                    match (&res, &expect) {
                        (Ok(c), Ok(t)) => {
                            let k = tuple_key(t);
                            if ref_map.keys().any(|o| o != t && tuple_key(o) == k) { collision = true; stats.hit("fnv-collision-case"); }
                            if ref_map.keys().any(|o| o != t && o.concat() == t.concat()) { nontrivial = true; }
                            let id = *ref_map.entry(t.clone()).or_insert_with(|| { ref_vals.push(0); ref_vals.len() - 1 });
                            ref_vals[id] += 1; ref_handles.push(id);
                            c.bump();
                            let val = c.val();
                            handles.push(match res { Ok(c) => c, _ => unreachable!() });
                            if val != ref_vals[id] || all(&handles) != ref_all(&ref_handles, &ref_vals) { fail(&mut fails, collision, "child-identity", format!("after `{}`: handle values {} but one child per distinct tuple gives {}", line, all(&handles), ref_all(&ref_handles, &ref_vals))); }
                            if let Ok(key) = v.key(&t.iter().map(|s| s.as_str()).collect::<Vec<_>>()) { if key != k { fail(&mut fails, false, "key-encoding", format!("child key {:016x} is not FNV-1a of the separator-terminated values ({:016x}) for {}", key, k, line)); } }
                            stats.hit("with:ok");
                            outs.push(format!("ok val={} all={}", val, all(&handles)));
                        }
                        (Err(e), Err(x)) => { stats.hit("with:err"); if err_kind(e) != *x { fail(&mut fails, false, "error-kind", format!("{} returned {} expected {}", line, err_kind(e), x)); } outs.push(err_kind(e)); }
                        (Ok(_), Err(x)) => { fail(&mut fails, false, "wrong-shape-accepted", format!("{} returned a child, expected {}", line, x)); outs.push("ok-unexpected".into()); }
                        (Err(e), Ok(_)) => { fail(&mut fails, false, "wellformed-request-refused", format!("{} returned {}", line, err_kind(e))); outs.push(err_kind(e)); }
                    }
                }
                "rm" | "rmmap" => {
                    let (res, expect): (Result<()>, std::result::Result<Vec<String>, String>) = if parts[1] == "rm" {
                        let t = unhex_list(parts[2]); let tv: Vec<&str> = t.iter().map(|s| s.as_str()).collect();
                        (v.rm(&tv), if t.len() != names.len() { Err(format!("err:Card({},{})", names.len(), t.len())) } else { Ok(t) })
                    } else {
                        let m = parse_pairs(parts[2]); let hm: HashMap<&str, &str> = m.iter().map(|(k, v)| (k.as_str(), v.as_str())).collect();
                        let e = if hm.len() != names.len() { Err(format!("err:Card({},{})", names.len(), hm.len())) } else if let Some(t) = names.iter().map(|n| hm.get(n.as_str()).map(|s| s.to_string())).collect::<Option<Vec<String>>>() { Ok(t) } else { Err("err:Msg".to_string()) };
                        (v.rm_map(&hm), e)
                    };
                    let want = match &expect { Err(x) => x.clone(), Ok(t) => { let k = tuple_key(t); if ref_map.keys().any(|o| o != t && tuple_key(o) == k) { collision = true; } if ref_map.remove(t).is_some() { "ok".to_string() } else { "err:Msg".to_string() } } };
                    let got = match &res { Ok(()) => "ok".to_string(), Err(e) => err_kind(e) };
                    if got != want { fail(&mut fails, collision, "remove-result", format!("{} returned {} expected {}", line, got, want)); }
                    stats.hit(if got == "ok" { "rm:ok" } else { "rm:err" });
                    outs.push(got);
                }
                "reset" => { v.reset(); ref_map.clear(); outs.push("ok".into()); }
                "inc" => { let i: usize = parts[2].parse().unwrap(); if i < handles.len() { handles[i].bump(); ref_vals[ref_handles[i]] += 1;
                        if all(&handles) != ref_all(&ref_handles, &ref_vals) { fail(&mut fails, collision, "child-identity", format!("after `{}`: {} vs {}", line, all(&handles), ref_all(&ref_handles, &ref_vals))); }
                        outs.push(format!("ok all={}", all(&handles))) } else { outs.push("no-handle".into()) } }
                "collect" => {
                    let got = v.collect();
                    let mut strs: Vec<String> = got.iter().map(|(l, val)| format!("{}={}", pairs_str(l), val)).collect(); strs.sort();
                    // oracle: exactly the reference children, each with the declared names, its values and the const labels, sorted by name
                    let mut want: Vec<String> = ref_map.iter().map(|(t, id)| { let mut l: Vec<(String, String)> = names.iter().cloned().zip(t.iter().cloned()).chain(consts.iter().cloned()).collect(); l.sort_by(|a, b| a.0.cmp(&b.0)); format!("{}={}", pairs_str(&l), ref_vals[*id]) }).collect(); want.sort();
                    if strs != want { fail(&mut fails, collision, "collect-mismatch", format!("collect shows [{}], the distinct requested tuples are [{}]", strs.join(";"), want.join(";"))); }
                    outs.push(format!("n={} {}", strs.len(), if strs.is_empty() { "-".to_string() } else { strs.join(";") }));
                }
                "key" => { let t = unhex_list(parts[2]); outs.push(match v.key(&t.iter().map(|s| s.as_str()).collect::<Vec<_>>()) { Ok(k) => format!("{:016x}", k), Err(e) => err_kind(&e) }); }
                _ => outs.push("bad-op".into()),
            }
        }
        stats.seen(lines, nontrivial || ref_vals.len() >= 2);
        if nontrivial { stats.hit("case:tuples-differing-only-in-split"); }
        ExecOut { outs, fails, model_lines: None }
    }
}
