//! areas `catom` (C01, C11), `cvec` (C10), `chist` (C02, C03): REAL library calls on real threads
//! under the deterministic scheduler. The trace of atomic / lock operations is sent to the Lean
//! model, which replays it step by step; the property's own oracle is evaluated here on the
//! implementation's results (linearizability search; snapshot = claims before the flip).
use crate::rng::Rng;
use crate::sched::{self, Body, Rec};
use crate::util::*;
use crate::{Area, ExecOut, Failure};
use prometheus::core::Collector;
use prometheus::verif_sync::Kind;
use prometheus::*;
use std::collections::HashMap;
use std::sync::{Arc, Mutex};

fn kind_letter(k: Kind) -> &'static str {
    match k { Kind::Load => "L", Kind::Store => "S", Kind::FetchAdd => "A", Kind::FetchSub => "U", Kind::Swap => "W", Kind::Cas => "C", Kind::Lock => "K", Kind::Unlock => "k", Kind::RLock => "R", Kind::RUnlock => "r", Kind::WLock => "X", Kind::WUnlock => "x" }
}

/// canonical trace text; `name` maps an address to a symbolic location name
fn trace_text(trace: &[Rec], name: &mut dyn FnMut(usize) -> String) -> String {
    let v: Vec<String> = trace.iter().map(|r| match r {
        Rec::Op { tid, kind, addr, ord, a, b, res, ok } => format!("{}.{}.{}.{}.{:x}.{:x}.{:x}.{}", tid, kind_letter(*kind), name(*addr), ord, a, b, res, if *ok { 1 } else { 0 }),
        Rec::Mark { tid, text } => format!("{}.{}", tid, text),
    }).collect();
    if v.is_empty() { "-".into() } else { v.join(",") }
}

/// one completed operation of a history, with its real-time interval in the trace
#[derive(Clone, Debug)]
struct HOp { tid: usize, call: usize, ret: usize, op: String, result: String }

fn history(trace: &[Rec]) -> Vec<HOp> {
    let mut open: HashMap<(usize, String), (usize, String)> = HashMap::new(); let mut out = vec![];
    for (i, r) in trace.iter().enumerate() { if let Rec::Mark { tid, text } = r {
        let p: Vec<&str> = text.splitn(3, '.').collect();
        if p[0] == "call" { open.insert((*tid, p[1].to_string()), (i, p.get(2).unwrap_or(&"").to_string())); }
        else if p[0] == "ret" { if let Some((c, op)) = open.remove(&(*tid, p[1].to_string())) { out.push(HOp { tid: *tid, call: c, ret: i, op, result: p.get(2).unwrap_or(&"").to_string() }); } }
    } }
    out
}

/// Wing-Gong linearizability search: is there an order of `ops` consistent with real time in which
/// `apply(state, op)` yields every recorded result? Returns the final state of one such order.
fn linearizable<S: Clone>(ops: &[HOp], init: S, apply: &dyn Fn(&S, &HOp) -> Option<S>, accept: &dyn Fn(&S) -> bool) -> bool {
    fn go<S: Clone>(ops: &[HOp], done: &mut Vec<bool>, st: S, apply: &dyn Fn(&S, &HOp) -> Option<S>, accept: &dyn Fn(&S) -> bool, left: usize, budget: &mut usize) -> bool {
        if left == 0 { return accept(&st); }
        if *budget == 0 { return true; } // search budget exhausted: do not raise an alarm
        *budget -= 1;
        // an op may come next if no other pending op returned before it was called
        let min_ret = (0..ops.len()).filter(|i| !done[*i]).map(|i| ops[i].ret).min().unwrap();
        for i in 0..ops.len() { if done[i] || ops[i].call > min_ret { continue; }
            if let Some(s2) = apply(&st, &ops[i]) { done[i] = true; if go(ops, done, s2, apply, accept, left - 1, budget) { done[i] = false; return true; } done[i] = false; } }
        false
    }
    let mut done = vec![false; ops.len()]; let mut budget = 2_000_000usize;
    go(ops, &mut done, init, apply, accept, ops.len(), &mut budget)
}


/// what the schedules actually exercised (goes into the evidence file): threads, calls, overlapping calls, failed compare-exchanges
fn trace_stats(area: &str, trace: &[Rec], stats: &mut Stats) {
    let hist = history(trace);
    let threads: std::collections::BTreeSet<usize> = hist.iter().map(|h| h.tid).collect();
    stats.hit(&format!("{}:threads={}", area, threads.len()));
    stats.hit_n(&format!("{}:calls", area), hist.len() as u64);
    let overlapping = hist.iter().filter(|a| hist.iter().any(|b| a.tid != b.tid && a.call < b.ret && b.call < a.ret)).count();
    stats.hit_n(&format!("{}:calls-overlapping-another-thread's-call", area), overlapping as u64);
    let mut switches = 0u64; let mut last: Option<usize> = None; let mut casfail = 0u64; let mut lockwait = 0u64;
    for r in trace { if let Rec::Op { tid, kind, ok, .. } = r { if last.is_some() && last != Some(*tid) { switches += 1; } last = Some(*tid);
        if *kind == Kind::Cas && !*ok { casfail += 1; } if matches!(kind, Kind::Lock | Kind::RLock | Kind::WLock) && !*ok { lockwait += 1; } } }
    stats.hit_n(&format!("{}:context-switches-between-atomic-steps", area), switches);
    stats.hit_n(&format!("{}:failed-compare-exchanges", area), casfail);
    stats.hit_n(&format!("{}:lock-attempts-that-had-to-wait", area), lockwait);
}

// ===================================================================== catom
pub struct ConcAtomic { pub kinds: &'static [&'static str] }

#[derive(Clone)]
enum Cell { C(Counter), IC(IntCounter), G(Gauge), IG(IntGauge) }
impl Cell {
    /// raw 64-bit representation of the cell (f64 bits / integer)
    fn raw(&self) -> u64 { match self { Cell::C(c) => c.get().to_bits(), Cell::IC(c) => c.get(), Cell::G(g) => g.get().to_bits(), Cell::IG(g) => g.get() as u64 } }
    fn is_float(&self) -> bool { matches!(self, Cell::C(_) | Cell::G(_)) }
    fn raw_of(&self, v: i64) -> u64 { if self.is_float() { (v as f64).to_bits() } else { v as u64 } }
}

const TINY: f64 = 8.470329472543003e-22; // 2^-70
fn run_atom_op(cell: &Cell, op: &str) -> String {
    let (name, arg) = match op.split_once(':') { Some((n, a)) => (n, a.parse::<i64>().unwrap()), None => (op, 0) };
    match (cell, name) {
        (Cell::C(c), "inc") => { c.inc(); "".into() } (Cell::C(c), "incby") => { c.inc_by(arg as f64); "".into() } (Cell::C(c), "get") => format!("{:x}", c.get().to_bits()), (Cell::C(c), "reset") => { c.reset(); "".into() }
        (Cell::C(c), "lflush") => { let l = c.local(); l.inc_by(arg as f64); l.flush(); "".into() }
        // amounts far below f64::EPSILON (k * 2^-70, exact): an update must not be dropped because it is "practically zero"
        (Cell::C(c), "incbyu") => { c.inc_by(arg as f64 * TINY); "".into() } (Cell::G(g), "addu") => { g.add(arg as f64 * TINY); "".into() } (Cell::G(g), "subu") => { g.sub(arg as f64 * TINY); "".into() }
        (Cell::IC(c), "inc") => { c.inc(); "".into() } (Cell::IC(c), "incby") => { c.inc_by(arg as u64); "".into() } (Cell::IC(c), "get") => format!("{:x}", c.get()), (Cell::IC(c), "reset") => { c.reset(); "".into() }
        (Cell::IC(c), "lflush") => { let l = c.local(); l.inc_by(arg as u64); l.flush(); "".into() }
        (Cell::G(g), "inc") => { g.inc(); "".into() } (Cell::G(g), "dec") => { g.dec(); "".into() } (Cell::G(g), "add") => { g.add(arg as f64); "".into() } (Cell::G(g), "sub") => { g.sub(arg as f64); "".into() }
        (Cell::G(g), "set") => { g.set(arg as f64); "".into() } (Cell::G(g), "get") => format!("{:x}", g.get().to_bits()),
        (Cell::IG(g), "inc") => { g.inc(); "".into() } (Cell::IG(g), "dec") => { g.dec(); "".into() } (Cell::IG(g), "add") => { g.add(arg); "".into() } (Cell::IG(g), "sub") => { g.sub(arg); "".into() }
        (Cell::IG(g), "set") => { g.set(arg); "".into() } (Cell::IG(g), "get") => format!("{:x}", g.get() as u64),
        _ => panic!("bad op {}", op),
    }
}

/// `tiny`: the program's amounts are multiples of 2^-70 (state counted in that unit)
fn atom_apply(float: bool, tiny: bool, st: &i64, o: &HOp) -> Option<i64> {
    let (name, arg) = match o.op.split_once(':') { Some((n, a)) => (n, a.parse::<i64>().unwrap()), None => (o.op.as_str(), 0) };
    match name {
        "inc" => Some(st.wrapping_add(1)), "dec" => Some(st.wrapping_sub(1)), "incby" | "add" => Some(st.wrapping_add(arg)), "lflush" => Some(st.wrapping_add(arg)), "sub" => Some(st.wrapping_sub(arg)), "set" => Some(arg), "reset" => Some(0),
        "incbyu" | "addu" => Some(st.wrapping_add(arg)), "subu" => Some(st.wrapping_sub(arg)),
        "get" => if o.result == format!("{:x}", if float { (*st as f64 * if tiny { TINY } else { 1.0 }).to_bits() } else { *st as u64 }) { Some(*st) } else { None },
        _ => None,
    }
}

fn parse_prog(s: &str) -> Vec<Vec<String>> { s.split('|').map(|t| if t == "-" { vec![] } else { t.split(',').map(|x| x.to_string()).collect() }).collect() }

impl Area for ConcAtomic {
    fn corpus(&self) -> Vec<Vec<String>> {
        let all: Vec<Vec<String>> = vec![vec!["catom kind=counter prog=incby:1,get|incby:2,get|get,reset sseed=7".into()], vec!["catom kind=intcounter prog=incby:1,lflush:2|inc,get|get sseed=2".into()],
             vec!["catom kind=intgauge prog=add:5,sub:5|set:9,get|dec,get sseed=3".into()], vec!["catom kind=gauge prog=sub:2,sub:1|add:3,get|sub:4 sseed=11".into()],
             vec!["catom kind=intgauge prog=set:9223372036854775806,add:5,sub:5|get,get sseed=5".into()],
             vec!["catom kind=gauge prog=addu:1,get|addu:2,subu:1|get sseed=4".into()], vec!["catom kind=counter prog=incbyu:3,get|incbyu:1|get sseed=6".into()]];
        all.into_iter().filter(|c| self.kinds.iter().any(|k| c[0].contains(&format!("kind={} ", k)))).collect()
    }
    fn gen(&self, rng: &mut Rng, _thorough: bool, stats: &mut Stats) -> Vec<String> {
        let kind = *rng.pick(self.kinds);
        stats.hit(&format!("kind:{}", kind));
        let nt = rng.range(2, 3);
        let tiny = (kind == "gauge" || kind == "counter") && rng.chance(12);
        if tiny { stats.hit("amounts:2^-70"); }
        let prog: Vec<String> = (0..nt).map(|_| { let n = rng.range(1, 3); (0..n).map(|_| {
            if tiny { match rng.below(10) { 0..=4 => format!("{}:{}", if kind == "gauge" { "addu" } else { "incbyu" }, rng.range(1, 4)), 5..=7 => if kind == "gauge" { format!("subu:{}", rng.range(1, 4)) } else { format!("incbyu:{}", rng.range(1, 4)) }, _ => "get".into() } }
            else if kind.contains("counter") { match rng.below(10) { 0..=2 => "inc".to_string(), 3..=5 => format!("incby:{}", rng.range(1, 4)), 6..=7 => "get".into(), 8 => format!("lflush:{}", rng.range(0, 3)), _ => "reset".into() } }
            else { match rng.below(12) { 0..=1 => "inc".to_string(), 2..=3 => "dec".into(), 4..=5 => if kind == "intgauge" && rng.chance(15) { format!("add:{}", rng.pick(&[i64::MIN, i64::MAX])) } else { format!("add:{}", rng.range(1, 4)) }, 6..=7 => if kind == "intgauge" && rng.chance(15) { format!("sub:{}", rng.pick(&[i64::MIN, i64::MAX])) } else { format!("sub:{}", rng.range(1, 4)) }, 8..=9 => "get".into(),
                _ => if kind == "intgauge" && rng.chance(40) { format!("set:{}", rng.pick(&[i64::MAX - 1, i64::MAX - 2, i64::MIN + 1])) } else { format!("set:{}", rng.range(0, 9)) } } }
        }).collect::<Vec<_>>().join(",") }).collect();
        vec![format!("catom kind={} prog={} sseed={}", kind, prog.join("|"), rng.next() % 1_000_000)]
    }
    fn exec(&self, lines: &[String], stats: &mut Stats) -> ExecOut {
        let mut outs = vec![]; let mut fails = vec![]; let mut model_lines = vec![];
        for line in lines {
            let p: Vec<&str> = line.split(' ').collect();
            let kind = field(&p, "kind").unwrap(); let prog = parse_prog(field(&p, "prog").unwrap()); let sseed: u64 = field(&p, "sseed").unwrap().parse().unwrap();
            let cell = match kind { "counter" => Cell::C(Counter::new("c", "h").unwrap()), "intcounter" => Cell::IC(IntCounter::new("c", "h").unwrap()), "gauge" => Cell::G(Gauge::new("c", "h").unwrap()), _ => Cell::IG(IntGauge::new("c", "h").unwrap()) };
            let bodies: Vec<Body> = prog.iter().map(|ops| { let ops = ops.clone(); let cell = cell.clone();
                Box::new(move |ctx: &sched::Ctx| { for (i, op) in ops.iter().enumerate() { ctx.mark(format!("call.{}.{}", i, op)); let r = run_atom_op(&cell, op); ctx.mark(format!("ret.{}.{}", i, r)); } }) as Body }).collect();
            let mut rng = Rng::new(sseed);
            let sticky = *rng.pick(&[0usize, 50, 85]);
            let spur = *rng.pick(&[0usize, 2, 12]);
            let o = sched::run(bodies, &mut rng, sticky, spur, 4000, None);
            stats.hit("traces"); trace_stats("catom", &o.trace, stats);
            let fin = cell.raw(); let isf = cell.is_float();
            let tiny = prog.iter().any(|t| t.iter().any(|o| o.split(':').next().unwrap().ends_with('u')));
            let hist = history(&o.trace);
            // ---- oracle: the completed calls are explained by executing them one at a time in an order
            // consistent with real time, and the final value is the value after all of them
            let nt_ops: usize = prog.iter().map(|t| t.len()).sum();
            if o.stuck { fails.push(Failure { class: "stuck".into(), detail: format!("execution did not finish: {}", line) }); }
            else if hist.len() != nt_ops { fails.push(Failure { class: "harness-panic".into(), detail: format!("history incomplete {} of {}", hist.len(), nt_ops) }); }
            else if !linearizable(&hist, 0i64, &|s, o| atom_apply(isf, tiny, s, o), &|s| if tiny { (*s as f64 * TINY).to_bits() == fin } else { cell.raw_of(*s) == fin }) { fails.push(Failure { class: "not-linearizable".into(), detail: format!("no sequential order consistent with real time explains results {:?} and final value {} for {}", hist.iter().map(|h| format!("t{}:{}={}", h.tid, h.op, h.result)).collect::<Vec<_>>(), fin, line) }); }
            let concurrent = hist.iter().any(|a| hist.iter().any(|b| a.tid != b.tid && a.call < b.ret && b.call < a.ret));
            stats.seen(&[line.clone()], concurrent);
            let mut names: HashMap<usize, String> = HashMap::new();
            let txt = trace_text(&o.trace, &mut |a| { let n = names.len(); names.entry(a).or_insert_with(|| format!("v{}", n)).clone() });
            model_lines.push(format!("catom kind={} prog={} trace={}", kind, field(&p, "prog").unwrap(), txt));
            outs.push(if o.stuck { "stuck".to_string() } else { format!("ok final={:x}", fin) });
        }
        ExecOut { outs, fails, model_lines: Some(model_lines) }
    }
}

// ===================================================================== cvec
pub struct ConcVec;

impl Area for ConcVec {
    fn corpus(&self) -> Vec<Vec<String>> {
        vec![vec!["cvec prog=with:a,with:a|with:a,rm:a|collect,with:b sseed=5".into()], vec!["cvec prog=with:a|with:a|with:a sseed=9".into()],
             vec!["cvec prog=with:a,rm:a,hinc|collect,collect sseed=12".into()], vec!["cvec prog=hinc,with:b,reset,hinc,hinc|collect|with:b,collect sseed=31".into()]]
    }
    fn gen(&self, rng: &mut Rng, _thorough: bool, _stats: &mut Stats) -> Vec<String> {
        // two first requests for one key while another key comes and goes (the map's size is the same before and after): any shortcut of the
        // second lookup that keys on something coarser than the key itself is exposed by this shape
        if rng.chance(15) { _stats.hit("shape:two-creators-one-remover");
            let mut t = vec![*rng.pick(&["with:b,with:a", "with:b,with:a,hinc"]), *rng.pick(&["with:a", "with:a,hinc", "with:a,collect"]), *rng.pick(&["rm:b", "rm:b,collect", "with:b,rm:b"])];
            rng.shuffle(&mut t);
            return vec![format!("cvec prog={} sseed={}", t.join("|"), rng.next() % 1_000_000)]; }
        let nt = rng.range(2, 3);
        // `hinc` = an update through the handle this thread obtained last (kept across removals / resets)
        let prog: Vec<String> = (0..nt).map(|_| { let n = rng.range(1, 3); (0..n).map(|_| { let k = *rng.pick(&["a", "a", "b"]);
            match rng.below(12) { 0..=4 => format!("with:{}", k), 5..=6 => format!("rm:{}", k), 7 => "reset".to_string(), 8..=9 => "hinc".to_string(), _ => "collect".to_string() } }).collect::<Vec<_>>().join(",") }).collect();
        vec![format!("cvec prog={} sseed={}", prog.join("|"), rng.next() % 1_000_000)]
    }
    fn exec(&self, lines: &[String], stats: &mut Stats) -> ExecOut {
        let mut outs = vec![]; let mut fails = vec![]; let mut model_lines = vec![];
        for line in lines {
            let p: Vec<&str> = line.split(' ').collect();
            let prog = parse_prog(field(&p, "prog").unwrap()); let sseed: u64 = field(&p, "sseed").unwrap().parse().unwrap();
            let v = IntCounterVec::new(Opts::new("v", "h"), &["l"]).unwrap();
            let handles: Arc<Mutex<Vec<(usize, usize, IntCounter)>>> = Arc::new(Mutex::new(vec![])); // (tid, op index, handle)
            let bodies: Vec<Body> = prog.iter().enumerate().map(|(tid, ops)| { let ops = ops.clone(); let v = v.clone(); let handles = handles.clone();
                Box::new(move |ctx: &sched::Ctx| { let mut last: Option<IntCounter> = None; for (i, op) in ops.iter().enumerate() {
                    ctx.mark(format!("call.{}.{}", i, op));
                    let (name, k) = op.split_once(':').unwrap_or((op.as_str(), ""));
                    let r = match name {
                        "with" => { let h = v.with_label_values(&[k]); last = Some(h.clone()); handles.lock().unwrap().push((tid, i, h)); "h".to_string() }
                        "hinc" => { if let Some(h) = &last { h.inc(); } "".to_string() }
                        "rm" => match v.remove_label_values(&[k]) { Ok(()) => "ok".into(), Err(_) => "err".into() },
                        "reset" => { v.reset(); "".into() }
                        _ => { let mf = v.collect(); let mut ks: Vec<String> = mf[0].get_metric().iter().map(|m| format!("{}={}", m.get_label()[0].value(), m.get_counter().value() as u64)).collect(); ks.sort(); ks.join("+") }
                    };
                    ctx.mark(format!("ret.{}.{}", i, r));
                    if name == "with" { let h = handles.lock().unwrap().last().unwrap().2.clone(); ctx.mark(format!("call.{}u.inc", i)); h.inc(); ctx.mark(format!("ret.{}u.", i)); }
                } }) as Body }).collect();
            let (lock_addr, _) = v.verif_children();
            let mut rng = Rng::new(sseed);
            let sticky = *rng.pick(&[0usize, 50, 85]);
            let o = sched::run(bodies, &mut rng, sticky, 0, 4000, None);
            stats.hit("traces"); trace_stats("cvec", &o.trace, stats);
            if o.stuck { fails.push(Failure { class: "stuck".into(), detail: line.clone() }); model_lines.push(format!("cvec prog={} trace=-", field(&p, "prog").unwrap())); outs.push("stuck".into()); continue; }
            // identity classes of the returned handles: bump each by a distinct power of 1000 and read all
            let hs = handles.lock().unwrap();
            let before: Vec<u64> = hs.iter().map(|h| h.2.get()).collect();
            for (j, h) in hs.iter().enumerate() { h.2.inc_by(1u64 << (10 + 5 * j as u32)); }
            let after: Vec<u64> = hs.iter().map(|h| h.2.get()).collect();
            let sig: Vec<u64> = after.iter().zip(before.iter()).map(|(a, b)| a - b).collect();
            let mut classes: Vec<u64> = sig.clone(); classes.sort(); classes.dedup();
            let class_of = |tid: usize, i: usize| -> usize { let j = hs.iter().position(|h| h.0 == tid && h.1 == i).unwrap(); classes.iter().position(|c| *c == sig[j]).unwrap() };
            let mut hist = history(&o.trace);
            for h in hist.iter_mut() { if h.op.starts_with("with:") || h.op == "inc" { let i: usize = trace_index(&o.trace, h.call); h.result = format!("c{}", class_of(h.tid, i)); } }
            // `hinc`: an increment of the child behind the thread's most recent `with` (no effect when there is none)
            let mut extra_incs: Vec<u64> = vec![0; classes.len()];
            for h in hist.iter_mut() { if h.op == "hinc" { let i: usize = trace_index(&o.trace, h.call);
                match (0..i).rev().find(|j| prog[h.tid][*j].starts_with("with:")) { Some(j) => { let c = class_of(h.tid, j); extra_incs[c] += 1; h.op = "inc".into(); h.result = format!("c{}", c); } None => { h.op = "nop".into(); } } } }
            hist.retain(|h| h.op != "nop");
            // a collect is its key-set operation plus one value read per shown key, all within its interval
            let mut extra = vec![];
            for h in hist.iter_mut() { if h.op == "collect" { let shown: Vec<(String, String)> = if h.result.is_empty() { vec![] } else { h.result.split('+').map(|kv| { let (k, v) = kv.split_once('=').unwrap(); (k.to_string(), v.to_string()) }).collect() };
                for (k, v) in &shown { extra.push(HOp { tid: h.tid, call: h.call, ret: h.ret, op: format!("cread:{}", k), result: v.clone() }); }
                h.result = shown.iter().map(|kv| kv.0.clone()).collect::<Vec<_>>().join("+"); } }
            hist.extend(extra);
            // ---- oracle: linearizable w.r.t. a map from label value to child (fresh child, value 0, when absent)
            #[derive(Clone)] struct St { map: Vec<(String, String)>, used: Vec<String>, vals: Vec<(String, u64)> }
            let apply = |st: &St, o: &HOp| -> Option<St> { let (name, k) = o.op.split_once(':').unwrap_or((o.op.as_str(), "")); let mut s = st.clone();
                match name {
                    "with" => { match s.map.iter().find(|e| e.0 == k) { Some(e) => if e.1 == o.result { Some(s) } else { None }, None => if s.used.contains(&o.result) { None } else { s.map.push((k.to_string(), o.result.clone())); s.used.push(o.result.clone()); s.vals.push((o.result.clone(), 0)); Some(s) } } }
                    "inc" => { match s.vals.iter_mut().find(|e| e.0 == o.result) { Some(e) => { e.1 += 1; Some(s) } None => None } }
                    "rm" => { let present = s.map.iter().any(|e| e.0 == k); if present != (o.result == "ok") { None } else { s.map.retain(|e| e.0 != k); Some(s) } }
                    "reset" => { s.map.clear(); Some(s) }
                    "collect" => { let mut ks: Vec<String> = s.map.iter().map(|e| e.0.clone()).collect(); ks.sort(); if ks.join("+") == o.result { Some(s) } else { None } }
                    "cread" => { match s.map.iter().find(|e| e.0 == k) { Some(e) => { let v = s.vals.iter().find(|x| x.0 == e.1).map(|x| x.1).unwrap_or(0); if v.to_string() == o.result { Some(s) } else { None } } None => None } }
                    _ => None } };
            let final_keys = { let mf = v.collect(); let mut ks: Vec<String> = mf[0].get_metric().iter().map(|m| m.get_label()[0].value().to_string()).collect(); ks.sort(); ks };
            let accept = |s: &St| { let mut ks: Vec<String> = s.map.iter().map(|e| e.0.clone()).collect(); ks.sort(); ks == final_keys };
            if o.stuck { fails.push(Failure { class: "stuck".into(), detail: line.clone() }); }
            else if !linearizable(&hist, St { map: vec![], used: vec![], vals: vec![] }, &apply, &accept) { fails.push(Failure { class: "not-linearizable".into(), detail: format!("no order consistent with real time explains {:?} (final keys {:?}) for {}", hist.iter().map(|h| format!("t{}:{}={}", h.tid, h.op, h.result)).collect::<Vec<_>>(), final_keys, line) }); }
            // no update lost: every class holds exactly the increments made through its handles
            for (ci, c) in classes.iter().enumerate() { let members = sig.iter().filter(|s| *s == c).count() as u64; let j = sig.iter().position(|s| s == c).unwrap(); if before[j] != members + extra_incs[ci] { fails.push(Failure { class: "update-lost".into(), detail: format!("child class {} was incremented {} times but holds {}", ci, members + extra_incs[ci], before[j]) }); } }
            if final_keys.windows(2).any(|w| w[0] == w[1]) { fails.push(Failure { class: "duplicate-in-collect".into(), detail: format!("{:?}", final_keys) }); }
            let concurrent = hist.iter().any(|a| hist.iter().any(|b| a.tid != b.tid && a.call < b.ret && b.call < a.ret));
            stats.seen(&[line.clone()], concurrent);
            let mut names: HashMap<usize, String> = HashMap::new(); names.insert(lock_addr, "lk".into());
            let txt = trace_text(&o.trace, &mut |a| { let n = names.len() - 1; names.entry(a).or_insert_with(|| format!("c{}", n)).clone() });
            model_lines.push(format!("cvec prog={} trace={}", field(&p, "prog").unwrap(), txt));
            outs.push(if o.stuck { "stuck".to_string() } else { format!("ok keys={}", if final_keys.is_empty() { "-".to_string() } else { final_keys.join("+") }) });
        }
        ExecOut { outs, fails, model_lines: Some(model_lines) }
    }
}

/// op index recorded in a `call.<i>.<op>` mark at trace position `pos`
fn trace_index(trace: &[Rec], pos: usize) -> usize { if let Rec::Mark { text, .. } = &trace[pos] { text.split('.').nth(1).unwrap().trim_end_matches('u').parse().unwrap() } else { 0 } }

// ===================================================================== chist
pub struct ConcHist;

fn hist_names(h: &Histogram, nb: usize) -> HashMap<usize, String> {
    let a = h.verif_addrs(); let mut m = HashMap::new();
    m.insert(a[0], "lk".to_string()); m.insert(a[1], "sc".to_string());
    for s in 0..2 { let base = 2 + s * (2 + nb); m.insert(a[base], format!("s{}c", s)); m.insert(a[base + 1], format!("s{}s", s)); for b in 0..nb { m.insert(a[base + 2 + b], format!("s{}b{}", s, b)); } }
    m
}

impl Area for ConcHist {
    fn corpus(&self) -> Vec<Vec<String>> {
        vec![vec!["chist bounds=1,2 prog=obs:1,obs:3|collect,collect|flush:1+2+2 sseed=4".into()], vec!["chist bounds=1 prog=collect|collect|obs:1,obs:1 sseed=8".into()],
             vec!["chist bounds=1,2 prog=obs:2|collect,count,sum|collect sseed=15".into()],
             vec!["chist bounds=-1,1 prog=obs:-2,obs:-1|collect,collect,sum|flush:-3+1 sseed=21".into()], vec!["chist bounds=1 prog=obs:-4|collect,collect,collect sseed=3".into()]]
    }
    fn gen(&self, rng: &mut Rng, _thorough: bool, _stats: &mut Stats) -> Vec<String> {
        let bounds = *rng.pick(&["1", "1,2", "1,2,4", "-1,1"]);
        let nt = rng.range(2, 4);
        let mut prog: Vec<String> = vec![]; let mut has_col = false;
        for t in 0..nt { let role = rng.below(10); let n = rng.range(1, 3);
            let ops: Vec<String> = (0..n).map(|_| if role < 4 || (t == nt - 1 && !has_col) { has_col = true; match rng.below(8) { 0..=5 => "collect".to_string(), 6 => "count".into(), _ => "sum".into() } }
                else if role < 8 { format!("obs:{}", rng.pick(&[0, 1, 2, 3, 5, -1, -2, -4])) } else { let k = rng.range(1, 3); format!("flush:{}", (0..k).map(|_| rng.pick(&[1, 2, 3, -1, -3, 0]).to_string()).collect::<Vec<_>>().join("+")) }).collect();
            prog.push(ops.join(",")); }
        vec![format!("chist bounds={} prog={} sseed={}", bounds, prog.join("|"), rng.next() % 1_000_000)]
    }
    fn exec(&self, lines: &[String], stats: &mut Stats) -> ExecOut {
        let mut outs = vec![]; let mut fails = vec![]; let mut model_lines = vec![];
        for line in lines {
            let p: Vec<&str> = line.split(' ').collect();
            let bounds: Vec<f64> = field(&p, "bounds").unwrap().split(',').map(|x| x.parse::<f64>().unwrap()).collect();
            let prog = parse_prog(field(&p, "prog").unwrap()); let sseed: u64 = field(&p, "sseed").unwrap().parse().unwrap();
            let h = Histogram::with_opts(HistogramOpts::new("h", "h").buckets(bounds.clone())).unwrap();
            let bodies: Vec<Body> = prog.iter().map(|ops| { let ops = ops.clone(); let h = h.clone();
                Box::new(move |ctx: &sched::Ctx| { for (i, op) in ops.iter().enumerate() {
                    ctx.mark(format!("call.{}.{}", i, op));
                    let (name, arg) = op.split_once(':').unwrap_or((op.as_str(), ""));
                    let r = match name {
                        "obs" => { h.observe(arg.parse::<f64>().unwrap()); "".to_string() }
                        "flush" => { let l = h.local(); for v in arg.split('+') { l.observe(v.parse::<f64>().unwrap()); } l.flush(); "".into() }
                        "collect" => { let (c, s, cum, _) = crate::areas::hist::snapshot(&h); format!("{}/{:x}/{}", c, s.to_bits(), cum.iter().map(|x| x.to_string()).collect::<Vec<_>>().join("+")) }
                        "count" => format!("{}", h.get_sample_count()),
                        _ => format!("{:x}", h.get_sample_sum().to_bits()),
                    };
                    ctx.mark(format!("ret.{}.{}", i, r));
                } }) as Body }).collect();
            let names = hist_names(&h, bounds.len());
            let mut rng = Rng::new(sseed);
            let sticky = *rng.pick(&[0usize, 50, 85]);
            let o = sched::run(bodies, &mut rng, sticky, 1, 6000, None);
            stats.hit("traces"); trace_stats("chist", &o.trace, stats);
            // ---- oracle (from the trace's order on shard_and_count): snapshot k = stats of the claims before flip k
            let hist = history(&o.trace);
            let sc_addr = *names.iter().find(|(_, n)| *n == "sc").unwrap().0;
            let mut claimed: Vec<f64> = vec![]; // values claimed so far, in claim order
            let mut cur_vals: HashMap<usize, Vec<f64>> = HashMap::new(); // thread -> values of its current call
            let mut flips: Vec<(usize, usize, Vec<f64>)> = vec![]; // (trace index, thread, claims before it)
            for (i, r) in o.trace.iter().enumerate() { match r {
                Rec::Mark { tid, text } => { let q: Vec<&str> = text.splitn(3, '.').collect(); if q[0] == "call" { let (name, arg) = q[2].split_once(':').unwrap_or((q[2], "")); cur_vals.insert(*tid, if name == "obs" { vec![arg.parse().unwrap()] } else if name == "flush" { arg.split('+').map(|v| v.parse().unwrap()).collect() } else { vec![] }); } }
                Rec::Op { tid, kind: Kind::FetchAdd, addr, a, .. } if *addr == sc_addr => { if *a == 1u64 << 63 { flips.push((i, *tid, claimed.clone())); } else { claimed.extend(cur_vals.get(tid).cloned().unwrap_or_default()); } }
                _ => {} } }
            let stats_of = |s: &Vec<f64>| -> String { format!("{}/{:x}/{}", s.len(), s.iter().fold(0.0f64, |a, v| a + *v).to_bits(), bounds.iter().map(|b| s.iter().filter(|v| **v <= *b).count().to_string()).collect::<Vec<_>>().join("+")) };
            { // windows of the hot/cold protocol that the schedules hit
              let count_addrs: Vec<usize> = names.iter().filter(|(_, n)| n.ends_with('c') && n.starts_with('s') && n.len() == 3).map(|(a, _)| *a).collect();
              let mut open: std::collections::BTreeSet<usize> = Default::default(); let (mut flips_inside, mut flips) = (0u64, 0u64); let mut spin_fail = 0u64;
              for r in o.trace.iter() { if let Rec::Op { tid, kind, addr, a, ok, .. } = r {
                  if *kind == Kind::FetchAdd && *addr == sc_addr { if *a == 1u64 << 63 { flips += 1; if !open.is_empty() { flips_inside += 1; } } else { open.insert(*tid); } }
                  else if *kind == Kind::FetchAdd && count_addrs.contains(addr) { open.remove(tid); }
                  else if *kind == Kind::Cas && count_addrs.contains(addr) && !*ok { spin_fail += 1; } } }
              stats.hit_n("chist:flips", flips); stats.hit_n("chist:flips-while-an-observation-was-between-claim-and-publish", flips_inside); stats.hit_n("chist:collector-spin-iterations-that-failed", spin_fail); }
            if o.stuck { fails.push(Failure { class: "collect-stuck".into(), detail: format!("an execution did not finish (a collect waits forever or a lock is never released): {}", line) }); }
            else {
                let mut snaps = 0;
                for c in hist.iter().filter(|c| c.op == "collect") { snaps += 1;
                    match flips.iter().find(|f| f.1 == c.tid && f.0 > c.call && f.0 < c.ret) {
                        Some(f) => { if stats_of(&f.2) != c.result { fails.push(Failure { class: "snapshot-not-a-cut".into(), detail: format!("t{} collect returned {} but the observations claimed before its flip are {:?} = {}; {}", c.tid, c.result, f.2, stats_of(&f.2), line) }); } }
                        None => fails.push(Failure { class: "snapshot-not-a-cut".into(), detail: format!("collect without a flip: {}", line) }),
                    } }
                let all: Vec<f64> = claimed.clone();
                let (c, s, cum, _) = crate::areas::hist::snapshot(&h);
                let fin = format!("{}/{:x}/{}", c, s.to_bits(), cum.iter().map(|x| x.to_string()).collect::<Vec<_>>().join("+"));
                let total: usize = prog.iter().flatten().map(|op| if op.starts_with("obs:") { 1 } else if let Some(a) = op.strip_prefix("flush:") { a.split('+').count() } else { 0 }).sum();
                if fin != stats_of(&all) || all.len() != total { fails.push(Failure { class: "observations-not-conserved".into(), detail: format!("after all threads finished a collect returns {} but all {} observations give {}; {}", fin, total, stats_of(&all), line) }); }
                if h.get_sample_count() != total as u64 || h.get_sample_sum() != all.iter().fold(0.0f64, |a, v| a + *v) { fails.push(Failure { class: "observations-not-conserved".into(), detail: format!("get_sample_count/sum = {}/{} after all threads finished; expected {}/{}", h.get_sample_count(), h.get_sample_sum(), total, all.iter().fold(0.0f64, |a, v| a + *v)) }); }
                // count / sum reads: a count read sees the claims made before its load
                stats.seen(&[line.clone()], snaps >= 1 && hist.iter().any(|a| a.op.starts_with("obs") || a.op.starts_with("flush")));
            }
            let txt = trace_text(&o.trace, &mut |a| names.get(&a).cloned().unwrap_or_else(|| format!("?{:x}", a & 0xfff)));
            model_lines.push(format!("chist bounds={} prog={} trace={}", field(&p, "bounds").unwrap(), field(&p, "prog").unwrap(), txt));
            outs.push(if o.stuck { "stuck".to_string() } else { let (c, s, cum, _) = crate::areas::hist::snapshot(&h); format!("ok final={}/{:x}/{}", c, s.to_bits(), cum.iter().map(|x| x.to_string()).collect::<Vec<_>>().join("+")) });
        }
        ExecOut { outs, fails, model_lines: Some(model_lines) }
    }
}

// ===================================================================== creg
/// concurrent register / unregister / gather on one Registry (C06, C14): each call is one critical
/// section of the registry lock; the calls must behave as if executed one at a time
pub struct ConcReg;

fn creg_def(kind: &str, name: &str, help: &str, k: &str, val: u32) -> String {
    let consts = if k.is_empty() { "-".to_string() } else { format!("6b:{}", hex(k)) };
    if kind.ends_with("vec") { format!("kind={}/name={}/help={}/consts={}/vars=6c/children={}", kind, hex(name), hex(help), consts, if val == 0 { "none".to_string() } else { "61;62".to_string() }) }
    else { format!("kind={}/name={}/help={}/consts={}/vars=-/val={}", kind, hex(name), hex(help), consts, f64_hex(val as f64)) }
}

fn creg_show(fams: &[proto::MetricFamily]) -> String { fams.iter().map(|f| format!("{}:{}", hex(f.name()), f.get_metric().len())).collect::<Vec<_>>().join("+") }
fn creg_run_op(r: &Registry, colls: &[crate::areas::reg::AnyColl], op: &str) -> String { let (name, a) = op.split_once(':').unwrap_or((op, "")); match name {
    "reg" => match r.register(colls[a.parse::<usize>().unwrap()].boxed()) { Ok(()) => "ok".into(), Err(e) => err_kind(&e) },
    "unreg" => match r.unregister(colls[a.parse::<usize>().unwrap()].boxed()) { Ok(()) => "ok".into(), Err(e) => err_kind(&e) },
    _ => creg_show(&r.gather()) } }

impl Area for ConcReg {
    fn corpus(&self) -> Vec<Vec<String>> {
        vec![vec![format!("creg defs={}@{} prog=reg:0,gather|reg:1,gather sseed=3", creg_def("counter", "m", "h", "1", 1), creg_def("gauge", "m", "other help", "2", 2))],
             vec![format!("creg defs={}@{}@{} prog=reg:0,unreg:0|reg:1|gather,reg:2,gather sseed=11", creg_def("counter", "m", "h", "1", 1), creg_def("counter", "m", "h", "1", 5), creg_def("histogram", "x", "h", "", 0))]]
    }
    fn gen(&self, rng: &mut Rng, _thorough: bool, _stats: &mut Stats) -> Vec<String> {
        let nd = rng.range(2, 3);
        let defs: Vec<String> = (0..nd).map(|_| { let kind = *rng.pick(&["counter", "gauge", "intcounter", "histogram", "countervec", "gaugevec"]);
            let nm = *rng.pick(&["m", "m", "x"]); let hp = *rng.pick(&["h", "h", "help"]); let kv = *rng.pick(&["1", "2", ""]); creg_def(kind, nm, hp, kv, rng.below(3) as u32) }).collect();
        let nt = rng.range(2, 3);
        let prog: Vec<String> = (0..nt).map(|_| { let n = rng.range(1, 3); (0..n).map(|_| { let i = rng.below(nd);
            match rng.below(10) { 0..=5 => format!("reg:{}", i), 6..=7 => format!("unreg:{}", i), _ => "gather".to_string() } }).collect::<Vec<_>>().join(",") }).collect();
        vec![format!("creg defs={} prog={} sseed={}", defs.join("@"), prog.join("|"), rng.next() % 1_000_000)]
    }
    fn exec(&self, lines: &[String], stats: &mut Stats) -> ExecOut {
        use crate::areas::reg::{build, AnyColl};
        let mut outs = vec![]; let mut fails = vec![]; let mut model_lines = vec![];
        let show = creg_show; let run_op = creg_run_op;
        for line in lines {
            let p: Vec<&str> = line.split(' ').collect();
            let defs_txt = field(&p, "defs").unwrap(); let prog = parse_prog(field(&p, "prog").unwrap()); let sseed: u64 = field(&p, "sseed").unwrap().parse().unwrap();
            let built: Vec<Option<crate::areas::reg::Def>> = defs_txt.split('@').map(|d| { let parts: Vec<&str> = d.split('/').collect(); build(&parts) }).collect();
            if built.iter().any(|b| b.is_none()) { outs.push("bad-def".into()); model_lines.push(format!("creg defs={} prog={} trace=-", defs_txt, field(&p, "prog").unwrap())); continue; }
            let colls: Vec<AnyColl> = built.iter().map(|b| b.as_ref().unwrap().coll.clone()).collect();
            let kinds: Vec<String> = built.iter().map(|b| b.as_ref().unwrap().kind.clone()).collect();
            let reg = Registry::new();
            let bodies: Vec<Body> = prog.iter().map(|ops| { let ops = ops.clone(); let reg = reg.clone(); let colls = colls.clone();
                Box::new(move |ctx: &sched::Ctx| { for (i, op) in ops.iter().enumerate() { ctx.mark(format!("call.{}.{}", i, op)); let r = run_op(&reg, &colls, op); ctx.mark(format!("ret.{}.{}", i, r)); } }) as Body }).collect();
            let lock = reg.verif_lock_addr();
            let mut rng = Rng::new(sseed); let sticky = *rng.pick(&[0usize, 50, 85]);
            let o = sched::run(bodies, &mut rng, sticky, 0, 4000, None);
            stats.hit("traces"); trace_stats("creg", &o.trace, stats);
            if o.stuck { fails.push(Failure { class: "stuck".into(), detail: line.clone() }); model_lines.push(format!("creg defs={} prog={} trace=-", defs_txt, field(&p, "prog").unwrap())); outs.push("stuck".into()); continue; }
            // ---- oracle: some order of the calls consistent with real time, executed one at a time on a fresh registry, gives every result and the final content
            let hist = history(&o.trace);
            let fin = show(&reg.gather());
            let replay = |ops: &Vec<String>| -> (Vec<String>, String) { let r = Registry::new(); let res: Vec<String> = ops.iter().map(|op| run_op(&r, &colls, op)).collect(); (res, show(&r.gather())) };
            #[derive(Clone)] struct St { ops: Vec<String> }
            let apply = |st: &St, h: &HOp| -> Option<St> { let mut ops = st.ops.clone(); ops.push(h.op.clone()); let (res, _) = replay(&ops); if res.last().unwrap() == &h.result { Some(St { ops }) } else { None } };
            let accept = |st: &St| -> bool { replay(&st.ops).1 == fin };
            if !linearizable(&hist, St { ops: vec![] }, &apply, &accept) { fails.push(Failure { class: "registry-not-linearizable".into(), detail: format!("no order consistent with real time, executed one call at a time, explains {:?} and the final content {} for {}", hist.iter().map(|h| format!("t{}:{}={}", h.tid, h.op, h.result)).collect::<Vec<_>>(), fin, line) }); }
            // C14 / C06: collectors with different help texts under one name can never be registered together, so no family may hold
            // samples of two such collectors (in particular not samples of different types)
            let gathered = reg.gather();
            for f in &gathered { let mut helps: std::collections::BTreeSet<String> = Default::default(); let mut tys: std::collections::BTreeSet<&str> = Default::default();
                for m in f.get_metric() { let ty = if m.counter.is_some() { "counter" } else if m.gauge.is_some() { "gauge" } else { "histogram" }; tys.insert(ty);
                    let k: String = m.get_label().iter().find(|l| l.name() == "k").map(|l| l.value().to_string()).unwrap_or_default();
                    // the definitions this sample can come from: same name, same const value, same kind of value
                    let cands: std::collections::BTreeSet<String> = (0..colls.len()).filter(|i| { let c = colls[*i].boxed(); let d = c.desc(); d[0].fq_name == f.name() && kinds[*i] == ty && d[0].const_label_pairs.iter().find(|l| l.name() == "k").map(|l| l.value().to_string()).unwrap_or_default() == k })
                        .map(|i| colls[i].boxed().desc()[0].help.clone()).collect();
                    if cands.len() == 1 { helps.extend(cands); } }
                if helps.len() > 1 { fails.push(Failure { class: if tys.len() > 1 { "family-mixes-types".into() } else { "admission-wrong".into() }, detail: format!("collectors with different help texts {:?} are registered together under the name {} (sample types {:?}): {}", helps, f.name(), tys, line) }); } }
            let _ = &kinds;
            let concurrent = hist.iter().any(|a| hist.iter().any(|b| a.tid != b.tid && a.call < b.ret && b.call < a.ret));
            stats.seen(&[line.clone()], concurrent);
            // the trace sent to the model: the registry lock only (collectors' own atomics, read by gather, are not the registry's)
            let tr: Vec<Rec> = o.trace.iter().filter(|r| match r { Rec::Op { addr, .. } => *addr == lock, _ => true }).cloned().collect();
            let txt = trace_text(&tr, &mut |_| "lk".to_string());
            model_lines.push(format!("creg defs={} prog={} trace={}", defs_txt, field(&p, "prog").unwrap(), txt));
            outs.push(format!("ok final={}", fin));
        }
        ExecOut { outs, fails, model_lines: Some(model_lines) }
    }
}
