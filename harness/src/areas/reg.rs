//! area `reg` (C06, C07, C14, gather part of C09): registry admission histories and gather().
use crate::areas::vec::{pairs_str, parse_pairs};
use crate::rng::Rng;
use crate::util::*;
use crate::{Area, ExecOut, Failure};
use prometheus::core::{Collector, Desc};
use prometheus::proto::{MetricFamily, MetricType};
use prometheus::*;
use std::collections::{BTreeMap, BTreeSet, HashMap};

pub struct RegArea;

#[derive(Clone)]
struct Custom { descs: Vec<Desc>, fams: Vec<MetricFamily> }
impl Collector for Custom {
    fn desc(&self) -> Vec<&Desc> { self.descs.iter().collect() }
    fn collect(&self) -> Vec<MetricFamily> { self.fams.clone() }
}

#[derive(Clone)]
pub(crate) enum AnyColl { C(Counter), IC(IntCounter), G(Gauge), IG(IntGauge), H(Histogram), P(PullingGauge), CV(CounterVec), GV(GaugeVec), X(Custom) }
impl AnyColl {
    pub(crate) fn boxed(&self) -> Box<dyn Collector> { match self.clone() { AnyColl::C(x) => Box::new(x), AnyColl::IC(x) => Box::new(x), AnyColl::G(x) => Box::new(x), AnyColl::IG(x) => Box::new(x), AnyColl::H(x) => Box::new(x), AnyColl::P(x) => Box::new(x), AnyColl::CV(x) => Box::new(x), AnyColl::GV(x) => Box::new(x), AnyColl::X(x) => Box::new(x) } }
}

/// structural view of a descriptor (what the property talks about)
#[derive(Clone, PartialEq, Eq, Debug)]
pub(crate) struct SDesc { fq: String, const_vals: Vec<String>, help: String, const_names: Vec<String>, var_names: Vec<String> }

pub(crate) struct Def { pub(crate) coll: AnyColl, sdescs: Vec<SDesc>, pub(crate) kind: String, all_label_names: Vec<Vec<String>> }

fn opts_of(name: &str, help: &str, consts: &[(String, String)]) -> Opts { let mut o = Opts::new(name, help); for (k, v) in consts { o = o.const_label(k.clone(), v.clone()); } o }

fn sdesc(fq: &str, help: &str, consts: &[(String, String)], vars: &[String]) -> SDesc {
    let mut c = consts.to_vec(); c.sort();
    let mut v = vars.to_vec(); v.sort();
    SDesc { fq: fq.into(), const_vals: c.iter().map(|x| x.1.clone()).collect(), help: help.into(), const_names: c.iter().map(|x| x.0.clone()).collect(), var_names: v }
}

pub(crate) fn build(parts: &[&str]) -> Option<Def> {
    let kind = field(parts, "kind")?;
    let name = unhex_list(field(parts, "name")?)[0].clone(); let help = unhex_list(field(parts, "help")?)[0].clone();
    let consts = parse_pairs(field(parts, "consts")?); let vars = unhex_list(field(parts, "vars")?);
    let val = field(parts, "val").map(f64_parse).unwrap_or(0.0);
    let mut names: Vec<String> = consts.iter().map(|c| c.0.clone()).collect(); names.extend(vars.iter().cloned());
    let sd = vec![sdesc(&name, &help, &consts, &vars)];
    let o = opts_of(&name, &help, &consts).variable_labels(vars.clone());
    let vnames: Vec<&str> = vars.iter().map(|s| s.as_str()).collect();
    let coll = match kind {
        "counter" => { let c = Counter::with_opts(o).ok()?; c.inc_by(val); AnyColl::C(c) }
        "intcounter" => { let c = IntCounter::with_opts(o).ok()?; c.inc_by(val as u64); AnyColl::IC(c) }
        "gauge" => { let c = Gauge::with_opts(o).ok()?; c.set(val); AnyColl::G(c) }
        "intgauge" => { let c = IntGauge::with_opts(o).ok()?; c.set(val as i64); AnyColl::IG(c) }
        "histogram" => { let h = Histogram::with_opts(HistogramOpts::from(o).buckets(vec![0.5, 2.0])).ok()?; for v in f64_parse_list(field(parts, "obs").unwrap_or("-")) { h.observe(v); } AnyColl::H(h) }
        "pulling" => { let v = val; AnyColl::P(PullingGauge::new(name.clone(), help.clone(), Box::new(move || v)).ok()?) }
        "countervec" | "gaugevec" => {
            let ch = field(parts, "children").unwrap_or("none");
            let tuples: Vec<Vec<String>> = if ch == "none" { vec![] } else { ch.split(';').map(unhex_list).collect() };
            if kind == "countervec" { let v = CounterVec::new(opts_of(&name, &help, &consts), &vnames).ok()?; for (i, t) in tuples.iter().enumerate() { let tv: Vec<&str> = t.iter().map(|s| s.as_str()).collect();
                // every child is addressed by position AND by name: both forms must reach the same child (gather shows each label set once)
                let by_pos = v.get_metric_with_label_values(&tv).ok()?; let by_name = v.get_metric_with(&vnames.iter().cloned().zip(tv.iter().cloned()).collect::<HashMap<&str, &str>>()).ok()?;
                if i % 2 == 0 { by_pos.inc_by((i + 1) as f64); by_name.inc_by(0.0); } else { by_name.inc_by((i + 1) as f64); by_pos.inc_by(0.0); } } AnyColl::CV(v) }
            else { let v = GaugeVec::new(opts_of(&name, &help, &consts), &vnames).ok()?; for (i, t) in tuples.iter().enumerate() { let tv: Vec<&str> = t.iter().map(|s| s.as_str()).collect();
                let by_pos = v.get_metric_with_label_values(&tv).ok()?; let by_name = v.get_metric_with(&vnames.iter().cloned().zip(tv.iter().cloned()).collect::<HashMap<&str, &str>>()).ok()?;
                if i % 2 == 0 { by_pos.set((i + 1) as f64); by_name.add(0.0); } else { by_name.set((i + 1) as f64); by_pos.add(0.0); } } AnyColl::GV(v) }
        }
        "custom" => {
            let mut descs = vec![]; let mut fams = vec![]; let mut sds = vec![]; let mut lnames = vec![];
            for p in parts { if let Some(s) = p.strip_prefix("sub=") {
                let f: Vec<&str> = s.split('/').collect();
                let (n, h, ps, v) = (unhex_list(f[0])[0].clone(), unhex_list(f[1])[0].clone(), parse_pairs(f[2]), f64_parse(f[3]));
                let c = Counter::with_opts(opts_of(&n, &h, &ps)).ok()?; c.inc_by(v);
                descs.push(c.desc()[0].clone()); fams.extend(c.collect()); sds.push(sdesc(&n, &h, &ps, &[])); lnames.push(ps.iter().map(|x| x.0.clone()).collect());
            } }
            // `nodesc=1`: a collector that describes nothing (collector id 0) but still collects its samples
            if parts.contains(&"nodesc=1") { descs.clear(); sds.clear(); }
            return Some(Def { coll: AnyColl::X(Custom { descs, fams }), sdescs: sds, kind: "counter".into(), all_label_names: lnames });
        }
        _ => return None,
    };
    let k = match kind { "counter" | "intcounter" | "countervec" => "counter", "histogram" => "histogram", _ => "gauge" };
    Some(Def { coll, sdescs: if kind == "pulling" { vec![sdesc(&name, &help, &[], &[])] } else { sd }, kind: k.into(), all_label_names: vec![names] })
}

fn show_sample_val(ty: MetricType, m: &proto::Metric) -> String {
    match ty {
        MetricType::COUNTER => format!("c:{}", f64_show(m.get_counter().value())),
        MetricType::GAUGE => format!("g:{}", f64_show(m.get_gauge().value())),
        MetricType::HISTOGRAM => { let h = m.get_histogram(); format!("h:{}/{}/{}", h.get_sample_count(), f64_show(h.get_sample_sum()), if h.get_bucket().is_empty() { "-".to_string() } else { h.get_bucket().iter().map(|b| format!("{}~{}", f64_show(b.upper_bound()), b.cumulative_count())).collect::<Vec<_>>().join(",") }) }
        _ => "?".into(),
    }
}
fn show_family(f: &MetricFamily) -> String {
    let ty = f.get_field_type();
    let samples: Vec<String> = f.get_metric().iter().map(|m| format!("{}={}@{}", pairs_str(&m.get_label().iter().map(|p| (p.name().to_string(), p.value().to_string())).collect::<Vec<_>>()), show_sample_val(ty, m), m.timestamp_ms())).collect();
    format!("{}^{}^{}^{}", hex_list(&[f.name()]), hex_list(&[f.help()]), format!("{:?}", ty).to_lowercase(), if samples.is_empty() { "-".to_string() } else { samples.join(";") })
}
fn show_gather(fams: &[MetricFamily]) -> String { if fams.is_empty() { "-".into() } else { fams.iter().map(show_family).collect::<Vec<_>>().join(" | ") } }

fn ident_ok(s: &str, colon: bool) -> bool { let b = s.as_bytes(); !b.is_empty() && (b[0].is_ascii_alphabetic() || b[0] == b'_' || (colon && b[0] == b':')) && b[1..].iter().all(|c| c.is_ascii_alphanumeric() || *c == b'_' || (colon && *c == b':')) }

const NAMES: &[&str] = &["m", "m2", "a_b", "req_total", "x"];
const HELPS: &[&str] = &["h", "help"];

fn gen_def(rng: &mut Rng, cid: usize, stats: &mut Stats) -> String {
    let kind = *rng.pick(&["counter", "counter", "intcounter", "gauge", "intgauge", "histogram", "pulling", "countervec", "countervec", "gaugevec", "custom", "custom"]);
    let name = *rng.pick(NAMES); let help = if rng.chance(85) { "h" } else { *rng.pick(HELPS) };
    let cpool: &[(&str, &[&str])] = &[("k", &["1", "2", ""]), ("z", &["1", "ab"]), ("a", &["x"])];
    let mut consts: Vec<(String, String)> = vec![];
    for (k, vs) in cpool { if rng.chance(35) { consts.push((k.to_string(), rng.pick(vs).to_string())); } }
    rng.shuffle(&mut consts);
    stats.hit(&format!("def:{}", kind));
    match kind {
        "pulling" => format!("reg def c{} kind=pulling name={} help={} consts=- vars=- val={}", cid, hex(name), hex(help), f64_hex(rng.below(5) as f64)),
        "countervec" | "gaugevec" => {
            let vars: Vec<String> = if rng.chance(50) { vec!["l".into()] } else { vec!["l".into(), "b".into()] };
            let nch = rng.below(5);
            let vals = ["", "a", "ab", "b", "a\u{ff}", "10", "9", "a\u{0}b", "c"];   // "a\0b" next to "a": a sort key that joins the values must not confuse them
            let mut seen = BTreeSet::new(); let mut ch = vec![];
            for _ in 0..nch { let t: Vec<String> = vars.iter().map(|_| rng.pick(&vals).to_string()).collect(); if seen.insert(t.clone()) { ch.push(hex_list(&t)); } }
            format!("reg def c{} kind={} name={} help={} consts={} vars={} children={}", cid, kind, hex(name), hex(help), pairs_str(&consts), hex_list(&vars), if ch.is_empty() { "none".to_string() } else { ch.join(";") })
        }
        "custom" => {
            let n = if rng.chance(12) { 0 } else { rng.range(1, 3) }; let mut subs = vec![];   // n = 0: a collector without descriptors (collector id 0)
            for _ in 0..n { let nm = *rng.pick(NAMES); let hp = if rng.chance(85) { "h" } else { "help" }; let mut cs: Vec<(String, String)> = vec![]; for (k, vs) in cpool { if rng.chance(35) { cs.push((k.to_string(), rng.pick(vs).to_string())); } }
                subs.push(format!("sub={}/{}/{}/{}", hex(nm), hex(hp), pairs_str(&cs), f64_hex(rng.below(4) as f64))); }
            // a collector that describes nothing is admitted without any check, so its samples get names nobody else uses and no labels
            // (what it may legitimately clash with is not the registry's business); two of them compete for collector id 0
            let nodesc = n > 0 && rng.chance(15); if nodesc { stats.hit("def:custom-without-descriptors-with-samples");
                subs = (0..n).map(|j| format!("sub={}/{}/-/{}", hex(&format!("nd{}x{}", cid, j)), hex("h"), f64_hex((j + 1) as f64))).collect(); }
            format!("reg def c{} kind=custom name={} help={} consts=- vars=- {}{}", cid, hex(name), hex(help), subs.join(" "), if nodesc { " nodesc=1" } else { "" })
        }
        "histogram" => format!("reg def c{} kind=histogram name={} help={} consts={} vars=- obs={}", cid, hex(name), hex(help), pairs_str(&consts), f64_list(&(0..rng.below(4)).map(|_| *rng.pick(&[0.25, 0.5, 1.0, 3.0])).collect::<Vec<_>>())),
        _ => format!("reg def c{} kind={} name={} help={} consts={} vars=- val={}", cid, kind, hex(name), hex(help), pairs_str(&consts), f64_hex(rng.below(6) as f64)),
    }
}

/// a collector that legitimately shares its name with `line`'s: same kind group, help and label
/// names, another const-label value
fn sibling(line: &str, cid: usize, rng: &mut Rng) -> Option<String> {
    let parts: Vec<&str> = line.split(' ').collect();
    let consts = field(&parts, "consts")?;
    if consts == "-" || field(&parts, "kind")? == "custom" { return None; }
    let mut ps = parse_pairs(consts);
    let i = rng.below(ps.len());
    let old = ps[i].1.clone();
    let cand: Vec<&str> = ["1", "2", "3", "", "ab"].iter().cloned().filter(|v| *v != old).collect();
    ps[i].1 = rng.pick(&cand).to_string();
    let kind = field(&parts, "kind")?;
    // a vector of the OTHER kind without any child: it contributes no sample, so the family keeps one kind (not the K2 class)
    if (kind == "countervec" || kind == "gaugevec") && rng.chance(35) {
        let other = if kind == "countervec" { "gaugevec" } else { "countervec" };
        return Some(parts.iter().enumerate().map(|(j, p)| if j == 2 { format!("c{}", cid) } else if p.starts_with("kind=") { format!("kind={}", other) } else if p.starts_with("consts=") { format!("consts={}", pairs_str(&ps)) } else if p.starts_with("children=") { "children=none".to_string() } else { p.to_string() }).collect::<Vec<_>>().join(" "));
    }
    let nk = match kind { "counter" => *rng.pick(&["counter", "intcounter"]), "intcounter" => *rng.pick(&["counter", "intcounter"]), "gauge" => *rng.pick(&["gauge", "intgauge"]), "intgauge" => *rng.pick(&["gauge", "intgauge"]), k => k };
    Some(parts.iter().enumerate().map(|(j, p)| if j == 2 { format!("c{}", cid) } else if p.starts_with("kind=") { format!("kind={}", nk) } else if p.starts_with("consts=") { format!("consts={}", pairs_str(&ps)) } else { p.to_string() }).collect::<Vec<_>>().join(" "))
}

impl Area for RegArea {
    fn corpus(&self) -> Vec<Vec<String>> {
        let s = |x: &[&str]| x.iter().map(|l| l.to_string()).collect::<Vec<String>>();
        vec![
            // F3 witness (fixed): failed multi-descriptor registration must leave no trace
            s(&["reg new prefix=none labels=none", "reg def c0 kind=counter name=6d32 help=68 consts=6b:31 vars=- val=3ff0000000000000", "reg register c0",
                "reg def c1 kind=custom name=78 help=68 consts=- vars=- sub=6d/68/-/3ff0000000000000 sub=6d32/68/6b:31/3ff0000000000000", "reg register c1",
                "reg def c2 kind=counter name=6d help=68656c70 consts=7a:31 vars=- val=4000000000000000", "reg register c2", "reg gather"]),
            // F5 witness (fixed): two common labels
            s(&["reg new prefix=70 labels=7a7a:31,6161:32,6d6d:33", "reg def c0 kind=countervec name=6d help=68 consts=6b:31 vars=6c children=62;61;~", "reg register c0", "reg gather"]),
            // F7 / F8 witnesses (fixed)
            s(&["reg new prefix=39206261 labels=none"]), s(&["reg new prefix=none labels=6261642d6e616d65:31"]),
            s(&["reg new prefix=none labels=61:636f6d6d6f6e", "reg def c0 kind=counter name=6d help=68 consts=61:6f776e vars=- val=3ff0000000000000", "reg register c0", "reg gather"]),
            // an empty vector of another kind under the same name contributes nothing: the family keeps the type of the collector that has samples
            s(&["reg new prefix=none labels=none", "reg def c0 kind=countervec name=6d help=68 consts=6b:31 vars=6c children=none", "reg def c1 kind=gaugevec name=6d help=68 consts=6b:32 vars=6c children=61;62", "reg register c0", "reg register c1", "reg gather", "reg unregister c0", "reg register c0", "reg gather"]),
            // a collector without descriptors can be registered once, not twice; unregistering it frees the slot
            s(&["reg new prefix=none labels=none", "reg def c0 kind=custom name=6d help=68 consts=- vars=-", "reg def c1 kind=custom name=78 help=68 consts=- vars=-", "reg register c0", "reg register c1", "reg gather", "reg unregister c1", "reg register c1", "reg register c0"]),
            // K2 witness (known finding): counter and gauge under one name
            s(&["reg new prefix=none labels=none", "reg def c0 kind=counter name=6d help=68 consts=6b:31 vars=- val=3ff0000000000000", "reg def c1 kind=gauge name=6d help=68 consts=6b:32 vars=- val=4000000000000000", "reg register c0", "reg register c1", "reg gather"]),
        ]
    }

    fn gen(&self, rng: &mut Rng, thorough: bool, stats: &mut Stats) -> Vec<String> {
        let prefix = if rng.chance(70) { "none".to_string() } else if rng.chance(85) { hex_list(&[rng.pick(&["p", "ns:x", "_"])]) } else { stats.hit("new:bad-prefix"); hex_list(&[rng.pick(&["", "9p", "p q", "é"])]) };
        let labels = if rng.chance(60) { "none".to_string() } else {
            let pool = [("zone", "eu"), ("aa", "1"), ("k", "common"), ("mm", ""), ("bad name", "v"), ("l", "c")];
            let mut v = vec![]; for (k, val) in pool.iter() { if rng.chance(if *k == "bad name" { 6 } else if *k == "k" || *k == "l" { 12 } else { 40 }) { v.push((k.to_string(), val.to_string())); } }
            rng.shuffle(&mut v); pairs_str(&v) };
        let mut lines = vec![format!("reg new prefix={} labels={}", prefix, labels)];
        let ndef = rng.range(2, 6);
        let mut i = 0;
        while i < ndef {
            // twins whose descriptors differ only in where a U+00FF sits relative to a field boundary (the separator BYTE 0xff never occurs in UTF-8 text, the CHARACTER does):
            // ids must differ (both admitted), dimension signatures must differ (the second refused)
            if i + 1 < ndef && rng.chance(14) {
                let name = *rng.pick(NAMES); let kind = *rng.pick(&["counter", "gauge", "intcounter"]);
                // (third kind of twin) EQUAL descriptors - same name, same three constant labels - built separately, for collectors of different kinds:
                // the second registration must be refused whatever order the two label maps iterate in
                if rng.chance(35) { stats.hit("def:twin-equal-identity-other-kind");
                    let ks = [("k", "1"), ("z", "ab"), ("a", "x")];
                    for (j, kind) in [*rng.pick(&["counter", "intcounter"]), *rng.pick(&["gauge", "intgauge"])].iter().enumerate() { let mut cs: Vec<(String, String)> = ks.iter().map(|(a, b)| (a.to_string(), b.to_string())).collect(); rng.shuffle(&mut cs);
                        lines.push(format!("reg def c{} kind={} name={} help={} consts={} vars=- val={}", i + j, kind, hex(name), hex("h"), pairs_str(&cs), f64_hex((j + 1) as f64))); }
                    i += 2; continue; }
                let (h0, c0, h1, c1): (&str, Vec<(&str, &str)>, &str, Vec<(&str, &str)>) = if rng.chance(50) { stats.hit("def:twin-id-boundary"); ("h", vec![("k", "1\u{ff}x"), ("z", "ab")], "h", vec![("k", "1"), ("z", "x\u{ff}ab")]) }
                    else { stats.hit("def:twin-dim-boundary"); ("h", vec![("a", "x")], "h\u{ff}a", vec![]) };
                for (j, (h, c)) in [(h0, c0), (h1, c1)].iter().enumerate() { let mut cs: Vec<(String, String)> = c.iter().map(|(a, b)| (a.to_string(), b.to_string())).collect(); rng.shuffle(&mut cs);
                    lines.push(format!("reg def c{} kind={} name={} help={} consts={} vars=- val={}", i + j, kind, hex(name), hex(h), pairs_str(&cs), f64_hex((j + 1) as f64))); }
                i += 2; continue;
            }
            if i > 0 && rng.chance(40) { let src = lines[rng.range(1, i)].clone(); if let Some(l) = sibling(&src, i, rng) { stats.hit("def:sibling-same-name"); lines.push(l); i += 1; continue; } }
            lines.push(gen_def(rng, i, stats)); i += 1;
        }
        let nops = rng.range(4, if thorough { 40 } else { 16 });
        for _ in 0..nops {
            let k = rng.below(100); let c = rng.below(ndef);
            if k < 50 { lines.push(format!("reg register c{}", c)); } else if k < 72 { lines.push(format!("reg unregister c{}", c)); }
            else if k < 80 { let i = rng.below(ndef); lines.push(gen_def(rng, i, stats)); } else { lines.push("reg gather".into()); }
        }
        lines.push("reg gather".into());
        lines
    }

    fn exec(&self, lines: &[String], stats: &mut Stats) -> ExecOut {
        let mut outs = vec![]; let mut fails: Vec<Failure> = vec![];
        let mut reg: Option<Registry> = None; let mut prefix: Option<String> = None; let mut common: Vec<(String, String)> = vec![];
        let mut defs: HashMap<String, Def> = HashMap::new();
        // reference state of the property: currently registered collectors, and the signature of every name ever admitted
        let mut registered: Vec<(Vec<SDesc>, AnyColl, String)> = vec![];
        let mut sigs: HashMap<String, (String, Vec<String>, Vec<String>)> = HashMap::new();
        let mut nreg_ok = 0; let mut nreg_err = 0;
        for line in lines {
            let parts: Vec<&str> = line.split(' ').collect();
            match parts[1] {
                "new" => {
                    let p = field(&parts, "prefix").unwrap(); let l = field(&parts, "labels").unwrap();
                    prefix = if p == "none" { None } else { Some(unhex_list(p)[0].clone()) };
                    common = if l == "none" { vec![] } else { parse_pairs(l) };
                    let hm: Option<HashMap<String, String>> = if l == "none" { None } else { Some(common.iter().cloned().collect()) };
                    registered.clear(); sigs.clear(); defs.clear();
                    let want_ok = prefix.as_ref().map(|p| ident_ok(p, true)).unwrap_or(true) && common.iter().all(|(k, _)| ident_ok(k, false));
                    match Registry::new_custom(prefix.clone(), hm) {
                        Ok(r) => { if !want_ok { fails.push(Failure { class: "registry-accepts-invalid-names".into(), detail: format!("new_custom accepted {}", line) }); } reg = Some(r); outs.push("ok".into()) }
                        Err(e) => { if want_ok { fails.push(Failure { class: "registry-refuses-valid-names".into(), detail: line.clone() }); } reg = None; outs.push(err_kind(&e)) }
                    }
                }
                "def" => { match build(&parts[3..]) { Some(d) => { defs.insert(parts[2].to_string(), d); outs.push("ok".into()) } None => { defs.remove(parts[2]); outs.push("err".into()) } } }
                "register" | "unregister" => {
                    let (r, d) = match (&reg, defs.get(parts[2])) { (Some(r), Some(d)) => (r, d), _ => { outs.push("no-coll".into()); continue } };
                    if parts[1] == "register" {
                        // ---- oracle C06: first offending descriptor in the collector's own order decides
                        let mut want = "ok".to_string(); let mut seen: Vec<&SDesc> = vec![]; let mut staged: HashMap<String, (String, Vec<String>, Vec<String>)> = HashMap::new();
                        for (sd, lnames) in d.sdescs.iter().zip(d.all_label_names.iter()) {
                            let equal_registered = registered.iter().any(|(rs, _, _)| rs.iter().any(|x| x.fq == sd.fq && x.const_vals == sd.const_vals));
                            let sig = (sd.help.clone(), sd.const_names.clone(), sd.var_names.clone());
                            let sig_bad = sigs.get(&sd.fq).or(staged.get(&sd.fq)).map(|s| *s != sig).unwrap_or(false);
                            if lnames.iter().any(|n| common.iter().any(|(k, _)| k == n)) { want = "err:Msg".into(); break; }
                            if equal_registered { want = "err:AlreadyReg".into(); break; }
                            if sig_bad { want = "err:Msg".into(); break; }
                            if seen.iter().any(|x| x.fq == sd.fq && x.const_vals == sd.const_vals) { want = "err:Msg".into(); break; }
                            seen.push(sd); staged.insert(sd.fq.clone(), sig);
                        }
                        if want == "ok" && d.sdescs.is_empty() && registered.iter().any(|(rs, _, _)| rs.is_empty()) { want = "err:AlreadyReg".into(); }
                        let before = show_gather(&r.gather());
                        let got = match r.register(d.coll.boxed()) { Ok(()) => "ok".to_string(), Err(e) => err_kind(&e) };
                        // "the registry afterwards behaves exactly as if the call had never been made": a refused registration leaves what gather() returns untouched
                        if got != "ok" { let after = show_gather(&r.gather()); if after != before { fails.push(Failure { class: "admission-wrong".into(), detail: format!("`{}` was refused ({}) but changed what the registry gathers: before [{}], after [{}]", line, got, before, after) }); } }
                        if got != want { fails.push(Failure { class: if (got == "ok") != (want == "ok") { "admission-wrong".into() } else { "admission-error-kind".into() }, detail: format!("`{}` returned {}, the admission rule gives {}", line, got, want) }); }
                        if got == "ok" { nreg_ok += 1; registered.push((d.sdescs.clone(), d.coll.clone(), d.kind.clone())); for (k, v) in staged { sigs.insert(k, v); } } else { nreg_err += 1; }
                        stats.hit(&format!("register:{}", got));
                        outs.push(got);
                    } else {
                        let key = |s: &Vec<SDesc>| { let mut k: Vec<(String, Vec<String>)> = s.iter().map(|x| (x.fq.clone(), x.const_vals.clone())).collect(); k.sort(); k.dedup(); k };
                        let pos = registered.iter().position(|(rs, _, _)| key(rs) == key(&d.sdescs));
                        let want = if pos.is_some() { "ok" } else { "err:Msg" };
                        let got = match r.unregister(d.coll.boxed()) { Ok(()) => "ok".to_string(), Err(e) => err_kind(&e) };
                        if got != want { fails.push(Failure { class: "unregister-wrong".into(), detail: format!("`{}` returned {}, expected {}", line, got, want) }); }
                        if got == "ok" { if let Some(p) = pos { registered.remove(p); } }
                        stats.hit(&format!("unregister:{}", got));
                        outs.push(got);
                    }
                }
                "gather" => {
                    let r = match &reg { Some(r) => r, None => { outs.push("no-reg".into()); continue } };
                    let got = r.gather();
                    // K2 class: collectors of different kinds under one name
                    let mut kinds: BTreeMap<String, BTreeSet<String>> = BTreeMap::new();
                    for (_, c, k) in &registered { for f in c.boxed().collect() { if !f.get_metric().is_empty() { kinds.entry(f.name().to_string()).or_default().insert(k.clone()); } } }
                    let mixed = kinds.values().any(|s| s.len() > 1);
                    // ---- oracle C07: one family per name with samples, name order, each sample once, sorted by label values, prefix + common labels
                    let mut want: BTreeMap<String, (String, String, Vec<(Vec<(String, String)>, String)>)> = BTreeMap::new();
                    for (_, c, _) in &registered { for f in c.boxed().collect() { if f.get_metric().is_empty() { continue; }
                        let e = want.entry(f.name().to_string()).or_insert((f.help().to_string(), format!("{:?}", f.get_field_type()).to_lowercase(), vec![]));
                        // canonical form: a sample's own labels in label-name order (what makes the positional comparison of values meaningful)
                        for m in f.get_metric() { let mut ls: Vec<(String, String)> = m.get_label().iter().map(|p| (p.name().to_string(), p.value().to_string())).collect(); ls.sort_by(|a, b| a.0.cmp(&b.0)); e.2.push((ls, show_sample_val(f.get_field_type(), m))); } } }
                    // each sample once: a library collector (not a hand-built one) never reports two samples with the same label set, however its children were addressed
                    for (_, c, _) in &registered { if let AnyColl::X(_) = c { continue; } for f in c.boxed().collect() { let mut seen = BTreeSet::new();
                        for m in f.get_metric() { let mut ls: Vec<(String, String)> = m.get_label().iter().map(|p| (p.name().to_string(), p.value().to_string())).collect(); ls.sort();
                            if !seen.insert(ls.clone()) { fails.push(Failure { class: "gather-mismatch".into(), detail: format!("family {} of one collector holds two samples with the label set {:?} (a child addressed by position and by name must be one child); gathered: {}", f.name(), ls, show_gather(&got)) }); } } } }
                    let mut cl = common.clone(); cl.sort();
                    let want_s: Vec<String> = want.iter().map(|(n, (h, t, ss))| { let mut ss = ss.clone(); ss.sort_by(|a, b| (a.0.len(), a.0.iter().map(|p| p.1.clone()).collect::<Vec<_>>()).cmp(&(b.0.len(), b.0.iter().map(|p| p.1.clone()).collect::<Vec<_>>())));
                        format!("{}^{}^{}^{}", hex_list(&[&match &prefix { Some(p) => format!("{}_{}", p, n), None => n.clone() }]), hex_list(&[h]), t, ss.iter().map(|(l, v)| { let mut l = l.clone(); l.extend(cl.iter().cloned()); format!("{}={}@0", pairs_str(&l), v) }).collect::<Vec<_>>().join(";")) }).collect();
                    let got_s = show_gather(&got);
                    // two registered collectors never own an equal descriptor (same name and const values): a family mixing the types of
                    // two such collectors is not the known finding (which needs legitimately admitted collectors) but an admission failure
                    let dup_identity = (0..registered.len()).any(|i| (0..i).any(|j| registered[i].2 != registered[j].2 && registered[i].0.iter().any(|x| registered[j].0.iter().any(|y| x.fq == y.fq && x.const_vals == y.const_vals))));
                    if mixed && dup_identity { fails.push(Failure { class: "family-mixes-types".into(), detail: format!("collectors of different kinds that own an EQUAL descriptor are registered together: {:?}; gathered: {}", kinds, show_gather(&got)) }); }
                    if mixed { stats.hit("gather:mixed-kinds");
                        fails.push(Failure { class: "mixed-kinds-same-name".into(), detail: format!("collectors of different kinds share a name: {:?}; gathered: {}", kinds, got_s) });
                        outs.push("mixed-types".into());
                    } else {
                        let ws = if want_s.is_empty() { "-".to_string() } else { want_s.join(" | ") };
                        if got_s != ws { fails.push(Failure { class: "gather-mismatch".into(), detail: format!("gather() = {} ; complete/sorted expectation = {}", got_s, ws) }); }
                        // determinism: the same collectors registered in other orders into fresh registries
                        for rev in [false, true] {
                            let hm: Option<HashMap<String, String>> = if common.is_empty() && !line.is_empty() && lines[0].contains("labels=none") { None } else { Some(common.iter().cloned().collect()) };
                            if let Ok(r2) = Registry::new_custom(prefix.clone(), hm) {
                                let mut order: Vec<usize> = (0..registered.len()).collect(); if rev { order.reverse(); } else { order.rotate_left(registered.len() / 2); }
                                let mut ok = true; for i in order { if r2.register(registered[i].1.boxed()).is_err() { ok = false; } }
                                if ok { let g2 = show_gather(&r2.gather()); if g2 != got_s { fails.push(Failure { class: "gather-order-dependent".into(), detail: format!("{} vs {}", got_s, g2) }); } }
                            }
                        }
                        // C14: every sample carries a value of the family's type
                        for f in &got { for m in f.get_metric() { let ok = match f.get_field_type() { MetricType::COUNTER => m.counter.is_some() && m.gauge.is_none() && m.histogram.is_none(), MetricType::GAUGE => m.gauge.is_some() && m.counter.is_none() && m.histogram.is_none(), MetricType::HISTOGRAM => m.histogram.is_some() && m.counter.is_none() && m.gauge.is_none(), _ => false };
                            if !ok { fails.push(Failure { class: "family-mixes-types".into(), detail: format!("family {} declared {:?} holds a sample of another type", f.name(), f.get_field_type()) }); } } }
                        // C09: names that reach a sample
                        for f in &got { if !ident_ok(f.name(), true) { fails.push(Failure { class: "gathered-name-invalid".into(), detail: format!("metric name {:?}", f.name()) }); }
                            for m in f.get_metric() { let mut s = BTreeSet::new(); for p in m.get_label() { if !ident_ok(p.name(), false) { fails.push(Failure { class: "gathered-name-invalid".into(), detail: format!("label name {:?} in {}", p.name(), f.name()) }); } if !s.insert(p.name().to_string()) { fails.push(Failure { class: "gathered-duplicate-label".into(), detail: format!("label {:?} twice in {}", p.name(), f.name()) }); } } } }
                        stats.hit("gather:checked");
                        if want.values().any(|v| v.2.len() >= 2) { stats.hit("gather:family-with-several-samples"); }
                        outs.push(got_s);
                    }
                }
                _ => outs.push("bad-op".into()),
            }
        }
        stats.seen(lines, nreg_ok >= 2 && nreg_err >= 1);
        ExecOut { outs, fails, model_lines: None }
    }
}
