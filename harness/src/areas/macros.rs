//! area `macro` (C20): one real call site per public macro form x trailing comma, with run-time
//! generated arguments; the result is compared with the explicit constructor call and with the model.
use super::macro_sites::{call_site, SITES};
use crate::areas::vec::{pairs_str, parse_pairs};
use crate::rng::Rng;
use crate::util::*;
use crate::{Area, ExecOut, Failure};
use prometheus::core::Collector;
use prometheus::*;
use std::collections::HashMap;

pub struct MacroArea;

/// true = every metric registered by the process's first 16 concurrent `register_int_counter!` calls (no registry argument) is gathered
pub fn first_use_race() -> bool {
    let n = 16; let go = std::sync::Arc::new(std::sync::atomic::AtomicUsize::new(0));
    let hs: Vec<_> = (0..n).map(|i| { let go = go.clone(); std::thread::spawn(move || {
        go.fetch_add(1, std::sync::atomic::Ordering::SeqCst); while go.load(std::sync::atomic::Ordering::SeqCst) < n { std::hint::spin_loop(); }
        let name = format!("pv_first_use_{}", i);
        register_int_counter!(name.clone(), "first use").map(|c| { c.inc(); name }).ok() }) }).collect();
    let names: Vec<Option<String>> = hs.into_iter().map(|h| h.join().unwrap()).collect();
    let seen: Vec<String> = prometheus::gather().iter().map(|f| f.name().to_string()).collect();
    names.iter().all(|x| x.as_ref().map(|nm| seen.contains(nm)).unwrap_or(false))
}

pub struct Args { pub name: String, pub help: String, pub c1: Vec<(String, String)>, pub c2: Vec<(String, String)>, pub lnames_v: Vec<String>, pub buckets: Vec<f64>, pub reg: Registry, pub ticks: std::cell::Cell<usize> }
impl Args {
    /// called by every argument expression of a generated call site
    pub fn tick(&self) { self.ticks.set(self.ticks.get() + 1); }
    pub fn c1_map(&self) -> HashMap<&str, &str> { self.c1.iter().map(|(k, v)| (k.as_str(), v.as_str())).collect() }
    pub fn c2_map(&self) -> HashMap<&str, &str> { self.c2.iter().map(|(k, v)| (k.as_str(), v.as_str())).collect() }
    pub fn c1_owned(&self) -> HashMap<String, String> { self.c1.iter().cloned().collect() }
    pub fn merged(&self) -> HashMap<String, String> { let mut m: HashMap<String, String> = self.c1.iter().cloned().collect(); m.extend(self.c2.iter().cloned()); m }
    /// options handed to the `(opts, …)` forms: built with `opts!` itself from two label maps
    pub fn opts(&self) -> Opts { opts!(self.name.clone(), self.help.clone(), self.c1_map(), self.c2_map()) }
    pub fn hopts(&self) -> HistogramOpts { histogram_opts!(self.name.clone(), self.help.clone(), self.buckets.clone(), self.c1_owned()) }
    pub fn lnames(&self) -> Vec<&str> { self.lnames_v.iter().map(|s| s.as_str()).collect() }
}

pub enum Made { C(Counter), IC(IntCounter), G(Gauge), IG(IntGauge), CV(CounterVec), ICV(IntCounterVec), GV(GaugeVec), IGV(IntGaugeVec), H(Histogram), HV(HistogramVec), O(Opts), HO(HistogramOpts), L(Vec<(String, String)>) }

fn show_desc(d: &prometheus::core::Desc) -> String {
    format!("fq={} help={} pairs={} vars={}", hex_list(&[&d.fq_name]), hex_list(&[&d.help]), pairs_str(&d.const_label_pairs.iter().map(|p| (p.name().to_string(), p.value().to_string())).collect::<Vec<_>>()), hex_list(&d.variable_labels))
}
fn sorted(m: &HashMap<String, String>) -> Vec<(String, String)> { let mut v: Vec<(String, String)> = m.iter().map(|(k, v)| (k.clone(), v.clone())).collect(); v.sort(); v }

impl Area for MacroArea {
    fn corpus(&self) -> Vec<Vec<String>> {
        vec![vec!["macro site=opts/4 comma=0 name=6d help=68 c1=74696572:64656661756c74,6463:6575 c2=74696572:776562 lnames=- buckets=- reg=custom uniq=c0".into()],
             vec!["macro site=register_histogram_vec_with_registry/5 comma=1 name=6d help=68 c1=- c2=- lnames=6c buckets=3fd0000000000000,3fe0000000000000,4010000000000000 reg=custom uniq=c1".into()]]
    }
    fn gen(&self, rng: &mut Rng, _thorough: bool, stats: &mut Stats) -> Vec<String> {
        let site = *rng.pick(SITES);
        stats.hit(&format!("site:{}", site.split('/').next().unwrap()));
        let keys = ["tier", "dc", "zone"]; let vals = ["default", "web", "eu", ""];
        let mut c1 = vec![]; let mut c2 = vec![];
        for k in keys { if rng.chance(50) { c1.push((k.to_string(), rng.pick(&vals).to_string())); } if rng.chance(40) { c2.push((k.to_string(), rng.pick(&vals).to_string())); } }
        let lnames: Vec<&str> = if rng.chance(10) { vec![] } else if rng.chance(50) { vec!["l"] } else { vec!["l", "method"] };
        let buckets: Vec<f64> = match rng.below(8) { 0 => vec![], 1 => vec![0.25, 0.5, 4.0], 2 => vec![1.0, f64::INFINITY], 3 => vec![2.0, 1.0], 4 => vec![f64::INFINITY], 5 => vec![1.0, f64::INFINITY, f64::INFINITY], 6 => vec![f64::NEG_INFINITY, -0.0], _ => vec![0.1] };
        vec![format!("macro site={} comma={} name={} help={} c1={} c2={} lnames={} buckets={} reg={} uniq={:x}", site, rng.below(2), hex_list(&[*rng.pick(&["m", "req_total", "a:b"])]), hex_list(&[*rng.pick(&["h", "help text", "h", "help", "x", ""])]),
            pairs_str(&c1), pairs_str(&c2), hex_list(&lnames), f64_list(&buckets), rng.pick(&["custom", "custom", "prefixed"]), rng.next() & 0xffff_ffff_ffff_ffff)]
    }
    fn exec(&self, lines: &[String], stats: &mut Stats) -> ExecOut {
        let mut outs = vec![]; let mut fails: Vec<Failure> = vec![];
        // the process's very FIRST uses of the default registry, made by several threads at once: every metric a `register_*!` call without
        // registry returned Ok for must be in prometheus::gather() (a lazily initialised default registry must be initialised exactly once).
        // Run once per harness process, in 32 fresh child processes (`pv-harness firstuse`), because only a process's first use can race.
        static FIRST_USE: std::sync::Once = std::sync::Once::new();
        FIRST_USE.call_once(|| {
            if let Ok(exe) = std::env::current_exe() {
                let bad = (0..32).filter(|_| std::process::Command::new(&exe).arg("firstuse").status().map(|st| st.code() == Some(3)).unwrap_or(false)).count();
                stats.hit("default-registry-first-use-race-checked");
                if bad > 0 { fails.push(Failure { class: "registered-in-wrong-registry".into(), detail: format!("in {} of 32 fresh processes, metrics registered without a registry argument by the first 16 concurrent calls of the process were not in prometheus::gather() afterwards", bad) }); }
            }
        });
        for line in lines {
            let p: Vec<&str> = line.split(' ').collect();
            let site = field(&p, "site").unwrap(); let comma = field(&p, "comma") == Some("1");
            let uniq = field(&p, "uniq").unwrap();
            // the metric name is made unique per request: the default registry is process-global
            let name = format!("{}_{}", unhex_list(field(&p, "name").unwrap())[0], uniq);
            let regkind = field(&p, "reg").unwrap();
            let reg = if regkind == "prefixed" { Registry::new_custom(Some("pfx".into()), Some([("rl".to_string(), "v".to_string())].into_iter().collect())).unwrap() } else { Registry::new() };
            let a = Args { name: name.clone(), help: unhex_list(field(&p, "help").unwrap())[0].clone(), c1: parse_pairs(field(&p, "c1").unwrap()), c2: parse_pairs(field(&p, "c2").unwrap()),
                           lnames_v: unhex_list(field(&p, "lnames").unwrap()), buckets: f64_parse_list(field(&p, "buckets").unwrap()), reg: reg.clone(), ticks: std::cell::Cell::new(0) };
            let with_reg = site.contains("_with_registry");
            let takes_opts = matches!(site, "register_counter/1" | "register_int_counter/1" | "register_gauge/1" | "register_int_gauge/1" | "register_counter_with_registry/2" | "register_int_counter_with_registry/2" | "register_gauge_with_registry/2" | "register_int_gauge_with_registry/2"
                | "register_counter_vec/2" | "register_int_counter_vec/2" | "register_gauge_vec/2" | "register_int_gauge_vec/2" | "register_counter_vec_with_registry/3" | "register_int_counter_vec_with_registry/3" | "register_gauge_vec_with_registry/3" | "register_int_gauge_vec_with_registry/3");
            let takes_hopts = matches!(site, "register_histogram/1" | "register_histogram_with_registry/2" | "register_histogram_vec/2" | "register_histogram_vec_with_registry/3");
            let r = std::panic::catch_unwind(std::panic::AssertUnwindSafe(|| call_site(site, comma, &a)));
            // a faithful shorthand evaluates each of its arguments exactly once (every argument of a generated call site counts its own evaluation)
            if let Some(n) = site.rsplit('/').next().and_then(|x| x.parse::<usize>().ok()) { if r.is_ok() && a.ticks.get() != n && a.ticks.get() != 0 {
                fails.push(Failure { class: "argument-evaluated-not-once".into(), detail: format!("{}: {} argument expressions were evaluated {} times in total", line, n, a.ticks.get()) }); } }
            // ---- "when the registration is refused it evaluates to Err": the same call site run again makes an EQUAL metric (same name and constant labels,
            // in a freshly built map) while the first one is still registered; that registration must be refused with AlreadyReg
            if let Ok(Ok(m)) = &r { if !matches!(m, Made::O(_) | Made::HO(_) | Made::L(_)) {
                let r2 = std::panic::catch_unwind(std::panic::AssertUnwindSafe(|| call_site(site, comma, &a)));
                match r2 {
                    Ok(Err(Error::AlreadyReg)) => { stats.hit("second-equal-registration:refused"); }
                    Ok(Ok(m2)) => { fails.push(Failure { class: "refused-registration-not-err".into(), detail: format!("{}: the same call made again, with the first metric still registered, evaluated to Ok (an equal metric was registered twice)", line) });
                        if !site.contains("_with_registry") { let c: Box<dyn Collector> = clone_box(&(Box::new(Counter::new("unused", "h").unwrap()) as Box<dyn Collector>), &m2); let _ = prometheus::default_registry().unregister(c); } }
                    Ok(Err(e)) => fails.push(Failure { class: "refused-registration-not-err".into(), detail: format!("{}: the same call made again evaluated to {} instead of AlreadyReg", line, err_kind(&e)) }),
                    Err(_) => fails.push(Failure { class: "refused-registration-not-err".into(), detail: format!("{}: the same call made again panicked instead of evaluating to Err", line) }),
                } } }
            // ---- the explicit call the form stands for (oracle)
            let consts: HashMap<String, String> = if takes_opts { a.merged() } else if takes_hopts { a.c1_owned() } else { HashMap::new() };
            let exp_opts = Opts::new(a.name.clone(), a.help.clone()).const_labels(consts.clone());
            let uses_buckets = takes_hopts || matches!(site, "register_histogram/3" | "register_histogram_with_registry/4" | "register_histogram_vec/4" | "register_histogram_vec_with_registry/5");
            let exp_hopts = { let h = HistogramOpts::new(a.name.clone(), a.help.clone()).const_labels(consts.clone()); if uses_buckets { h.buckets(a.buckets.clone()) } else { h } };
            let ln = a.lnames();
            let out = match r {
                Err(_) => "panic".to_string(),
                Ok(Err(e)) => err_kind(&e),
                Ok(Ok(made)) => {
                    let explicit_desc: Option<prometheus::core::Desc> = match &made {
                        Made::C(_) | Made::IC(_) | Made::G(_) | Made::IG(_) => Counter::with_opts(exp_opts.clone()).ok().map(|c| c.desc()[0].clone()),
                        Made::CV(_) | Made::ICV(_) | Made::GV(_) | Made::IGV(_) => CounterVec::new(exp_opts.clone(), &ln).ok().map(|c| c.desc()[0].clone()),
                        Made::H(_) => Histogram::with_opts(exp_hopts.clone()).ok().map(|c| c.desc()[0].clone()),
                        Made::HV(_) => HistogramVec::new(exp_hopts.clone(), &ln).ok().map(|c| c.desc()[0].clone()),
                        _ => None };
                    let (desc, collector): (Option<prometheus::core::Desc>, Option<Box<dyn Collector>>) = match &made {
                        Made::C(x) => (Some(x.desc()[0].clone()), Some(Box::new(x.clone()))), Made::IC(x) => (Some(x.desc()[0].clone()), Some(Box::new(x.clone()))), Made::G(x) => (Some(x.desc()[0].clone()), Some(Box::new(x.clone()))), Made::IG(x) => (Some(x.desc()[0].clone()), Some(Box::new(x.clone()))),
                        Made::CV(x) => (Some(x.desc()[0].clone()), Some(Box::new(x.clone()))), Made::ICV(x) => (Some(x.desc()[0].clone()), Some(Box::new(x.clone()))), Made::GV(x) => (Some(x.desc()[0].clone()), Some(Box::new(x.clone()))), Made::IGV(x) => (Some(x.desc()[0].clone()), Some(Box::new(x.clone()))),
                        Made::H(x) => (Some(x.desc()[0].clone()), Some(Box::new(x.clone()))), Made::HV(x) => (Some(x.desc()[0].clone()), Some(Box::new(x.clone()))), _ => (None, None) };
                    match &made {
                        Made::O(o) => { let want = sorted(&a.merged_for(site)); let got = sorted(&o.const_labels); if got != want || o.name != a.name || o.help != a.help { fails.push(Failure { class: "opts-macro-differs".into(), detail: format!("{}: const labels {:?}, the explicit merge gives {:?}", line, got, want) }); }
                            format!("ok name={} help={} pairs={}", hex_list(&[&o.name.replace(&format!("_{}", uniq), "")]), hex_list(&[&o.help]), pairs_str(&got)) }
                        Made::HO(o) => { let got = sorted(&o.common_opts.const_labels); format!("ok name={} help={} pairs={} buckets={}", hex_list(&[&o.common_opts.name.replace(&format!("_{}", uniq), "")]), hex_list(&[&o.common_opts.help]), pairs_str(&got), f64_show_list(&o.buckets)) }
                        Made::L(v) => format!("ok labels={}", pairs_str(&v.iter().map(|(k, v)| (k.clone(), v.replace(&format!("_{}", uniq), ""))).collect::<Vec<_>>())),
                        _ => {
                            let d = desc.unwrap();
                            match &explicit_desc { Some(e) => { if e.fq_name != d.fq_name || e.help != d.help || e.variable_labels != d.variable_labels || e.const_label_pairs != d.const_label_pairs { fails.push(Failure { class: "metric-differs-from-explicit-call".into(), detail: format!("{}: macro made [{}], the explicit call makes [{}]", line, show_desc(&d), show_desc(e)) }); } }
                                None => fails.push(Failure { class: "metric-differs-from-explicit-call".into(), detail: format!("{}: the explicit call fails but the macro succeeded", line) }) }
                            // buckets
                            let bk: String = match &made { Made::H(h) => f64_show_list(&h.collect()[0].get_metric()[0].get_histogram().get_bucket().iter().map(|b| b.upper_bound()).collect::<Vec<_>>()),
                                Made::HV(hv) => { let vals: Vec<&str> = ln.iter().map(|_| "x").collect(); match hv.get_metric_with_label_values(&vals) { Ok(h) => { let s = f64_show_list(&h.collect()[0].get_metric()[0].get_histogram().get_bucket().iter().map(|b| b.upper_bound()).collect::<Vec<_>>()); let _ = hv.remove_label_values(&vals); s } Err(_) => "child-err".into() } }
                                _ => "-".into() };
                            if let Made::H(_) | Made::HV(_) = &made { let want = { let e = if let Made::H(_) = &made { Histogram::with_opts(exp_hopts.clone()).ok() } else { HistogramVec::new(exp_hopts.clone(), &ln).ok().and_then(|v| v.get_metric_with_label_values(&ln.iter().map(|_| "x").collect::<Vec<_>>()).ok()) };
                                    e.map(|h| f64_show_list(&h.collect()[0].get_metric()[0].get_histogram().get_bucket().iter().map(|b| b.upper_bound()).collect::<Vec<_>>())).unwrap_or("child-err".into()) };
                                if want != bk { fails.push(Failure { class: "buckets-differ-from-explicit-call".into(), detail: format!("{}: buckets {} vs explicit {}", line, bk, want) }); } }
                            // registered where it should be, and nowhere else; the handle is the registered metric
                            let fq = d.fq_name.clone();
                            let in_custom = reg.gather().iter().any(|f| f.name().ends_with(&fq)) || reg.unregister(collector.as_ref().map(|c| { let c: &Box<dyn Collector> = c; clone_box(c, &made) }).unwrap()).is_ok();
                            let again = match prometheus::default_registry().register(clone_box(collector.as_ref().unwrap(), &made)) { Ok(()) => { let _ = prometheus::default_registry().unregister(clone_box(collector.as_ref().unwrap(), &made)); "ok".to_string() } Err(e) => err_kind(&e) };
                            let in_default = again == "err:AlreadyReg";
                            if with_reg && (!in_custom || in_default) { fails.push(Failure { class: "registered-in-wrong-registry".into(), detail: format!("{}: in named registry = {}, in default registry = {}", line, in_custom, in_default) }); }
                            if !with_reg && (in_custom || !in_default) { fails.push(Failure { class: "registered-in-wrong-registry".into(), detail: format!("{}: in named registry = {}, in default registry = {}", line, in_custom, in_default) }); }
                            if !with_reg { let _ = prometheus::default_registry().unregister(clone_box(collector.as_ref().unwrap(), &made)); }
                            format!("ok fq={} help={} pairs={} vars={} buckets={} named={} default={}", hex_list(&[&d.fq_name.replace(&format!("_{}", uniq), "")]), hex_list(&[&d.help]), pairs_str(&d.const_label_pairs.iter().map(|p| (p.name().to_string(), p.value().to_string())).collect::<Vec<_>>()), hex_list(&d.variable_labels), bk, in_custom as u8, in_default as u8)
                        }
                    }
                }
            };
            stats.hit(&format!("outcome:{}", out.split(' ').next().unwrap()));
            stats.seen(&[line.clone()], out.starts_with("ok"));
            outs.push(out);
        }
        ExecOut { outs, fails, model_lines: None }
    }
}

impl Args { fn merged_for(&self, site: &str) -> HashMap<String, String> { match site { "opts/2" => HashMap::new(), "opts/3" => self.c1_owned(), _ => self.merged() } } }

fn clone_box(_c: &Box<dyn Collector>, made: &Made) -> Box<dyn Collector> {
    match made { Made::C(x) => Box::new(x.clone()), Made::IC(x) => Box::new(x.clone()), Made::G(x) => Box::new(x.clone()), Made::IG(x) => Box::new(x.clone()), Made::CV(x) => Box::new(x.clone()), Made::ICV(x) => Box::new(x.clone()), Made::GV(x) => Box::new(x.clone()), Made::IGV(x) => Box::new(x.clone()), Made::H(x) => Box::new(x.clone()), Made::HV(x) => Box::new(x.clone()), _ => unreachable!() }
}
