//! Deterministic scheduler over the REAL library code, through the cfg(prometheus_verif) sync shim.
//! Real OS threads run real API calls; every atomic / lock operation first parks in the shim's
//! `pre` hook; a controller picks which thread performs its pending operation next. Exactly one
//! library thread runs at a time, so an execution is the list of choices and is replayed exactly.
use crate::rng::Rng;
use prometheus::verif_sync::{set_hook, Event, Hook, Kind};
use std::collections::HashMap;
use std::sync::{Arc, Condvar, Mutex};

#[derive(Clone, Debug)]
pub enum Rec {
    /// an atomic / lock operation that executed
    Op { tid: usize, kind: Kind, addr: usize, ord: String, a: u64, b: u64, res: u64, ok: bool },
    /// call / return boundary or a result noted by the thread body
    Mark { tid: usize, text: String },
}

struct Ctl {
    current: Option<usize>,
    waiting: Vec<Option<Option<Event>>>, // Some(None) = parked at start, Some(Some(ev)) = parked before ev
    done: Vec<bool>,
    trace: Vec<Rec>,
    spurious: bool,
    stuck: bool,
}
pub struct Shared { m: Mutex<Ctl>, cv: Condvar }

pub struct Ctx { id: usize, sh: Arc<Shared> }
impl Ctx {
    pub fn mark(&self, text: String) { self.sh.m.lock().unwrap().trace.push(Rec::Mark { tid: self.id, text }); }
    fn park(&self, ev: Option<Event>) -> bool {
        let mut g = self.sh.m.lock().unwrap();
        g.waiting[self.id] = Some(ev);
        if g.current == Some(self.id) { g.current = None; }
        self.sh.cv.notify_all();
        while g.current != Some(self.id) { g = self.sh.cv.wait(g).unwrap(); }
        g.waiting[self.id] = None;
        let s = g.spurious; g.spurious = false; s
    }
}
struct H { id: usize, sh: Arc<Shared> }
impl Hook for H {
    fn pre(&self, ev: &Event) -> bool { Ctx { id: self.id, sh: self.sh.clone() }.park(Some(ev.clone())) }
    fn post(&self, ev: &Event, r: u64, ok: bool) {
        let mut g = self.sh.m.lock().unwrap();
        g.trace.push(Rec::Op { tid: self.id, kind: ev.kind, addr: ev.addr, ord: format!("{:?}", ev.ord), a: ev.a, b: ev.b, res: r, ok });
    }
}

pub struct Outcome { pub trace: Vec<Rec>, pub stuck: bool, pub choices: Vec<usize> }

pub type Body = Box<dyn FnOnce(&Ctx) + Send + 'static>;

/// run the thread bodies under the scheduler; `pick(enabled, last, step)` chooses the next thread
/// (index into `enabled`) and whether a weak CAS should fail spuriously
pub fn run(bodies: Vec<Body>, rng: &mut Rng, sticky_pct: usize, spurious_budget: usize, max_steps: usize, forced: Option<&[usize]>) -> Outcome {
    let n = bodies.len();
    let sh = Arc::new(Shared { m: Mutex::new(Ctl { current: None, waiting: vec![None; n], done: vec![false; n], trace: vec![], spurious: false, stuck: false }), cv: Condvar::new() });
    let mut handles = vec![];
    for (id, body) in bodies.into_iter().enumerate() {
        let s = sh.clone();
        handles.push(std::thread::spawn(move || {
            let ctx = Ctx { id, sh: s.clone() };
            set_hook(Some(Box::new(H { id, sh: s.clone() })));
            ctx.park(None);
            let r = std::panic::catch_unwind(std::panic::AssertUnwindSafe(|| body(&ctx)));
            set_hook(None);
            let mut g = s.m.lock().unwrap();
            if r.is_err() { g.trace.push(Rec::Mark { tid: id, text: "panic".into() }); }
            g.done[id] = true;
            if g.current == Some(id) { g.current = None; }
            s.cv.notify_all();
        }));
    }
    // shadow state: lock ownership and atomic values, from the `post` results
    let mut held: HashMap<usize, i64> = HashMap::new(); // mutex: 1 held; rwlock: -1 writer, k readers
    let mut val: HashMap<usize, u64> = HashMap::new();
    let mut last_failed_cas: Vec<Option<(usize, u64, u64)>> = vec![None; n]; // (addr, expected, observed)
    let mut seen = 0usize; let mut steps = 0usize; let mut last: Option<usize> = None; let mut spur_left = spurious_budget;
    let mut choices = vec![];
    loop {
        let mut g = sh.m.lock().unwrap();
        while !(g.current.is_none() && (0..n).all(|t| g.done[t] || g.waiting[t].is_some())) { g = sh.cv.wait(g).unwrap(); }
        // digest new trace records into the shadow state
        while seen < g.trace.len() {
            if let Rec::Op { tid, kind, addr, a, b, res, ok, .. } = &g.trace[seen] {
                match kind {
                    Kind::Lock => { if *ok { held.insert(*addr, 1); } }
                    Kind::Unlock => { held.insert(*addr, 0); }
                    Kind::RLock => { if *ok { *held.entry(*addr).or_insert(0) += 1; } }
                    Kind::RUnlock => { *held.entry(*addr).or_insert(0) -= 1; }
                    Kind::WLock => { if *ok { held.insert(*addr, -1); } }
                    Kind::WUnlock => { held.insert(*addr, 0); }
                    Kind::Load => { val.insert(*addr, *res); }
                    Kind::Store => { val.insert(*addr, *a); }
                    Kind::FetchAdd => { val.insert(*addr, res.wrapping_add(*a)); }
                    Kind::FetchSub => { val.insert(*addr, res.wrapping_sub(*a)); }
                    Kind::Swap => { val.insert(*addr, *a); }
                    Kind::Cas => { if *ok { val.insert(*addr, *b); last_failed_cas[*tid] = None; } else { val.insert(*addr, *res); last_failed_cas[*tid] = Some((*addr, *a, *res)); } }
                }
                if !matches!(kind, Kind::Cas) { last_failed_cas[*tid] = None; }
            }
            seen += 1;
        }
        if (0..n).all(|t| g.done[t]) { break; }
        let enabled: Vec<usize> = (0..n).filter(|t| !g.done[*t]).filter(|t| match &g.waiting[*t] {
            Some(Some(ev)) => match ev.kind {
                Kind::Lock | Kind::WLock => *held.get(&ev.addr).unwrap_or(&0) == 0,
                Kind::RLock => *held.get(&ev.addr).unwrap_or(&0) >= 0,
                // a spin: the same compare-exchange just failed for real (observed != expected) and the
                // location still holds the value it observed then: repeating it is a stutter step
                Kind::Cas => !matches!(last_failed_cas[*t], Some((ad, ex, ob)) if ad == ev.addr && ex == ev.a && ob != ex && val.get(&ev.addr) == Some(&ob)),
                _ => true,
            },
            _ => true,
        }).collect();
        steps += 1;
        if enabled.is_empty() || steps > max_steps { g.stuck = true; break; }
        let t = if let Some(f) = forced { match f.get(choices.len()) { Some(c) if enabled.contains(c) => *c, _ => enabled[0] } }
                else if last.map(|l| enabled.contains(&l)).unwrap_or(false) && rng.chance(sticky_pct) { last.unwrap() } else { enabled[rng.below(enabled.len())] };
        // spurious failure of a weak compare-exchange that would otherwise succeed
        if let Some(Some(ev)) = &g.waiting[t] { if ev.kind == Kind::Cas && spur_left > 0 && val.get(&ev.addr) == Some(&ev.a) && forced.is_none() && rng.chance(if spurious_budget > 4 { 60 } else { 8 }) { g.spurious = true; spur_left -= 1; } }
        choices.push(t); last = Some(t);
        g.current = Some(t);
        sh.cv.notify_all();
    }
    let (trace, stuck) = { let g = sh.m.lock().unwrap(); (g.trace.clone(), g.stuck) };
    if !stuck { for h in handles { let _ = h.join(); } }
    // when stuck the parked threads are left parked (they hold no CPU) and are reaped at process exit
    Outcome { trace, stuck, choices }
}
