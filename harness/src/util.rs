//! Canonical encodings shared by all areas (must match lean/Prom/Base/Wire.lean).
use std::collections::{BTreeMap, BTreeSet};

pub fn f64_hex(v: f64) -> String { format!("{:016x}", v.to_bits()) }
/// canonical output form: every NaN prints as `nan`
pub fn f64_show(v: f64) -> String { if v.is_nan() { "nan".into() } else { f64_hex(v) } }
pub fn f64_parse(s: &str) -> f64 { f64::from_bits(u64::from_str_radix(s, 16).expect("hex f64")) }
pub fn f64_list(vs: &[f64]) -> String { if vs.is_empty() { "-".into() } else { vs.iter().map(|v| f64_hex(*v)).collect::<Vec<_>>().join(",") } }
pub fn f64_show_list(vs: &[f64]) -> String { if vs.is_empty() { "-".into() } else { vs.iter().map(|v| f64_show(*v)).collect::<Vec<_>>().join(",") } }
pub fn f64_parse_list(s: &str) -> Vec<f64> { if s == "-" || s.is_empty() { vec![] } else { s.split(',').map(f64_parse).collect() } }
pub fn nat_list<T: std::fmt::Display>(vs: &[T]) -> String { if vs.is_empty() { "-".into() } else { vs.iter().map(|v| v.to_string()).collect::<Vec<_>>().join(",") } }

pub fn hex(s: &str) -> String { hex_bytes(s.as_bytes()) }
pub fn hex_bytes(b: &[u8]) -> String { if b.is_empty() { "-".into() } else { b.iter().map(|x| format!("{:02x}", x)).collect() } }
pub fn unhex_bytes(s: &str) -> Vec<u8> {
    if s == "-" { return vec![]; }
    (0..s.len() / 2).map(|i| u8::from_str_radix(&s[2 * i..2 * i + 2], 16).expect("hex")).collect()
}
pub fn unhex(s: &str) -> String { String::from_utf8(unhex_bytes(s)).expect("utf8") }
/// list of hex strings joined by ',' ("-" = empty list; an empty string element is "~")
pub fn hex_list<S: AsRef<str>>(xs: &[S]) -> String {
    if xs.is_empty() { return "-".into(); }
    xs.iter().map(|s| if s.as_ref().is_empty() { "~".to_string() } else { hex(s.as_ref()) }).collect::<Vec<_>>().join(",")
}
pub fn unhex_list(s: &str) -> Vec<String> {
    if s == "-" { return vec![]; }
    s.split(',').map(|x| if x == "~" { String::new() } else { unhex(x) }).collect()
}

pub fn field<'a>(parts: &'a [&'a str], key: &str) -> Option<&'a str> {
    for p in parts { if let Some(r) = p.strip_prefix(key) { if let Some(v) = r.strip_prefix('=') { return Some(v); } } }
    None
}

/// measured input distribution + non-trivial-case counting
#[derive(Default)]
pub struct Stats {
    pub hits: BTreeMap<String, u64>,
    pub distinct: BTreeSet<u64>,
    pub nontrivial: BTreeSet<u64>,
}
impl Stats {
    pub fn hit(&mut self, k: &str) { *self.hits.entry(k.to_string()).or_insert(0) += 1; }
    pub fn hit_n(&mut self, k: &str, n: u64) { *self.hits.entry(k.to_string()).or_insert(0) += n; }
    pub fn case_key(lines: &[String]) -> u64 {
        let mut h: u64 = 0xcbf29ce484222325;
        for l in lines { for b in l.bytes().chain(std::iter::once(b'\n')) { h = (h ^ b as u64).wrapping_mul(0x100000001b3); } }
        h
    }
    pub fn seen(&mut self, lines: &[String], nontrivial: bool) {
        let k = Self::case_key(lines);
        self.distinct.insert(k);
        if nontrivial { self.nontrivial.insert(k); }
    }
}

pub fn json_str(s: &str) -> String {
    let mut o = String::from("\"");
    for c in s.chars() {
        match c {
            '"' => o.push_str("\\\""), '\\' => o.push_str("\\\\"), '\n' => o.push_str("\\n"), '\r' => o.push_str("\\r"), '\t' => o.push_str("\\t"),
            c if (c as u32) < 0x20 => o.push_str(&format!("\\u{:04x}", c as u32)),
            c => o.push(c),
        }
    }
    o.push('"'); o
}

/// error-kind canonicalisation: never message text
pub fn err_kind(e: &prometheus::Error) -> String {
    match e {
        prometheus::Error::AlreadyReg => "err:AlreadyReg".into(),
        prometheus::Error::InconsistentCardinality { expect, got } => format!("err:Card({},{})", expect, got),
        prometheus::Error::Msg(_) => "err:Msg".into(),
        prometheus::Error::Io(_) => "err:Io".into(),
        #[allow(unreachable_patterns)]
        _ => "err:Other".into(),
    }
}
