//! pv-harness: runs the REAL prometheus crate (path dependency on /repo) on generated
//! request lines and prints canonical results, one per request line, for the Lean driver
//! to be compared against. Also evaluates each property's own oracle on the
//! implementation's results (independent of the Lean model).
//!
//!   pv-harness run <area> --seed S --n N --out DIR [--tier quick|thorough]
//!   pv-harness replay <area> <file>         (request lines; prints results + oracle failures)
mod rng;
mod util;
mod areas;
mod sched;
mod c16;

use rng::Rng;
use std::io::Write;
use util::{json_str, Stats};

pub struct Failure { pub class: String, pub detail: String }

pub struct ExecOut { pub outs: Vec<String>, pub fails: Vec<Failure>,
    /// request lines for the Lean model when they differ from the generating request (concurrent areas: + the observed trace)
    pub model_lines: Option<Vec<String>> }

pub trait Area {
    /// fixed cases that always run first (defect witnesses, minimised past failures)
    fn corpus(&self) -> Vec<Vec<String>> { vec![] }
    /// one generated case = a sequence of request lines (shared state inside a case)
    fn gen(&self, rng: &mut Rng, thorough: bool, stats: &mut Stats) -> Vec<String>;
    /// run the case on the real implementation: one canonical output per request line,
    /// plus failures of the property's own oracle on these results
    fn exec(&self, lines: &[String], stats: &mut Stats) -> ExecOut;
}

fn exec_caught(area: &dyn Area, lines: &[String], stats: &mut Stats) -> ExecOut {
    let r = std::panic::catch_unwind(std::panic::AssertUnwindSafe(|| area.exec(lines, stats)));
    match r {
        Ok(o) => o,
        Err(e) => {
            let msg = if let Some(s) = e.downcast_ref::<String>() { s.clone() } else if let Some(s) = e.downcast_ref::<&str>() { s.to_string() } else { "?".into() };
            ExecOut { outs: lines.iter().map(|_| "harness-panic".to_string()).collect(),
                      fails: vec![Failure { class: "harness-panic".into(), detail: msg }], model_lines: None }
        }
    }
}

fn main() {
    let args: Vec<String> = std::env::args().collect();
    // `pv-harness firstuse`: a fresh process whose very first uses of the default registry are made by 16 threads at once (see areas/macros.rs)
    if args.len() == 2 && args[1] == "firstuse" { std::process::exit(if areas::macros::first_use_race() { 0 } else { 3 }); }
    if args.len() < 3 { eprintln!("usage: pv-harness run|replay <area> ..."); std::process::exit(2); }
    std::panic::set_hook(Box::new(|_| {})); // panics are outcomes, not noise
    let area = match areas::lookup(&args[2]) { Some(a) => a, None => { eprintln!("unknown area {}", args[2]); std::process::exit(2) } };
    match args[1].as_str() {
        "run" => {
            let mut seed = 0u64; let mut n = 100usize; let mut out = String::from("."); let mut thorough = false;
            let mut i = 3;
            while i < args.len() {
                match args[i].as_str() {
                    "--seed" => { seed = args[i + 1].parse().unwrap(); i += 2 }
                    "--n" => { n = args[i + 1].parse().unwrap(); i += 2 }
                    "--out" => { out = args[i + 1].clone(); i += 2 }
                    "--tier" => { thorough = args[i + 1] == "thorough"; i += 2 }
                    _ => { eprintln!("bad arg {}", args[i]); std::process::exit(2) }
                }
            }
            std::fs::create_dir_all(&out).unwrap();
            let name = &args[2];
            let mut req = std::io::BufWriter::new(std::fs::File::create(format!("{}/{}.req", out, name)).unwrap());
            let mut imp = std::io::BufWriter::new(std::fs::File::create(format!("{}/{}.impl", out, name)).unwrap());
            let mut orc = std::io::BufWriter::new(std::fs::File::create(format!("{}/{}.oracle", out, name)).unwrap());
            let mut stats = Stats::default();
            let mut rng = Rng::new(seed);
            let corpus = area.corpus();
            let ncorpus = corpus.len();
            let mut ncases = 0usize; let mut nlines = 0usize; let mut nfail = 0usize;
            let mut samples: Vec<Vec<String>> = vec![];
            let mut run_case = |lines: Vec<String>, stats: &mut Stats, from_corpus: bool| {
                let o = exec_caught(area.as_ref(), &lines, stats);
                assert_eq!(o.outs.len(), o.model_lines.as_ref().map(|m| m.len()).unwrap_or(lines.len()), "area returned wrong number of outputs");
                writeln!(req, "case").unwrap(); writeln!(imp, "case").unwrap();
                let ml = o.model_lines.clone().unwrap_or_else(|| lines.clone());
                for (l, r) in ml.iter().zip(o.outs.iter()) { writeln!(req, "{}", l).unwrap(); writeln!(imp, "{}", r).unwrap(); }
                for f in &o.fails {
                    nfail += 1;
                    writeln!(orc, "{{\"case\":{},\"corpus\":{},\"class\":{},\"detail\":{},\"lines\":[{}]}}", ncases, from_corpus, json_str(&f.class), json_str(&f.detail),
                        lines.iter().map(|l| json_str(l)).collect::<Vec<_>>().join(",")).unwrap();
                }
                if samples.len() < 3 || (samples.len() < 6 && !from_corpus && lines.len() > 1) { samples.push(lines.clone()); }
                ncases += 1; nlines += lines.len();
            };
            for c in corpus { run_case(c, &mut stats, true); }
            for _ in 0..n { let mut r = rng.fork(); let c = area.gen(&mut r, thorough, &mut stats); run_case(c, &mut stats, false); }
            drop(run_case);
            req.flush().unwrap(); imp.flush().unwrap(); orc.flush().unwrap();
            let mut st = std::fs::File::create(format!("{}/{}.stats.json", out, name)).unwrap();
            let hits = stats.hits.iter().map(|(k, v)| format!("{}:{}", json_str(k), v)).collect::<Vec<_>>().join(",");
            let samp = samples.iter().map(|c| format!("[{}]", c.iter().map(|l| json_str(l)).collect::<Vec<_>>().join(","))).collect::<Vec<_>>().join(",");
            writeln!(st, "{{\"area\":{},\"seed\":{},\"cases\":{},\"corpus_cases\":{},\"request_lines\":{},\"distinct\":{},\"distinct_nontrivial\":{},\"oracle_failures\":{},\"hits\":{{{}}},\"samples\":[{}]}}",
                json_str(name), seed, ncases, ncorpus, nlines, stats.distinct.len(), stats.nontrivial.len(), nfail, hits, samp).unwrap();
        }
        "replay" => {
            let txt = std::fs::read_to_string(&args[3]).expect("replay file");
            let mut cases: Vec<Vec<String>> = vec![];
            for l in txt.lines() {
                let l = l.trim_end();
                if l.is_empty() || l.starts_with('#') { continue; }
                if l == "case" { cases.push(vec![]); continue; }
                if cases.is_empty() { cases.push(vec![]); }
                cases.last_mut().unwrap().push(l.to_string());
            }
            let mut stats = Stats::default();
            let mut bad = 0;
            for c in cases {
                let o = exec_caught(area.as_ref(), &c, &mut stats);
                println!("case");
                for (l, r) in c.iter().zip(o.outs.iter()) { println!("{}  =>  {}", l, r); }
                for f in &o.fails { bad += 1; println!("ORACLE-FAIL class={} {}", f.class, f.detail); }
            }
            std::process::exit(if bad > 0 { 1 } else { 0 });
        }
        _ => { eprintln!("usage"); std::process::exit(2) }
    }
}
