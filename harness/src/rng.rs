//! One PRNG (SplitMix64) for every random choice, so a run replays from its seed.
#[derive(Clone)]
pub struct Rng(pub u64);
impl Rng {
    pub fn new(seed: u64) -> Rng { Rng(seed ^ 0x9E37_79B9_7F4A_7C15) }
    pub fn next(&mut self) -> u64 {
        self.0 = self.0.wrapping_add(0x9E37_79B9_7F4A_7C15);
        let mut z = self.0;
        z = (z ^ (z >> 30)).wrapping_mul(0xBF58_476D_1CE4_E5B9);
        z = (z ^ (z >> 27)).wrapping_mul(0x94D0_49BB_1331_11EB);
        z ^ (z >> 31)
    }
    /// uniform in 0..n (n > 0)
    pub fn below(&mut self, n: usize) -> usize { (self.next() % (n as u64)) as usize }
    pub fn range(&mut self, lo: usize, hi: usize) -> usize { lo + self.below(hi - lo + 1) }
    pub fn chance(&mut self, pct: usize) -> bool { self.below(100) < pct }
    pub fn pick<'a, T>(&mut self, xs: &'a [T]) -> &'a T { &xs[self.below(xs.len())] }
    pub fn shuffle<T>(&mut self, xs: &mut [T]) {
        for i in (1..xs.len()).rev() { let j = self.below(i + 1); xs.swap(i, j); }
    }
    pub fn fork(&mut self) -> Rng { Rng(self.next()) }
}
