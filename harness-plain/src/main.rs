//! pv-plain: the C16 scenario interpreter built against prometheus with `default-features = false`
//! (the plain data model). Reads request lines on stdin (cases separated by `case`), prints one
//! output line per request.
#[path = "../../harness/src/util.rs"]
#[allow(dead_code)]
mod util;
#[path = "../../harness/src/c16.rs"]
mod c16;
use std::io::BufRead;

fn flush(case: &mut Vec<String>) {
    if case.is_empty() { return; }
    for (o, _) in c16::run_case(case) { println!("{}", o); }
    case.clear();
}
fn main() {
    let stdin = std::io::stdin();
    let mut case: Vec<String> = vec![];
    for l in stdin.lock().lines() {
        let l = l.unwrap();
        if l == "case" { flush(&mut case); println!("case"); } else if !l.trim().is_empty() { case.push(l); }
    }
    flush(&mut case);
}
