#!/bin/sh
# MANIFEST.setup_cmd — build the framework offline from files on disk only.
set -e
cd "$(dirname "$0")"
export CARGO_NET_OFFLINE=true
for t in translate/*.py; do
  n=$(basename "$t" .py)
  case "$n" in
    consts) out=Consts.lean ;;
    macros) out=MacroArms.lean ;;
    pbtable) out=PbTables.lean ;;
    orderings) out=Orderings.lean ;;
    charsets) out=Charsets.lean ;;
    *) continue ;;
  esac
  python3 "$t" /repo "lean/Prom/Gen/$out"
done
(cd lean && lake build Prom driver)
for h in harness harness-plain; do
  [ -d "$h" ] || continue
  cp /repo/Cargo.lock "$h/Cargo.lock"
  (cd "$h" && cargo build --offline)
done
# C19: warm the generated-program crate (same seed / size as the quick tier, so the check's cargo build is a no-op)
python3 tools/gen_sm.py "${VERIF_SEED:-1}" 12 harness-sm
cp /repo/Cargo.lock harness-sm/Cargo.lock
(cd harness-sm && cargo build --offline)
echo setup-ok
