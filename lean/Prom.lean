import Prom.Base.F64
import Prom.Base.Wire
import Prom.Gen.Consts
import Prom.Model.Histogram
import Prom.Lemmas.F64Order
import Prom.Lemmas.Histogram
import Prom.Props.C08
