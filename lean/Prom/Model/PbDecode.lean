import Prom.Model.Pb
/-
An independent protobuf wire reader driven by the *schema* extracted from proto_model.proto
(the specification side of C13). Unknown field numbers, wrong wire types, truncated input and
trailing bytes are errors: "nothing else in the stream".
-/
namespace Prom.Pb
open Prom

/-- read a base-128 varint (at most 10 bytes): value and rest -/
def readVarint : Nat → List UInt8 → Option (Nat × List UInt8)
  | 0, _ => none
  | _ + 1, [] => none
  | f + 1, b :: r =>
    if b < 128 then some (b.toNat, r)
    else match readVarint f r with
      | some (v, r') => some ((b.toNat - 128) + 128 * v, r')
      | none => none

def readFixed64 : List UInt8 → Option (UInt64 × List UInt8)
  | b0 :: b1 :: b2 :: b3 :: b4 :: b5 :: b6 :: b7 :: r =>
    some ((b0.toNat + 256 * (b1.toNat + 256 * (b2.toNat + 256 * (b3.toNat + 256 * (b4.toNat + 256 * (b5.toNat + 256 * (b6.toNat + 256 * b7.toNat))))))).toUInt64, r)
  | _ => none

def takeExact (n : Nat) (l : List UInt8) : Option (List UInt8 × List UInt8) :=
  if n ≤ l.length then some (l.take n, l.drop n) else none

/-- the field loop of one message body, given the decoder `decP` of a field's payload:
    tag, schema lookup by field number, wire-type check, payload, repeat until the bytes are used up -/
def decFields (decP : SField → List UInt8 → Option (PVal × List UInt8)) (sfs : List SField) :
    Nat → List UInt8 → Option Fields
  | 0, _ => none
  | _ + 1, [] => some []
  | fuel + 1, bytes =>
    match readVarint 10 bytes with
    | none => none
    | some (t, r) =>
      match sfs.find? (·.num == t / 8) with
      | none => none                                    -- a field the schema does not declare
      | some sf =>
        if t % 8 != wireType sf.kind then none else
        match decP sf r with
        | none => none
        | some (v, r') =>
          match decFields decP sfs fuel r' with
          | some rest => some ((sf.name, v) :: rest)
          | none => none

/-- payload of one field at nesting depth `d` -/
def decPayload (sch : List (String × List SField)) : Nat → SField → List UInt8 → Option (PVal × List UInt8)
  | d, sf, r =>
    match sf.kind with
    | .str => match readVarint 10 r with
      | some (len, r1) => (takeExact len r1).map fun (b, r2) => (.str b, r2)
      | none => none
    | .double => (readFixed64 r).map fun (b, r1) => (.double b, r1)
    | .uint64 => (readVarint 10 r).map fun (v, r1) => (.uint v.toUInt64, r1)
    | .int64 => (readVarint 10 r).map fun (v, r1) => (.int v.toUInt64, r1)
    | .enum _ => (readVarint 10 r).map fun (v, r1) => (.enum v.toUInt64, r1)
    | .msg sub => match d with
      | 0 => none
      | d' + 1 => match lookupMsg sch sub with
        | none => none
        | some sfs => match readVarint 10 r with
          | some (len, r1) => match takeExact len r1 with
            | some (body, r2) => (decFields (decPayload sch d') sfs (body.length + 1) body).map fun fs => (.msg fs, r2)
            | none => none
          | none => none
    | .unknown _ => none

/-- decode the fields of a message of type `name` from exactly these bytes -/
def decMsg (sch : List (String × List SField)) (d fuel : Nat) (name : String) (bytes : List UInt8) : Option Fields :=
  match lookupMsg sch name with
  | none => none
  | some sfs => decFields (decPayload sch d) sfs fuel bytes

/-- a stream of length-delimited `MetricFamily` messages, consumed completely -/
def decStream (sch : List (String × List SField)) : Nat → List UInt8 → Option (List Fields)
  | 0, _ => none
  | _ + 1, [] => some []
  | fuel + 1, bytes =>
    match readVarint 10 bytes with
    | none => none
    | some (len, r) =>
      match takeExact len r with
      | none => none
      | some (body, r') =>
        match decMsg sch 8 (body.length + 1) "MetricFamily" body, decStream sch fuel r' with
        | some fs, some rest => some (fs :: rest)
        | _, _ => none

/-! ### reading the generic messages back into the data model (proto2 defaults for absent fields) -/

def getAll (fs : Fields) (n : String) : List PVal := fs.filterMap fun p => if p.1 == n then some p.2 else none
def getStr (fs : Fields) (n : String) : Str := match (getAll fs n).getLast? with | some (.str b) => b | _ => []
def getDouble (fs : Fields) (n : String) : UInt64 := match (getAll fs n).getLast? with | some (.double b) => b | _ => 0
def getUint (fs : Fields) (n : String) : Nat := match (getAll fs n).getLast? with | some (.uint b) => b.toNat | _ => 0
def getMsg (fs : Fields) (n : String) : Option Fields := match (getAll fs n).getLast? with | some (.msg m) => some m | _ => none
def asMsg : PVal → Option Fields | .msg m => some m | _ => none
def getMsgs (fs : Fields) (n : String) : List Fields := (getAll fs n).filterMap asMsg

def bitsToInt (b : UInt64) : Int := if b < 0x8000000000000000 then (b.toNat : Int) else (b.toNat : Int) - 18446744073709551616

def msgToSample (fs : Fields) : Sample :=
  let labels := (getMsgs fs "label").map fun l => (⟨getStr l "name", getStr l "value"⟩ : LabelPair)
  let ts := match (getAll fs "timestamp_ms").getLast? with | some (.int b) => bitsToInt b | _ => 0
  let val : MVal :=
    match getMsg fs "counter", getMsg fs "gauge", getMsg fs "histogram", getMsg fs "summary" with
    | some c, _, _, _ => .counter (getDouble c "value")
    | none, some g, _, _ => .gauge (getDouble g "value")
    | none, none, some h, _ => .hist (getUint h "sample_count") (getDouble h "sample_sum")
        ((getMsgs h "bucket").map fun b => (getDouble b "upper_bound", getUint b "cumulative_count"))
    | none, none, none, some s => .summary (getUint s "sample_count") (getDouble s "sample_sum")
        ((getMsgs s "quantile").map fun q => (getDouble q "quantile", getDouble q "value"))
    | none, none, none, none => .untyped 0
  { labels := labels, val := val, ts := ts }

def numToType (n : UInt64) : Option MType :=
  if n == 0 then some .counter else if n == 1 then some .gauge else if n == 2 then some .summary
  else if n == 3 then some .untyped else if n == 4 then some .histogram else none

def msgToFamily (fs : Fields) : Option Family :=
  let ty := match (getAll fs "type").getLast? with | some (.enum n) => numToType n | _ => some .counter
  ty.map fun t => { name := getStr fs "name", help := getStr fs "help", ty := t, samples := (getMsgs fs "metric").map msgToSample }

def decodeFamilies (sch : List (String × List SField)) (bytes : List UInt8) : Option (List Family) :=
  match decStream sch (bytes.length + 1) bytes with
  | none => none
  | some ms => ms.mapM msgToFamily

end Prom.Pb
