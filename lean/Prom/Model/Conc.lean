import Prom.Base.F64
import Prom.Base.Wire
import Prom.Model.Histogram
/-
Executable step machines for the concurrent objects, at the granularity of the atomic / lock
operations the cfg(prometheus_verif) shim reports. The driver *replays* a trace observed on the
real implementation under the deterministic scheduler: every event must be exactly the next
step of the issuing thread's current API call in the model (same kind, location, ordering,
operands) and must return the value the model's memory holds; call / return marks must match the
program and the model's return value.
-/
namespace Prom.Conc
open Prom

structure Ev where
  tid : Nat
  k : String        -- L load, S store, A fetch_add, U fetch_sub, W swap, C cas, K/k lock/unlock, R/r, X/x
  loc : String
  ord : String
  a : UInt64
  b : UInt64
  res : UInt64
  ok : Bool
deriving Repr

inductive Item
  | ev (e : Ev)
  | call (tid : Nat) (i : String) (op : String)
  | ret (tid : Nat) (i : String) (v : String)
  | other (s : String)
deriving Repr

def parseItem (s : String) : Item :=
  match s.splitOn "." with
  | [t, k, loc, ord, a, b, r, ok] =>
    match t.toNat?, parseHexNat a, parseHexNat b, parseHexNat r with
    | some t, some a, some b, some r => .ev ⟨t, k, loc, ord, a.toUInt64, b.toUInt64, r.toUInt64, ok == "1"⟩
    | _, _, _, _ => .other s
  | [t, "call", i, op] => match t.toNat? with | some t => .call t i op | none => .other s
  | [t, "ret", i, v] => match t.toNat? with | some t => .ret t i v | none => .other s
  | [t, "ret", i] => match t.toNat? with | some t => .ret t i "" | none => .other s
  | _ => .other s

def parseTrace (s : String) : List Item := if s == "-" then [] else (s.splitOn ",").map parseItem
def parseProg (s : String) : List (List String) := (s.splitOn "|").map fun t => if t == "-" then [] else t.splitOn ","

/-- is the memory ordering the implementation passed at least as strong as the one the model requires? -/
def ordGe (given required : String) : Bool :=
  given == required || given == "SeqCst" || required == "Relaxed" ||
  (given == "AcqRel" && (required == "Acquire" || required == "Release"))

abbrev Mem := List (String × UInt64)
def Mem.get (m : Mem) (l : String) : UInt64 := ((m.find? (·.1 == l)).map (·.2)).getD 0
def Mem.set (m : Mem) (l : String) (v : UInt64) : Mem := (l, v) :: m.filter (·.1 != l)

def opName (op : String) : String := (op.splitOn ":").headD ""
def opArg (op : String) : String := ((op.splitOn ":").drop 1).headD ""
def parseIntArg (s : String) : Int := s.toInt?.getD 0
def f64OfInt (i : Int) : UInt64 := (Float.ofInt i).toBits
/-- `i · 2^-70` as f64 bits: amounts far below `f64::EPSILON` (the `…u` operations of the tiny-amount programs) -/
def f64OfIntTiny (i : Int) : UInt64 := (Float.scaleB (Float.ofInt i) (-70)).toBits
def u64OfInt (i : Int) : UInt64 := if i ≥ 0 then i.toNat.toUInt64 else (0 : UInt64) - (-i).toNat.toUInt64

/-- generic per-thread call state -/
structure Th (Pc : Type) where
  ops : List String
  idx : Nat := 0
  pc : Option Pc := none        -- none = between calls
  retv : Option String := none  -- some v = all steps done, waiting for the return mark

def setAt {α} (l : List α) (i : Nat) (v : α) : List α := l.set i v

/-! ## one atomic cell: Counter / IntCounter / Gauge / IntGauge (C01, C11) -/

def guard {α} (c : Bool) (msg : String) (k : Except String α) : Except String α :=
  if c then k else .error msg

inductive APc
  | start                      -- call seen, no step yet
  | cas (cur : UInt64)         -- add as a loop (float; integer): loaded `cur`, next is the compare-exchange to `cur + delta`
  | retry (cur : UInt64)       -- add as a loop: a compare-exchange failed and reported `cur`; the loop either loads again
                               -- (as from `start`) or retries at once with the reported value (as from `cas cur`)
deriving Repr

/-- one committed operation: thread, call index, the call, the value it returns -/
structure LinEv where
  tid : Nat
  idx : Nat
  op : String
  rv : String
deriving Repr

structure ASt where
  float : Bool
  counter : Bool
  mem : UInt64 := 0
  ths : List (Th APc)
  lin : List LinEv := []        -- ghost: the operations in the order in which they took effect

def hexStr (v : UInt64) : String := String.ofList (Nat.toDigits 16 v.toNat)

/-- the float delta of an op (`inc_by(d)`, `dec_by(d) = inc_by(-d)`), `none` = not an add -/
def floatDelta (op : String) : Option UInt64 :=
  let a := parseIntArg (opArg op)
  match opName op with
  | "inc" => some (f64OfInt 1) | "dec" => some (f64OfInt (-1))
  | "incby" | "add" | "lflush" => some (f64OfInt a)
  | "sub" => some (f64NegOp (f64OfInt a))
  | "incbyu" | "addu" => some (f64OfIntTiny a)
  | "subu" => some (f64NegOp (f64OfIntTiny a))
  | _ => none

/-- the integer operand of an integer-flavour add / sub -/
def intDelta (op : String) : UInt64 :=
  let n := opName op
  u64OfInt (if n == "inc" || n == "dec" then 1 else parseIntArg (opArg op))

def isSubOp (op : String) : Bool := opName op == "dec" || opName op == "sub"

/-- **the sequential specification** of one cell: what a call does to the value and what it returns
    when it runs alone. `none` = not an operation of this flavour. -/
def specApply (float : Bool) (v : UInt64) (op : String) : Option (UInt64 × String) :=
  let n := opName op
  if n == "get" then some (v, hexStr v)
  else if n == "set" || n == "reset" then
    let x : Int := if n == "reset" then 0 else parseIntArg (opArg op)
    some (if float then f64OfInt x else u64OfInt x, "")
  else if float then (floatDelta op).map fun d => (f64Add v d, "")
  else some (if isSubOp op then v - intDelta op else v + intDelta op, "")

/-- the value the compare-exchange of the add / sub `op` installs when it expects `cur`: `cur + delta` in the
    arithmetic of the flavour (IEEE addition of the float delta; wrapping `u64` addition resp. subtraction of the
    integer operand). `none` = `op` is not an add of this flavour. -/
def casNew (float : Bool) (op : String) (cur : UInt64) : Option UInt64 :=
  if float then (floatDelta op).map fun d => f64Add cur d
  else
    let n := opName op
    if n == "get" || n == "set" || n == "reset" then none
    else some (if isSubOp op then cur - intDelta op else cur + intDelta op)

/-- the ordering the successful compare-exchange of an add needs: the float loop publishes with Release (as the
    library does), the integer loop replaces a Relaxed `fetch_add` / `fetch_sub` -/
def casOrd (float : Bool) : String := if float then "Release" else "Relaxed"

/-- the first step of the call `op` (program counter `start`): the new cell value and either the next
    program counter (`inl`) or the value the call returns (`inr`: the call is complete, it took
    effect in this step). A `set` / `reset` is one store, or one swap (whose result, the old value, the
    caller ignores); an integer add / sub is one `fetch_add` / `fetch_sub`, or begins - with a load - the
    same load + compare-exchange loop a float add is. -/
def aEvStart (float : Bool) (mem : UInt64) (op : String) (e : Ev) : Except String (UInt64 × (APc ⊕ String)) :=
  let n := opName op
  if n == "get" then
    guard (e.k == "L" && ordGe e.ord "Relaxed" && e.res == mem) s!"get: expected load Relaxed -> {hexStr mem}" (.ok (mem, .inr (hexStr mem)))
  else if n == "set" || n == "reset" then
    let x : Int := if n == "reset" then 0 else parseIntArg (opArg op)
    let bits := if float then f64OfInt x else u64OfInt x
    guard ((e.k == "S" || (e.k == "W" && e.res == mem)) && ordGe e.ord "Relaxed" && e.a == bits)
      s!"set: expected store Relaxed {hexStr bits} (or swap Relaxed {hexStr bits} -> {hexStr mem})" (.ok (bits, .inr ""))
  else if float then
    match floatDelta op with
    | none => .error s!"unknown op {op}"
    | some _ =>
      guard (e.k == "L" && ordGe e.ord "Acquire" && e.res == mem) s!"float add: expected load Acquire -> {hexStr mem}"
        (.ok (mem, .inl (.cas mem)))
  else if e.k == "L" then
    -- the integer add / sub written as a compare-exchange loop: its load
    guard (ordGe e.ord "Relaxed" && e.res == mem) s!"int {n}: expected load Relaxed -> {hexStr mem}" (.ok (mem, .inl (.cas mem)))
  else
    let want := if isSubOp op then "U" else "A"
    let newv := if isSubOp op then mem - intDelta op else mem + intDelta op
    -- one read-modify-write: `fetch_add d` / `fetch_sub d`, or the other one with the wrapping negation of `d` (x - d = x + (-d))
    let other := if isSubOp op then "A" else "U"
    guard (((e.k == want && e.a == intDelta op) || (e.k == other && e.a == 0 - intDelta op)) && ordGe e.ord "Relaxed" && e.res == mem)
      s!"int {n}: expected {want} Relaxed {hexStr (intDelta op)} -> {hexStr mem} (or load Relaxed -> {hexStr mem})" (.ok (newv, .inr ""))

/-- the compare-exchange of an add (float, or integer written as a loop) whose expected value is `cur`
    (program counter `cas cur`): it must install `casNew float op cur`; a success must have found `cur` in the
    cell, a failure reports the cell's value and changes nothing -/
def aEvCas (float : Bool) (mem : UInt64) (op : String) (cur : UInt64) (e : Ev) : Except String (UInt64 × (APc ⊕ String)) :=
  match casNew float op cur with
  | none => .error s!"unknown op {op}"
  | some newv =>
    guard (e.k == "C" && ordGe e.ord (casOrd float) && e.a == cur && e.b == newv) s!"add: expected cas {casOrd float} {hexStr cur} -> {hexStr newv}" <|
      if e.ok then
        guard (mem == cur && e.res == cur) "cas succeeded although the cell no longer holds the loaded value" (.ok (newv, .inr ""))
      else
        -- failure: value changed, or spurious (weak); the loop either reloads or goes on with the value
        -- the failed compare-exchange reported (`Err(v) => cur = v`)
        guard (e.res == mem) "failed cas reports a wrong current value" (.ok (mem, .inl (.retry mem)))

/-- one accepted event of the call `op`: the new cell value and either the next program counter
    (`inl`) or the value the call returns (`inr`: the call is complete, it took effect in this step).
    After a failed compare-exchange that reported `cur` (`retry cur`) both ways of writing the loop are
    accepted: a load is treated exactly as at `start`, anything else exactly as at `cas cur`. -/
def aEv (float : Bool) (mem : UInt64) (op : String) (pc : APc) (e : Ev) : Except String (UInt64 × (APc ⊕ String)) :=
  if e.loc != "v0" then .error "unknown location" else
  match pc with
  | .start => aEvStart float mem op e
  | .cas cur => aEvCas float mem op cur e
  | .retry cur => if e.k == "L" then aEvStart float mem op e else aEvCas float mem op cur e

def aStep (s : ASt) (e : Ev) : Except String ASt :=
  match s.ths[e.tid]? with
  | none => .error "no such thread"
  | some th =>
    match th.pc with
    | none => .error "event outside a call"
    | some pc =>
      let op := th.ops.getD th.idx ""
      match aEv s.float s.mem op pc e with
      | .error m => .error m
      | .ok (mem', .inl pc') => .ok { s with mem := mem', ths := s.ths.set e.tid { th with pc := some pc' } }
      | .ok (mem', .inr rv) =>
        .ok { s with mem := mem', ths := s.ths.set e.tid { th with pc := none, retv := some rv },
                     lin := s.lin ++ [⟨e.tid, th.idx, op, rv⟩] }

/-- call / return marks common to all machines: returns the thread with the call opened / closed -/
def openCall {Pc} (th : Th Pc) (i op : String) (mk : String → Option Pc) (skip : String → Bool) : Except String (Th Pc) :=
  if th.pc.isSome || th.retv.isSome then .error "call while another call is open"
  else if toString th.idx != i then .error s!"call index {i}, expected {th.idx}"
  else if th.ops.getD th.idx "" != op then .error s!"call {op}, program says {th.ops.getD th.idx ""}"
  else if skip op then .ok { th with retv := some "" }
  else .ok { th with pc := mk op }

def closeCall {Pc} (th : Th Pc) (i v : String) : Except String (Th Pc) :=
  match th.retv with
  | none => .error s!"return before the call's steps are complete (op {th.ops.getD th.idx ""})"
  | some rv =>
    if toString th.idx != i then .error "return index" else
    if rv != v then .error s!"returned {v}, model returns {rv}"
    else .ok { th with idx := th.idx + 1, retv := none }

def aItem (s : ASt) : Item → Except String ASt
  | .ev e => aStep s e
  | .call t i op =>
    match s.ths[t]? with
    | none => .error "no such thread"
    | some th =>
      -- a local flush of 0 performs no shared step
      match openCall th i op (fun _ => some .start) (fun op => opName op == "lflush" && parseIntArg (opArg op) == 0) with
      | .ok th' => .ok { s with ths := s.ths.set t th' }
      | .error e => .error e
  | .ret t i v =>
    match s.ths[t]? with
    | none => .error "no such thread"
    | some th => match closeCall th i v with
      | .ok th' => .ok { s with ths := s.ths.set t th' }
      | .error e => .error e
  | .other x => .error s!"unparsed trace item {x}"

def runItems {S} (step : S → Item → Except String S) : S → List Item → Nat → Except String S
  | s, [], _ => .ok s
  | s, it :: r, n => match step s it with
    | .ok s' => runItems step s' r (n + 1)
    | .error e => .error s!"diverge@{n}: {e}"

def allDone {Pc} (ths : List (Th Pc)) : Bool := ths.all fun t => t.idx == t.ops.length && t.pc.isNone && t.retv.isNone

/-- an operation that cannot lower a float counter: `get`, or an add whose delta is `>= +0` (not NaN) -/
def floatIncOp (op : String) : Bool :=
  opName op == "get" || (match floatDelta op with | some d => f64Le 0 d | none => false)

/-- the per-run discharge of the one fact about IEEE addition the float counter's monotonicity rests on
    (`C01.AddMono`): along the committed log, started from `v`, every step of the sequential specification
    led to a value `>=` (IEEE order, so no NaN either) the value before it -/
def floatStepsMonoB : UInt64 → List LinEv → Bool
  | _, [] => true
  | v, x :: r =>
    match specApply true v x.op with
    | some (v', _) => f64Le v v' && floatStepsMonoB v' r
    | none => false

def atomReplay (kind : String) (prog : List (List String)) (trace : List Item) : String :=
  let s0 : ASt := { float := kind == "counter" || kind == "gauge", counter := kind == "counter" || kind == "intcounter",
                    ths := prog.map fun ops => { ops := ops } }
  match runItems aItem s0 trace 0 with
  | .error e => e
  | .ok s =>
    if !allDone s.ths then "incomplete"
    -- a float COUNTER run made of `get`s and adds of deltas `>= 0`: the hypothesis of `reads_monotone_float` is checked on this very log
    else if s0.float && s0.counter && s.lin.all (fun x => floatIncOp x.op) && !floatStepsMonoB 0 s.lin then
      "float-add-decreased: a committed addition of a delta >= 0 lowered the cell (or produced NaN)"
    else s!"ok final={hexStr s.mem}"

/-! ## IntCounterVec (C10): critical sections of the children lock -/

/-- **the sequential specification** of a metric vector: label value ↦ child id, child id ↦ value -/
structure VSpec where
  map : List (String × Nat) := []      -- key ↦ child id
  vals : List UInt64 := []             -- child id ↦ value (children are never destroyed: handles stay usable)
deriving Repr

inductive VOp
  | getOrCreate (k : String) | remove (k : String) | reset | keys | inc (c : Nat) | read (c : Nat)
deriving Repr

inductive VRes
  | child (c : Nat) | ok | err | unit | keys (l : List (String × Nat)) | val (v : UInt64)
deriving Repr, BEq, DecidableEq

def VSpec.lookup (s : VSpec) (k : String) : Option Nat := (s.map.find? (·.1 == k)).map (·.2)

/-- what an operation does when it runs alone -/
def VSpec.apply (s : VSpec) : VOp → VSpec × VRes
  | .getOrCreate k =>
    match s.lookup k with
    | some c => (s, .child c)
    | none => ({ map := s.map ++ [(k, s.vals.length)], vals := s.vals ++ [0] }, .child s.vals.length)
  | .remove k =>
    match s.lookup k with
    | some _ => ({ s with map := s.map.filter (·.1 != k) }, .ok)
    | none => (s, .err)
  | .reset => ({ s with map := [] }, .unit)
  | .keys => (s, .keys s.map)
  | .inc c => ({ s with vals := s.vals.set c (s.vals.getD c 0 + 1) }, .unit)
  | .read c => (s, .val (s.vals.getD c 0))

inductive VPc
  | start (op : String)
  | rheld (op : String) (hit : Option Nat)      -- read lock held; lookup result
  | needW (op : String)                          -- read section missed, next: write lock
  | wheld (op : String) (res : String)           -- write lock held, effect done
  | incChild (child : Nat)                       -- `inc` through a returned handle: call seen, no step yet
  | incCas (child : Nat) (cur : UInt64)          -- `inc` written as a loop: loaded `cur`, next is the compare-exchange to `cur + 1`
  | incRetry (child : Nat) (cur : UInt64)        -- `inc` written as a loop: a compare-exchange failed and reported `cur`; the loop either
                                                 -- loads again (as from `incChild`) or retries at once with the reported value (as from `incCas`)
  | collecting (keys : List (String × Nat)) (reads : List (String × UInt64 × List Nat))   -- value reads so far: location, value, the children it can be
  | rmRheld (op : String) (done : Option String)  -- `rm` / `reset` pre-check: read lock held; `some rv` = key absent / map empty, the remove / reset is committed with result `rv`
  | rmNeedW (op : String)                         -- `rm` / `reset` pre-check found the key / a non-empty map, read lock released; next: write lock
deriving Repr

/-- one committed operation: the thread, (ghost) the index of the call of that thread whose step
    performed it, the operation, what it returned -/
structure VLin where
  tid : Nat
  idx : Nat
  op : VOp
  res : VRes

structure VSt where
  ths : List (Th VPc)
  lockW : Option Nat := none      -- writer
  lockR : List Nat := []          -- readers
  spec : VSpec := {}              -- the vector's content: the machine only changes it through `vEff`
  binding : List (String × Nat) := []         -- location name ↦ child id
  handle : List (Nat × Nat) := []             -- thread ↦ child id of the handle it just got
  lin : List VLin := []           -- ghost: the operations in the order in which they took effect

/-- the only way the machine touches the vector's content: perform one operation of the sequential
    specification and record it -/
def vEff (s : VSt) (tid idx : Nat) (op : VOp) : VSt × VRes :=
  let r := s.spec.apply op
  ({ s with spec := r.1, lin := s.lin ++ [⟨tid, idx, op, r.2⟩] }, r.2)

def sortKeys (l : List String) : List String := l.foldl (fun acc a => insertBy (fun x y => decide (x ≤ y)) a acc) []
  where insertBy (le : String → String → Bool) (a : String) : List String → List String
    | [] => [a]
    | b :: r => if le b a then b :: insertBy le a r else a :: b :: r

/-- attribute the value reads of one collect to the children that were in the map: every read gets one of the
    children it could be at the time it was made (`cands`), each child exactly one read, and a location that has
    meanwhile been identified (by an update through a handle) goes to its child -/
def tryCands {α} (k : Nat → Option α) : List Nat → Option α
  | [] => none
  | c :: cs => match k c with
    | some r => some r
    | none => tryCands k cs

def assignReads (binding : List (String × Nat)) : List (String × UInt64 × List Nat) → List Nat → Option (List (Nat × UInt64))
  | [], _ => some []
  | (loc, v, cands) :: rest, avail =>
    let ok (c : Nat) : Bool := avail.contains c && (match binding.find? (·.1 == loc) with | some (_, c') => c' == c | none => true)
    tryCands (fun c => (assignReads binding rest (avail.erase c)).map ((c, v) :: ·)) (cands.filter ok)

def setHandle (s : VSt) (tid c : Nat) : VSt := { s with handle := (tid, c) :: s.handle.filter (·.1 != tid) }

/-- identify the location `loc` as the cell of child `c` (the thread that touches `loc` does so through a handle
    to `c`): a location that is already bound must be bound to `c`; a location not seen before is bound to `c`,
    unless `c` already lives at another location. Changes nothing but `binding`. -/
def bindChild (s : VSt) (loc : String) (c : Nat) : Except String VSt :=
  match s.binding.find? (·.1 == loc) with
  | some (_, c') => guard (c' == c) s!"inc on {loc}, which is child {c'}, but the handle is child {c}" (.ok s)
  | none =>
    guard (!s.binding.any (·.2 == c)) s!"child {c} already lives at another location than {loc}" <|
    .ok { s with binding := (loc, c) :: s.binding }

/-- the `inc` of child `c` as ONE `fetch_add` of 1 (ordering at least Relaxed) that returns the child's current
    value: commits `.inc c` through `vEff`, the call is complete -/
def vIncAdd (s : VSt) (e : Ev) (th : Th VPc) (c : Nat) : Except String VSt :=
  guard (e.k == "A" && ordGe e.ord "Relaxed" && e.a == 1) "inc: expected fetch_add Relaxed 1 (or load Relaxed)" <|
  guard (e.res == s.spec.vals.getD c 0) "inc: wrong old value" <|
  match bindChild s e.loc c with
  | .error m => .error m
  | .ok s1 =>
    let s2 := (vEff s1 e.tid th.idx (.inc c)).1
    .ok { s2 with ths := s2.ths.set e.tid { th with pc := none, retv := some "" } }

/-- the `inc` of child `c` written as a compare-exchange loop: its load (ordering at least Relaxed) of the child's
    cell, which must return the child's current value. A stutter: nothing is committed, the vector's content stays;
    the thread goes on to the compare-exchange with the value loaded (and the location is identified as the
    child's cell, exactly as by a `fetch_add`). -/
def vIncLoad (s : VSt) (e : Ev) (th : Th VPc) (c : Nat) : Except String VSt :=
  guard (e.k == "L" && ordGe e.ord "Relaxed") "inc: expected load Relaxed" <|
  guard (e.res == s.spec.vals.getD c 0) "inc: the load returns a wrong value" <|
  match bindChild s e.loc c with
  | .error m => .error m
  | .ok s1 => .ok { s1 with ths := s1.ths.set e.tid { th with pc := some (.incCas c e.res) } }

/-- the compare-exchange (strong or weak, success ordering at least Relaxed) of an `inc` of child `c` whose expected
    value is `cur`: it must install `cur + 1` (wrapping). A success must have found `cur` in the child's cell - the
    child's CURRENT value - and commits `.inc c` through `vEff` exactly as the `fetch_add` does; a failure (value
    changed, or spurious) must report the child's current value and is a stutter. -/
def vIncCas (s : VSt) (e : Ev) (th : Th VPc) (c : Nat) (cur : UInt64) : Except String VSt :=
  guard (e.k == "C" && ordGe e.ord "Relaxed" && e.a == cur && e.b == cur + 1)
    s!"inc: expected cas Relaxed {hexStr cur} -> {hexStr (cur + 1)}" <|
  match bindChild s e.loc c with
  | .error m => .error m
  | .ok s1 =>
    if e.ok then
      guard (s.spec.vals.getD c 0 == cur && e.res == cur) "inc: cas succeeded although the child no longer holds the expected value" <|
      let s2 := (vEff s1 e.tid th.idx (.inc c)).1
      .ok { s2 with ths := s2.ths.set e.tid { th with pc := none, retv := some "" } }
    else
      guard (e.res == s.spec.vals.getD c 0) "inc: failed cas reports a wrong current value" <|
      .ok { s1 with ths := s1.ths.set e.tid { th with pc := some (.incRetry c e.res) } }

def vStep (s : VSt) (e : Ev) : Except String VSt :=
  match s.ths[e.tid]? with
  | none => .error "no such thread"
  | some th =>
    match th.pc with
    | none => .error "event outside a call"
    | some pc =>
      let setTh (s : VSt) (th : Th VPc) : VSt := { s with ths := s.ths.set e.tid th }
      let key (op : String) := opArg op
      match pc with
      | .start op =>
        let n := opName op
        if n == "with" then
          guard (e.k == "R" && e.loc == "lk") "with: expected read lock" <|
          guard s.lockW.isNone "read lock granted while a writer holds the lock" <|
          -- a hit takes effect here (the lookup under the read lock); a miss has no effect yet
          match s.spec.lookup (key op) with
          | some _ =>
            let (s1, r) := vEff s e.tid th.idx (.getOrCreate (key op))
            .ok (setTh { s1 with lockR := e.tid :: s1.lockR } { th with pc := some (.rheld op (match r with | .child c => some c | _ => none)) })
          | none => .ok (setTh { s with lockR := e.tid :: s.lockR } { th with pc := some (.rheld op none) })
        else if n == "collect" then
          guard (e.k == "R" && e.loc == "lk") "collect: expected read lock" <|
          guard s.lockW.isNone "read lock granted while a writer holds the lock" <|
          let (s1, r) := vEff s e.tid th.idx .keys
          let ks := match r with | .keys l => l | _ => []
          .ok (setTh { s1 with lockR := e.tid :: s1.lockR } { th with pc := some (.collecting ks []) })
        else if n == "rm" && e.k == "R" then
          -- `rm` may first look the key up under the READ lock (like `with`): an absent key takes effect here - the
          -- specification's remove of an absent key returns "absent" and changes nothing -, the call is complete once the
          -- read lock is released and no write lock is taken; a present key commits nothing yet
          guard (e.loc == "lk") "rm: expected read lock on lk" <|
          guard s.lockW.isNone "read lock granted while a writer holds the lock" <|
          match s.spec.lookup (key op) with
          | none =>
            let (s1, r) := vEff s e.tid th.idx (.remove (key op))
            let rv := match r with | .ok => "ok" | .err => "err" | _ => ""
            .ok (setTh { s1 with lockR := e.tid :: s1.lockR } { th with pc := some (.rmRheld op (some rv)) })
          | some _ => .ok (setTh { s with lockR := e.tid :: s.lockR } { th with pc := some (.rmRheld op none) })
        else if n == "reset" && e.k == "R" then
          -- `reset` may first check under the READ lock whether the map is empty: a reset of an empty vector takes effect
          -- here - the specification's reset of an empty map changes nothing -, the call is complete once the read lock is
          -- released and no write lock is taken; a non-empty map commits nothing yet
          guard (e.loc == "lk") "reset: expected read lock on lk" <|
          guard s.lockW.isNone "read lock granted while a writer holds the lock" <|
          if s.spec.map.isEmpty then
            let (s1, r) := vEff s e.tid th.idx .reset
            let rv := match r with | .ok => "ok" | .err => "err" | _ => ""
            .ok (setTh { s1 with lockR := e.tid :: s1.lockR } { th with pc := some (.rmRheld op (some rv)) })
          else .ok (setTh { s with lockR := e.tid :: s.lockR } { th with pc := some (.rmRheld op none) })
        else if n == "rm" || n == "reset" then
          guard (e.k == "X" && e.loc == "lk") s!"{n}: expected write lock" <|
          guard (s.lockW.isNone && s.lockR.isEmpty) "write lock granted while the lock is held" <|
          let (s1, r) := vEff s e.tid th.idx (if n == "reset" then .reset else .remove (key op))
          let rv := match r with | .ok => "ok" | .err => "err" | _ => ""
          .ok (setTh { s1 with lockW := some e.tid } { th with pc := some (.wheld op rv) })
        else .error s!"unknown op {op}"
      | .rheld op hit =>
        guard (e.k == "r" && e.loc == "lk") "with: expected read unlock" <|
        let s1 := { s with lockR := s.lockR.erase e.tid }
        match hit with
        | some c => .ok (setTh (setHandle s1 e.tid c) { th with pc := none, retv := some "h" })
        | none => .ok (setTh s1 { th with pc := some (.needW op) })
      | .needW op =>
        guard (e.k == "X" && e.loc == "lk") "with: expected write lock after a miss" <|
        guard (s.lockW.isNone && s.lockR.isEmpty) "write lock granted while the lock is held" <|
        -- get-or-create under the write lock: the key is looked up AGAIN; a child is built and inserted only if still absent
        let (s1, r) := vEff s e.tid th.idx (.getOrCreate (key op))
        match r with
        | .child c => .ok (setTh (setHandle { s1 with lockW := some e.tid } e.tid c) { th with pc := some (.wheld op "h") })
        | _ => .error "internal: get-or-create returned no child"
      | .wheld _ res =>
        guard (e.k == "x" && e.loc == "lk") "expected write unlock" <|
        .ok (setTh { s with lockW := none } { th with pc := none, retv := some res })
      | .incChild c =>
        -- an update through a handle: one `fetch_add`, or - beginning with a load - a load + compare-exchange loop
        if e.k == "L" then vIncLoad s e th c else vIncAdd s e th c
      | .incCas c cur => vIncCas s e th c cur
      | .incRetry c cur =>
        -- after a failed compare-exchange that reported `cur`: a load is treated exactly as at `incChild`, anything
        -- else exactly as at `incCas c cur`
        if e.k == "L" then vIncLoad s e th c else vIncCas s e th c cur
      | .collecting ks reads =>
        let todo := ks.map (·.2)
        if e.k == "L" then
          -- a value read of one of the children that were in the map when the lock was taken. A location that has been
          -- identified (by an update through a handle) is that child's cell; a location not seen before is the cell of
          -- one of the not-yet-located children holding the value read - which one is settled at the unlock, when the
          -- reads are attributed to the children (`assignReads`); candidates hold the same value, so the result of the
          -- collect does not depend on the choice.
          let cands := match s.binding.find? (·.1 == e.loc) with
            | some (_, c) => if todo.contains c && s.spec.vals.getD c 0 == e.res then [c] else []
            | none => todo.filter fun c => !(s.binding.any (·.2 == c)) && s.spec.vals.getD c 0 == e.res
          guard (!cands.isEmpty) s!"collect reads {e.loc}, not (the current value of) a child that is in the map" <|
          .ok (setTh s { th with pc := some (.collecting ks ((e.loc, e.res, cands) :: reads)) })
        else
          guard (e.k == "r" && e.loc == "lk") "collect: expected child load or read unlock" <|
          guard (reads.length == todo.length) "collect released the lock before reading every child (or read one twice)" <|
          match assignReads s.binding reads.reverse todo with
          | none => .error "collect: the values read cannot be attributed to the children that were in the map"
          | some asg =>
            let strs := sortKeys (asg.map fun cv => (((ks.find? (·.2 == cv.1)).map (·.1)).getD "?") ++ "=" ++ toString cv.2.toNat)
            .ok (setTh { s with lockR := s.lockR.erase e.tid } { th with pc := none, retv := some ("+".intercalate strs) })
      | .rmRheld op done =>
        guard (e.k == "r" && e.loc == "lk") "rm / reset: expected read unlock" <|
        let s1 := { s with lockR := s.lockR.erase e.tid }
        match done with
        | some rv => .ok (setTh s1 { th with pc := none, retv := some rv })
        | none => .ok (setTh s1 { th with pc := some (.rmNeedW op) })
      | .rmNeedW op =>
        -- remove under the write lock: the key is looked up AGAIN (`remove(..).is_some()` decides the outcome; a
        -- concurrent remove / reset in the gap makes it report absent); reset under the write lock: the map is cleared,
        -- whatever it holds by then
        guard (e.k == "X" && e.loc == "lk") "rm / reset: expected write lock after the pre-check found something to remove" <|
        guard (s.lockW.isNone && s.lockR.isEmpty) "write lock granted while the lock is held" <|
        let (s1, r) := vEff s e.tid th.idx (if opName op == "reset" then .reset else .remove (key op))
        let rv := match r with | .ok => "ok" | .err => "err" | _ => ""
        .ok (setTh { s1 with lockW := some e.tid } { th with pc := some (.wheld op rv) })

def vItem (s : VSt) : Item → Except String VSt
  | .ev e => vStep s e
  | .call t i op =>
    match s.ths[t]? with
    | none => .error "no such thread"
    | some th =>
      if op == "hinc" then
        -- an update through the handle this thread obtained last, kept across removals / resets; no step at all without one
        match s.handle.find? (·.1 == t) with
        | some (_, c) => match openCall th i op (fun _ => some (.incChild c)) (fun _ => false) with
          | .ok th' => .ok { s with ths := s.ths.set t th' }
          | .error e => .error e
        | none => match openCall th i op (fun _ => none) (fun _ => true) with
          | .ok th' => .ok { s with ths := s.ths.set t th' }
          | .error e => .error e
      else if op == "inc" then
        -- update through the handle obtained by the preceding `with` of this thread (index "<i>u")
        if th.pc.isSome || th.retv.isSome then .error "call while another call is open" else
        match s.handle.find? (·.1 == t) with
        | some (_, c) => .ok { s with ths := s.ths.set t { th with pc := some (.incChild c) } }
        | none => .error "inc without a handle"
      else match openCall th i op (fun op => some (.start op)) (fun _ => false) with
        | .ok th' => .ok { s with ths := s.ths.set t th' }
        | .error e => .error e
  | .ret t i v =>
    match s.ths[t]? with
    | none => .error "no such thread"
    | some th =>
      if i.endsWith "u" then
        match th.retv with
        | some _ => .ok { s with ths := s.ths.set t { th with retv := none } }
        | none => .error "inc returned before its step"
      else match closeCall th i v with
        | .ok th' => .ok { s with ths := s.ths.set t th' }
        | .error e => .error e
  | .other x => .error s!"unparsed trace item {x}"

def vecReplay (prog : List (List String)) (trace : List Item) : String :=
  let s0 : VSt := { ths := prog.map fun ops => { ops := ops } }
  match runItems vItem s0 trace 0 with
  | .error e => e
  | .ok s =>
    if allDone s.ths then
      let ks := sortKeys (s.spec.map.map (·.1))
      s!"ok keys={if ks.isEmpty then "-" else "+".intercalate ks}"
    else "incomplete"

/-! ## Histogram (C02, C03): the replay machine is `Prom/Model/HistMachine.lean`, written over the
state of the proof model `Prom/HP`; this file only provides the constant it shares. -/

def top : UInt64 := 0x8000000000000000

end Prom.Conc
