import Prom.Model.Desc
/- The exposition data model (proto::MetricFamily / Metric / LabelPair …) as plain values. -/
namespace Prom

/-- `MetricType` in the numbering of proto_model.proto -/
inductive MType | counter | gauge | summary | untyped | histogram
deriving Repr, BEq, DecidableEq

/-- the value slot a `Metric` carries (the library sets exactly one) -/
inductive MVal
  | counter (v : UInt64)
  | gauge (v : UInt64)
  | hist (count : Nat) (sum : UInt64) (buckets : List (UInt64 × Nat))   -- (upper bound, cumulative count)
  | summary (count : Nat) (sum : UInt64) (quantiles : List (UInt64 × UInt64))
  | untyped (v : UInt64)
deriving Repr, BEq, DecidableEq

def MVal.kind : MVal → MType
  | .counter _ => .counter | .gauge _ => .gauge | .hist .. => .histogram
  | .summary .. => .summary | .untyped _ => .untyped

structure Sample where
  labels : List LabelPair
  val : MVal
  ts : Int := 0
deriving Repr, BEq, DecidableEq

structure Family where
  name : Str
  help : Str
  ty : MType
  samples : List Sample
deriving Repr, BEq, DecidableEq

/-- getters with proto2 default-on-read semantics -/
def Sample.counterVal (s : Sample) : UInt64 := match s.val with | .counter v => v | _ => 0
def Sample.gaugeVal (s : Sample) : UInt64 := match s.val with | .gauge v => v | _ => 0

end Prom
