import Prom.Model.Desc
/-
Sequential model of src/vec.rs (`MetricVecCore`): children keyed by the FNV-1a hash of the
separator-terminated label values; get-or-create, map form, remove, reset, collect.
A child's value is abstracted to a counter of updates made through any handle to it.
-/
namespace Prom

structure Child where
  labels : List LabelPair
  val : Nat
deriving Repr, BEq, DecidableEq

structure MVec where
  names : List Str               -- declared variable label names
  consts : List LabelPair        -- const label pairs, sorted by name
  buildFails : Bool              -- histogram vector with the reserved `le` label: every child build is Err
  children : List (UInt64 × Nat) -- key ↦ child id (index into `store`)
  store : List Child             -- every child ever created; detached children stay usable
deriving Repr

inductive VErr | card (expect got : Nat) | msg
deriving Repr, BEq, DecidableEq

/-- bytes `hash_label_values` feeds the hasher -/
def vecEnc (vals : List Str) : List UInt8 := sepEnc sep vals
def vecKey (vals : List Str) : UInt64 := fnv1a (vecEnc vals)

def hashLabelValues (v : MVec) (vals : List Str) : Except VErr UInt64 :=
  if vals.length != v.names.length then .error (.card v.names.length vals.length)
  else .ok (vecKey vals)

def mapGet (m : List (Str × Str)) (k : Str) : Option Str := (m.find? (·.1 == k)).map (·.2)

/-- `get_label_values`: walk the *declared* names -/
def labelValuesOfMap (names : List Str) (m : List (Str × Str)) : Option (List Str) :=
  names.mapM (mapGet m)

def hashLabels (v : MVec) (m : List (Str × Str)) : Except VErr (UInt64 × List Str) :=
  if m.length != v.names.length then .error (.card v.names.length m.length)
  else match labelValuesOfMap v.names m with
    | some vals => .ok (vecKey vals, vals)
    | none => .error .msg

def childLabels (v : MVec) (vals : List Str) : List LabelPair :=
  if v.names.length + v.consts.length == 0 then []
  else if v.names.isEmpty then v.consts
  else stableSortBy lpLe ((v.names.zip vals).map (fun p => ⟨p.1, p.2⟩) ++ v.consts)

def lookupKey (v : MVec) (k : UInt64) : Option Nat := (v.children.find? (·.1 == k)).map (·.2)

/-- read-lock lookup, then `get_or_create_metric` (re-check under the write lock, build, insert) -/
def getOrCreate (v : MVec) (k : UInt64) (vals : List Str) : MVec × Except VErr Nat :=
  match lookupKey v k with
  | some id => (v, .ok id)
  | none =>
    if v.buildFails then (v, .error .msg) else
    let id := v.store.length
    ({ v with children := v.children ++ [(k, id)], store := v.store ++ [⟨childLabels v vals, 0⟩] }, .ok id)

def withLabelValues (v : MVec) (vals : List Str) : MVec × Except VErr Nat :=
  match hashLabelValues v vals with
  | .error e => (v, .error e)
  | .ok k => getOrCreate v k vals

def withMap (v : MVec) (m : List (Str × Str)) : MVec × Except VErr Nat :=
  match hashLabels v m with
  | .error e => (v, .error e)
  | .ok (k, vals) => getOrCreate v k vals

def removeKey (v : MVec) (k : UInt64) : MVec × Except VErr Unit :=
  match lookupKey v k with
  | some _ => ({ v with children := v.children.filter (·.1 != k) }, .ok ())
  | none => (v, .error .msg)

def removeLabelValues (v : MVec) (vals : List Str) : MVec × Except VErr Unit :=
  match hashLabelValues v vals with
  | .error e => (v, .error e)
  | .ok k => removeKey v k

def removeMap (v : MVec) (m : List (Str × Str)) : MVec × Except VErr Unit :=
  match hashLabels v m with
  | .error e => (v, .error e)
  | .ok (k, _) => removeKey v k

def MVec.reset (v : MVec) : MVec := { v with children := [] }

/-- update through a handle (attached or detached) -/
def MVec.bump (v : MVec) (id : Nat) (d : Nat) : MVec :=
  { v with store := v.store.modify id (fun c => { c with val := c.val + d }) }

def MVec.valOf (v : MVec) (id : Nat) : Nat := (v.store[id]?.map (·.val)).getD 0

/-- `collect`: the children currently in the map (hash-map order: any) -/
def MVec.collect (v : MVec) : List Child := v.children.filterMap fun p => v.store[p.2]?

end Prom
