import Prom.Model.Family
import Prom.Base.F64
/-
Model of src/encoder/text.rs: `escape_string`, `label_pairs_to_text`, `write_sample`,
`TextEncoder::encode_impl`. Strings are UTF-8 byte lists. `f64::to_string` (Rust std, outside the
crate) is the parameter `fmt`; integer-to-string conversions are decimal.
-/
namespace Prom.Text
open Prom

def bs (s : String) : Str := s.toUTF8.toList

def isSpecial (quote : Bool) (b : UInt8) : Bool := b == 92 || b == 10 || (quote && b == 34)

/-- what `escape_default` yields for the three characters that are escaped -/
def escByte (quote : Bool) (b : UInt8) : Str :=
  if b == 92 then [92, 92]            -- `\`  -> `\\`
  else if b == 10 then [92, 110]      -- LF   -> `\n`
  else if quote && b == 34 then [92, 34]   -- `"` -> `\"` (label values only)
  else [b]

/-- `escape_string`: copy up to the first special byte (memchr fast path), escape the remainder -/
def escapeString (quote : Bool) (v : Str) : Str :=
  match v.findIdx? (isSpecial quote) with
  | none => v
  | some first => v.take first ++ (v.drop first).flatMap (escByte quote)

def natToStr (n : Nat) : Str := bs (toString n)
def intToStr (i : Int) : Str := bs (toString i)

def typeName : MType → Str
  | .counter => bs "counter" | .gauge => bs "gauge" | .summary => bs "summary"
  | .untyped => bs "untyped" | .histogram => bs "histogram"

/-- `label_pairs_to_text` -/
def labelPairsToText (pairs : List LabelPair) (extra : Option (Str × Str)) : Str :=
  if pairs.isEmpty && extra.isNone then [] else
  let one (n v : Str) : Str := n ++ bs "=\"" ++ escapeString true v ++ bs "\""
  let items := pairs.map (fun p => one p.name p.value) ++ (match extra with | some (n, v) => [one n v] | none => [])
  bs "{" ++ (bs ",").intercalate items ++ bs "}"

/-- `write_sample` -/
def writeSample (fmt : UInt64 → Str) (name : Str) (pfx : Str) (s : Sample) (extra : Option (Str × Str)) (value : UInt64) : Str :=
  name ++ pfx ++ labelPairsToText s.labels extra ++ bs " " ++ fmt value ++
    (if s.ts != 0 then bs " " ++ intToStr s.ts else []) ++ bs "\n"

/-- getters with default-on-read -/
def histOf (s : Sample) : Nat × UInt64 × List (UInt64 × Nat) :=
  match s.val with | .hist c sum bks => (c, sum, bks) | _ => (0, f64Zero, [])
def summaryOf (s : Sample) : Nat × UInt64 × List (UInt64 × UInt64) :=
  match s.val with | .summary c sum qs => (c, sum, qs) | _ => (0, f64Zero, [])

/-- the lines of one sample; `none` = the UNTYPED arm (`Err`) -/
def sampleText (fmt : UInt64 → Str) (name : Str) (ty : MType) (s : Sample) : Option Str :=
  match ty with
  | .counter => some (writeSample fmt name [] s none s.counterVal)
  | .gauge => some (writeSample fmt name [] s none s.gaugeVal)
  | .histogram =>
    let (count, sum, bks) := histOf s
    let bucketLines := bks.flatMap fun b => writeSample fmt name (bs "_bucket") s (some (bs "le", fmt b.1)) (f64OfNat b.2)
    let infSeen := bks.any fun b => f64IsPosInf b.1
    let infLine := if infSeen then [] else writeSample fmt name (bs "_bucket") s (some (bs "le", bs "+Inf")) (f64OfNat count)
    some (bucketLines ++ infLine ++ writeSample fmt name (bs "_sum") s none sum ++ writeSample fmt name (bs "_count") s none (f64OfNat count))
  | .summary =>
    let (count, sum, qs) := summaryOf s
    let qLines := qs.flatMap fun q => writeSample fmt name [] s (some (bs "quantile", fmt q.1)) q.2
    some (qLines ++ writeSample fmt name (bs "_sum") s none sum ++ writeSample fmt name (bs "_count") s none (f64OfNat count))
  | .untyped => none

def header (f : Family) : Str :=
  (if f.help.isEmpty then [] else bs "# HELP " ++ f.name ++ bs " " ++ escapeString false f.help ++ bs "\n") ++
  bs "# TYPE " ++ f.name ++ bs " " ++ typeName f.ty ++ bs "\n"

/-- samples of a family, stopping at the first sample that cannot be written -/
def samplesText (fmt : UInt64 → Str) (name : Str) (ty : MType) : List Sample → Str × Bool
  | [] => ([], true)
  | s :: r => match sampleText fmt name ty s with
    | none => ([], false)
    | some t => let (t', ok) := samplesText fmt name ty r; (t ++ t', ok)

/-- `encode_impl`: returns what was written and whether the call returned `Ok` -/
def encode (fmt : UInt64 → Str) : List Family → Str × Bool
  | [] => ([], true)
  | f :: r =>
    if f.samples.isEmpty || f.name.isEmpty then ([], false)      -- check_metric_family
    else
      let (st, ok) := samplesText fmt f.name f.ty f.samples
      if !ok then (header f ++ st, false)
      else let (rt, ok') := encode fmt r; (header f ++ st ++ rt, ok')

end Prom.Text
