/- Types of the regenerated macro table (`Gen/MacroArms.lean`). -/
namespace Prom.Macros

inductive PKind | expr | ident | lit
deriving Repr, BEq, DecidableEq

inductive Rep | none | tail (name : String) | pairs (key value : String)
deriving Repr, BEq, DecidableEq

/-- bodies of macro arms, and explicit API calls -/
inductive MExpr
  | var (name : String)
  | ident (name : String)
  | lit (tok : String)
  | call (name : String) (args : List MExpr)
  | newHistOpts (name help : MExpr)
  | setBuckets (opts buckets : MExpr)
  | setConstLabels (opts labels : MExpr)
  | construct (ty : MExpr) (args : List MExpr)       -- `$crate::<ty>::with_opts/new(args).unwrap()`
  | registerDefault (metric : MExpr)                 -- `$crate::register(Box::new(m.clone())).map(|()| m)`
  | registerIn (registry metric : MExpr)             -- `<registry>.register(Box::new(m.clone())).map(|()| m)`
  | optsExtendAll (name help : MExpr) (rep : String) -- `Opts::new(n, h)` + `extend` with every map of the repetition, in order
  | optsWith (name help : MExpr) (maps : List MExpr) -- the same with the repetition instantiated
  | labelsInsertAll (key value : String)
  | unknown (text : String)
deriving Repr, BEq

structure Arm where
  params : List (PKind × String)
  rep : Rep
  trailingComma : Bool
  body : MExpr
deriving Repr

structure MacroDef where
  name : String
  exported : Bool
  arms : List Arm
deriving Repr

end Prom.Macros
