import Prom.HP.Basic
import Prom.Model.Conc
/-
The executable replay machine for the histogram (areas `chist`; C02, C03), written *over the state
of the proof model* `Prom/HP/Basic.lean`: the shared part of the machine's state is an `Hp.St`
(`hot`, `n`, both shards as count + cells, the lock, and the ghost lists `claimed`, `asg`, `snaps`),
and every thread that is inside an API call carries the `Hp.Task` that call currently is. An event
observed on the real implementation (one atomic / lock operation reported by the cfg(prometheus_verif)
shim) is accepted only if it is exactly the operation that task performs next — same kind, location,
memory ordering at least as strong, operands, and the value the model's memory holds — and then the
machine performs the corresponding `Hp.Step`. `Prom/Lemmas/HistRefine.lean` proves that every accepted
item is a stutter, one `Hp.Step` or (see (b)) two `Hp.Step`s of the abstraction, so every state the
machine reaches while replaying a real trace satisfies the theorems of C02 / C03.

Three freedoms the real code has are accepted (all behaviour-preserving):
(a) the cell updates of one observation / one flushed batch may come in ANY order (`pick`: the event's
    location selects the entry of the task's list; the first such entry if a cell occurs twice; an event
    that addresses no entry is checked against the head and rejected). The compare-exchange loop on the
    sum keeps its state (`cur`, `failed`) across bucket updates of the same observation, so bucket
    updates may also fall between the loop's load and its compare-exchange.
(b) a collector may skip the `fetch_add(0)` of `addHot c` on a bucket out of which it swapped 0
    (`skipTask`): the machine takes the abstract `addHot` step (it adds 0) itself, right after the swap
    that read the 0, and remembers the bucket (`Pc.zeros`): if the code does issue the `fetch_add(0)`
    later, it is accepted once, as a stutter.
(c) every `fetch_add` on an integer cell (claim and flip on shard_and_count, bucket updates, publish and
    `addCount` on a shard's count) may be written as a load + compare-exchange loop (`fetchAdd`): the
    successful exchange carries the site's ordering and is the step; loads and failed exchanges are stutters.

(d) a collector between its successful spin and its unlock may take its steps in ANY order subject to:
    every cold cell is swapped out once, a drained value is added to the hot cell only after that cell's
    swap, `unlock` comes last (`colStep`: the event's location selects the step of the task's list).
    While it spins, a load of the cold count before a compare-exchange attempt is a stutter.

Memory cells are exact integers (`Nat` counts, `Int` cells). Events carry 64-bit patterns: the
machine compares them with the *encoding* of its own value (`encSc` for shard_and_count, `u64OfInt`
for counts and buckets, `f64OfInt` for the f64 sum) and rejects a run that leaves the range in which
the encodings are exact (2^63 observations, sums beyond 2^53, non-integer values): such runs are
outside the model, they are not accepted silently.
-/
namespace Prom.HM
open Prom Prom.Conc Hp

inductive Loc
  | sc | lk | cnt (b : Bool) | sum (b : Bool) | bkt (b : Bool) (i : Nat) | bad
deriving DecidableEq, Repr

def shardOfChar (d : Char) : Option Bool := if d == '0' then some false else if d == '1' then some true else none

def parseLoc (s : String) : Loc :=
  match s.toList with
  | ['s', 'c'] => .sc
  | ['l', 'k'] => .lk
  | ['s', d, 'c'] => match shardOfChar d with | some b => .cnt b | none => .bad
  | ['s', d, 's'] => match shardOfChar d with | some b => .sum b | none => .bad
  | 's' :: d :: 'b' :: r =>
    match shardOfChar d, (String.ofList r).toNat? with
    | some b, some i => .bkt b i
    | _, _ => .bad
  | _ => .bad

structure Pc where
  op : String                      -- "obs" | "flush" | "collect" | "count" | "sum"
  task : Option Task               -- the proof model's task this call currently is (`count`: none)
  cur : Option Int := none         -- a compare-exchange loop on a sum cell has loaded this value
  failed : Bool := false           -- `cur` is the value a FAILED compare-exchange reported: the loop may also load again
  icur : Option UInt64 := none     -- a compare-exchange loop standing for a `fetch_add` on an integer cell has loaded this pattern
  ifailed : Bool := false          -- `icur` is the pattern a FAILED compare-exchange reported: the loop may also load again
  stage : Nat := 0                 -- `sum`: 0 lock held, 1 hot shard known, 2 value read
  b : Bool := false                -- `sum`: the shard it learned
  val : Int := 0                   -- `sum`: the value it read
  c0 : List Obs := []              -- ghost: `claimed` when the call started
  zeros : List Nat := []           -- `collect`: buckets out of which 0 was swapped and whose `addHot` (of 0) was taken silently

/-- ghost record of one returned snapshot: `claimed` when the collect call started, the cut, `claimed`
    at the unlock, and the value the call returns -/
structure CutRec where
  c0 : List Obs
  cut : List Obs
  c1 : List Obs
  rv : String

abbrev Cuts := List CutRec

structure St where
  bounds : List UInt64
  core : Hp.St                     -- shared state and ghost lists; `core.tasks` is not used (see `abs`)
  ths : List (Th Pc)
  cuts : List CutRec := []         -- ghost, one per returned snapshot
  tags : List (Nat × Nat) := []    -- ghost, parallel to `core.claimed`: (thread id, call index) of the call that claimed

def taskOf (th : Th Pc) : Option Task := th.pc.bind (·.task)

/-- the state of the proof model this machine state stands for -/
def abs (s : St) : Hp.St := { s.core with tasks := s.ths.filterMap taskOf }

def encSc (hot : Bool) (n : Nat) : UInt64 := (if hot then top else 0) + n.toUInt64
def sumRange (i : Int) : Bool := decide (-9007199254740992 < i) && decide (i < 9007199254740992)

/-- what an accepted event does: new shared state, new call state, `some rv` = the call is complete -/
abbrev Res := Hp.St × Pc × Option String

def showSnap (k : Nat) (ov : Nat) (taken : Cells) : String :=
  let cum := ((List.range k).foldl (fun (acc : List Nat × Nat) i => (acc.1 ++ [acc.2 + (taken i).toNat], acc.2 + (taken i).toNat)) ([], 0)).1
  s!"{ov}/{hexStr (f64OfInt (taken k))}/{"+".intercalate (cum.map toString)}"

/-- the load of a compare-exchange loop on the sum cell of shard `b`, which holds `x` -/
def casLoad (e : Ev) (c : Hp.St) (pc : Pc) (b : Bool) (x : Int) : Except String Res :=
  guard (e.k == "L" && parseLoc e.loc == .sum b && ordGe e.ord "Acquire" && sumRange x && e.res == f64OfInt x)
    s!"sum add: expected load Acquire of shard {b} sum -> {hexStr (f64OfInt x)}"
    (.ok (c, { pc with cur := some x, failed := false }, none))

/-- a compare-exchange loop adding `a` to the sum cell `cell` of shard `b` (load, then cas with retry).
    `onOk` is what a successful exchange does to the shared state and the task. After a failed
    exchange both ways of writing the loop are accepted: loading again, or retrying at once with the
    value the failed exchange reported (`Err(v) => cur = v`). -/
def casLoop (e : Ev) (c : Hp.St) (pc : Pc) (b : Bool) (cell : Nat) (a : Int) (onOk : Res) : Except String Res :=
  let x := (c.sh b).cell cell
  match pc.cur with
  | none => casLoad e c pc b x
  | some cur =>
    if pc.failed && e.k == "L" then casLoad e c pc b x else
    guard (e.k == "C" && parseLoc e.loc == .sum b && ordGe e.ord "Release" && sumRange cur && sumRange (cur + a) &&
           e.a == f64OfInt cur && e.b == f64OfInt (cur + a))
      s!"sum add: expected cas Release {hexStr (f64OfInt cur)} -> {hexStr (f64OfInt (cur + a))}" <|
      if e.ok then
        guard (decide (x = cur)) "sum cas succeeded on a changed value" (.ok onOk)
      else
        guard (sumRange x && e.res == f64OfInt x) "failed sum cas reports a wrong current value"
          (.ok (c, { pc with cur := some x, failed := true }, none))

/-- the load of a compare-exchange loop that stands for a `fetch_add` on the integer cell `loc`, which holds
    the pattern `x`: nothing changes, the call remembers the pattern -/
def faLoad (e : Ev) (c : Hp.St) (pc : Pc) (loc : Loc) (x : UInt64) (msg : String) : Except String Res :=
  guard (e.k == "L" && parseLoc e.loc == loc && ordGe e.ord "Relaxed" && e.res == x) msg
    (.ok (c, { pc with icur := some x, ifailed := false }, none))

/-- **one `fetch_add` site** — the generic acceptor used wherever the code adds `a` to an integer cell
    (`shard_and_count`, a bucket, a shard's count), which holds the pattern `x`; `ord` is the ordering the
    site needs, `ok` a side condition of the site (the value stays in the model's range), `onOk` what the
    addition does to the shared state and the task. Accepted: the single `fetch_add` (operand `a`, ordering
    at least `ord`, result `x`); or the same addition written as a compare-exchange loop - a load (any
    ordering), then `compare_exchange(_weak)(cur, cur + a)` (wrapping) with ordering at least `ord`, which
    succeeds only if the cell still holds `cur`, and after a failure (which reports the cell's pattern and
    changes nothing) either loads again or goes on with the reported pattern. A successful exchange is a
    read-modify-write with the site's ordering, exactly like the `fetch_add` it stands for; loads and failed
    exchanges are stutters. -/
def fetchAdd (e : Ev) (c : Hp.St) (pc : Pc) (loc : Loc) (ord : String) (a x : UInt64) (ok : Bool) (msg : String)
    (onOk : Res) : Except String Res :=
  let done : Res := (onOk.1, { onOk.2.1 with icur := none, ifailed := false }, onOk.2.2)
  if e.k == "A" then
    guard (parseLoc e.loc == loc && ordGe e.ord ord && e.a == a && e.res == x && ok && pc.icur.isNone) msg (.ok done)
  else
    match pc.icur with
    | none => faLoad e c pc loc x msg
    | some cur =>
      if pc.ifailed && e.k == "L" then faLoad e c pc loc x msg else
      guard (e.k == "C" && parseLoc e.loc == loc && ordGe e.ord ord && e.a == cur && e.b == cur + a)
        (msg ++ s!" (or, as a loop: cas {ord} {hexStr cur} -> {hexStr (cur + a)})") <|
        if e.ok then
          guard (x == cur && e.res == cur && ok) "cas succeeded although the cell no longer holds the expected value" (.ok done)
        else
          guard (e.res == x) "failed cas reports a wrong current value" (.ok (c, { pc with icur := some x, ifailed := true }, none))

/-- does an event on location `loc` address the cell of the update entry `p` of an observation
    running in shard `b`? (cells `< k` are buckets, the other cell is the sum) -/
def hits (k : Nat) (b : Bool) (loc : Loc) (p : Nat × Int) : Bool :=
  if p.1 < k then loc == .bkt b p.1 else loc == .sum b

/-- split a list at its FIRST entry satisfying `f`: (entries before, that entry, entries after) -/
def splitFirst {α : Type} (f : α → Bool) : List α → Option (List α × α × List α)
  | [] => none
  | p :: l =>
    if f p then some ([], p, l)
    else match splitFirst f l with
      | some (l1, q, l2) => some (p :: l1, q, l2)
      | none => none

/-- the entry of the non-empty update list `p :: l` that an event on `loc` is about: the first entry
    whose cell `loc` addresses; if there is none, the head (whose check then rejects the event).
    Result: (entries before, the entry, entries after). -/
def pick (k : Nat) (b : Bool) (loc : Loc) (p : Nat × Int) (l : List (Nat × Int)) :
    List (Nat × Int) × (Nat × Int) × List (Nat × Int) :=
  (splitFirst (hits k b loc) (p :: l)).getD ([], p, l)

/-- one cell update `(cell, a)` of an observation `o` running in shard `b`; `rest` are the entries
    that remain to be applied afterwards. A bucket is one `fetch_add` (which leaves a sum loop that
    may be in progress as it is), the sum is the compare-exchange loop `casLoop`. -/
def obsEntry (k : Nat) (c : Hp.St) (e : Ev) (pc : Pc) (o : Obs) (b : Bool) (cell : Nat) (a : Int)
    (rest : List (Nat × Int)) : Except String Res :=
  let x := (c.sh b).cell cell
  let c' : Hp.St := { c with sh := modSh c.sh b (fun sd => { sd with cell := setCell sd.cell cell (sd.cell cell + a) }) }
  if cell < k then
    fetchAdd e c pc (.bkt b cell) "Relaxed" (u64OfInt a) (u64OfInt x) true
      s!"{pc.op}: expected fetch_add Relaxed {a} on bucket {cell} of shard {b} -> {x}"
      (c', { pc with task := some (.obsRun o b rest) }, none)
  else casLoop e c pc b cell a (c', { pc with task := some (.obsRun o b rest), cur := none, failed := false }, none)

def plainR (cuts : Cuts) (r : Except String Res) : Except String (Res × Cuts) :=
  match r with | .ok x => .ok (x, cuts) | .error m => .error m

/-- the location a step of a collector whose cold shard is `cold` works on (cells `< k` are buckets, the
    other cell is the sum): a `swap` on the cold shard, an `addHot` on the hot shard -/
def stepLoc (k : Nat) (cold : Bool) : CStep → Loc
  | .swap cell => if cell < k then .bkt cold cell else .sum cold
  | .addHot cell => if cell < k then .bkt (!cold) cell else .sum (!cold)
  | .addCount => .cnt (!cold)
  | .unlock => .lk

def showStep : CStep → String
  | .swap cell => s!"swap {cell}"
  | .addHot cell => s!"add {cell}"
  | .addCount => "addCount"
  | .unlock => "unlock"

/-- a collector may SKIP the no-op `fetch_add(0)` of its step `addHot cell` on a bucket (`cell < k`)
    when the value `x` it swapped out of the cold bucket is 0: `rest` being what is left to do after that
    swap, the result is what is left after the `addHot cell` too (`none`: nothing is skipped - the cell is
    the sum, `x` is not 0, or there is no such step). The machine takes that step (it adds 0, the shared
    state does not change) silently, right after the swap. -/
def skipTask (k cell : Nat) (x : Int) (rest : List CStep) : Option (List CStep) :=
  if decide (cell < k) && decide (x = 0) && !rest.contains (CStep.swap cell) then
    match splitFirst (fun st => st == CStep.addHot cell) rest with
    | some (m1, _, m2) => some (m1 ++ m2)
    | none => none
  else none

/-- what the swap of cell `cell` of the cold shard does (`rest`: what is left to do after it): the cold cell
    is reset, its value is the drained value `taken cell`; if it is a bucket that held 0, the `addHot` of that
    bucket is taken as well (`skipTask`) and the bucket is remembered in `zeros` -/
def swapRes (k : Nat) (c : Hp.St) (pc : Pc) (cold : Bool) (ov cell : Nat) (rest : List CStep) (taken : Cells)
    (S : List Obs) : Res :=
  let x := (c.sh cold).cell cell
  let c' : Hp.St := { c with sh := modSh c.sh cold (fun sd => { sd with cell := setCell sd.cell cell 0 }) }
  match skipTask k cell x rest with
  | some rest' => (c', { pc with task := some (.colMove cold ov rest' (setCell taken cell x) S), zeros := cell :: pc.zeros }, none)
  | none => (c', { pc with task := some (.colMove cold ov rest (setCell taken cell x) S) }, none)

/-- one event of a collector between its successful spin and its unlock (task `colMove cold ov todo taken S`).
    The steps of `todo` may be taken in ANY order: the event's location selects the step (the first step of
    the list on that location; `swap cell` works on the cold shard, `addHot cell` on the hot one), `l1 ++ l2`
    is what remains. Rejected: an event on a location no remaining step works on (so no swap is done twice),
    an `addHot cell` while `swap cell` is still to be done, an `unlock` while anything else is left.
    A swap that reads 0 out of a bucket also takes the `addHot` of that bucket (`skipTask`); the
    `fetch_add(0)` on that hot bucket, should the code issue it, is then accepted once as a stutter (`zeros`). -/
def colStep (k : Nat) (c : Hp.St) (cuts : Cuts) (e : Ev) (pc : Pc) (cold : Bool) (ov : Nat) (todo : List CStep)
    (taken : Cells) (S : List Obs) : Except String (Res × Cuts) :=
  let plain := plainR cuts
  match splitFirst (fun st => stepLoc k cold st == parseLoc e.loc) todo with
  | some (l1, .swap cell, l2) =>
    let x := (c.sh cold).cell cell
    let r : Res := swapRes k c pc cold ov cell (l1 ++ l2) taken S
    if cell < k then
      plain <| guard (e.k == "W" && parseLoc e.loc == .bkt cold cell && ordGe e.ord "AcqRel" && e.a == 0 && e.res == u64OfInt x)
        s!"collect: expected swap AcqRel 0 on bucket {cell} of shard {cold} -> {x}" (.ok r)
    else
      plain <| guard (e.k == "W" && parseLoc e.loc == .sum cold && ordGe e.ord "AcqRel" && e.a == 0 && sumRange x && e.res == f64OfInt x)
        s!"collect: expected swap AcqRel 0.0 on the sum of shard {cold} -> {hexStr (f64OfInt x)}" (.ok r)
  | some (l1, .addHot cell, l2) =>
    let x := (c.sh (!cold)).cell cell
    let r : Res := ({ c with sh := modSh c.sh (!cold) (fun sd => { sd with cell := setCell sd.cell cell (sd.cell cell + taken cell) }) },
                    { pc with task := some (.colMove cold ov (l1 ++ l2) taken S), cur := none, failed := false }, none)
    if (l1 ++ l2).contains (CStep.swap cell) then
      .error s!"collect: add to cell {cell} of shard {!cold} before cell {cell} of shard {cold} was swapped out"
    else if cell < k then
      plain <| fetchAdd e c pc (.bkt (!cold) cell) "Relaxed" (u64OfInt (taken cell)) (u64OfInt x) true
        s!"collect: expected fetch_add Relaxed {taken cell} on bucket {cell} of shard {!cold} -> {x}" r
    else plain <| casLoop e c pc (!cold) cell (taken cell) r
  | some (l1, .addCount, l2) =>
    plain <| fetchAdd e c pc (.cnt (!cold)) "Relaxed" ov.toUInt64 (c.sh (!cold)).count.toUInt64 true
      s!"collect: expected fetch_add Relaxed {ov} on the count of shard {!cold} -> {(c.sh (!cold)).count}"
      ({ c with sh := modSh c.sh (!cold) (fun sd => { sd with count := sd.count + ov }) },
       { pc with task := some (.colMove cold ov (l1 ++ l2) taken S) }, none)
  | some (l1, .unlock, l2) =>
    if !(l1 ++ l2).isEmpty then
      .error s!"collect: unlock before the collect's last step (left: {", ".intercalate ((l1 ++ l2).map showStep)})"
    else
    match guard (e.k == "k" && parseLoc e.loc == .lk) "collect: expected unlock" (.ok ()) with
    | .error m => .error m
    | .ok () =>
      .ok (({ c with lock := false, snaps := c.snaps ++ [(⟨ov, taken⟩, S)],
                     asg := fun b => if b = cold then [] else c.asg (!cold) ++ c.asg cold },
            { pc with task := none }, some (showSnap k ov taken)),
           cuts ++ [⟨pc.c0, S, c.claimed, showSnap k ov taken⟩])
  | none =>
    match pc.zeros.find? (fun z => parseLoc e.loc == .bkt (!cold) z) with
    | some z =>
      -- the `fetch_add(0)` of an `addHot` the machine has taken silently: a stutter, accepted once
      let x := (c.sh (!cold)).cell z
      plain <| fetchAdd e c pc (.bkt (!cold) z) "Relaxed" 0 (u64OfInt x) true
        s!"collect: expected fetch_add Relaxed 0 on bucket {z} of shard {!cold} -> {x}"
        (c, { pc with zeros := pc.zeros.erase z }, none)
    | none =>
      .error s!"collect: no remaining step works on {e.loc} ({e.k}); left: {", ".intercalate (todo.map showStep)}"

/-- the check of one event against the task the call currently is (after `skipPc`, see `evStep`) -/
def evStep1 (k : Nat) (c : Hp.St) (cuts : Cuts) (e : Ev) (pc : Pc) : Except String (Res × Cuts) :=
  let plain := plainR cuts
  match pc.task with
  | none =>
    plain <| guard (pc.op == "count" && e.k == "L" && parseLoc e.loc == .sc && ordGe e.ord "Relaxed" && e.res == encSc c.hot c.n)
      s!"{pc.op}: expected load Relaxed of shard_and_count -> {hexStr (encSc c.hot c.n)}"
      (.ok (c, pc, some (toString c.n)))
  | some (.obsStart o) =>
    plain <| fetchAdd e c pc .sc "Acquire" o.w.toUInt64 (encSc c.hot c.n) (decide (c.n + o.w < 9223372036854775808))
      s!"{pc.op}: expected claim fetch_add Acquire {o.w} on shard_and_count -> {hexStr (encSc c.hot c.n)}"
      ({ c with n := c.n + o.w, claimed := c.claimed ++ [o], asg := modAsg c.asg c.hot (· ++ [o]) },
       { pc with task := some (.obsRun o c.hot o.upd) }, none)
  | some (.obsRun o b (p :: l)) =>
    -- the updates of one observation may come in any order: the event's location selects the entry
    let sp := pick k b (parseLoc e.loc) p l
    plain <| obsEntry k c e pc o b sp.2.1.1 sp.2.1.2 (sp.1 ++ sp.2.2)
  | some (.obsRun o b []) =>
    plain <| fetchAdd e c pc (.cnt b) "Release" o.w.toUInt64 (c.sh b).count.toUInt64 true
      s!"{pc.op}: expected publish fetch_add Release {o.w} on the count of shard {b} -> {(c.sh b).count}"
      ({ c with sh := modSh c.sh b (fun sd => { sd with count := sd.count + o.w }) }, { pc with task := none }, some "")
  | some .colWant =>
    plain <| guard (e.k == "K" && parseLoc e.loc == .lk && !c.lock)
      s!"{pc.op}: expected to acquire the free collect lock"
      (.ok ({ c with lock := true }, { pc with task := some .colLocked }, none))
  | some .colLocked =>
    if pc.op == "sum" then
      if pc.stage == 0 then
        plain <| guard (e.k == "L" && parseLoc e.loc == .sc && ordGe e.ord "Relaxed" && e.res == encSc c.hot c.n)
          "sum: expected load Relaxed of shard_and_count" (.ok (c, { pc with stage := 1, b := c.hot }, none))
      else if pc.stage == 1 then
        let x := (c.sh pc.b).cell k
        plain <| guard (e.k == "L" && parseLoc e.loc == .sum pc.b && ordGe e.ord "Relaxed" && sumRange x && e.res == f64OfInt x)
          s!"sum: expected load Relaxed of the sum of shard {pc.b} -> {hexStr (f64OfInt x)}" (.ok (c, { pc with stage := 2, val := x }, none))
      else
        plain <| guard (e.k == "k" && parseLoc e.loc == .lk) "sum: expected unlock"
          (.ok ({ c with lock := false }, { pc with task := none }, some (hexStr (f64OfInt pc.val))))
    else
      plain <| fetchAdd e c pc .sc "AcqRel" top (encSc c.hot c.n) true
        s!"collect: expected flip fetch_add AcqRel 2^63 on shard_and_count -> {hexStr (encSc c.hot c.n)}"
        ({ c with hot := !c.hot }, { pc with task := some (.colSpin c.hot c.n c.claimed) }, none)
  | some (.colSpin cold ov S) =>
    if e.k == "L" then
      -- test-and-test-and-set: a load of the cold count before a compare-exchange attempt changes nothing
      plain <| guard (parseLoc e.loc == .cnt cold && ordGe e.ord "Relaxed" && e.res == (c.sh cold).count.toUInt64)
        s!"collect: expected load of the count of shard {cold} -> {(c.sh cold).count}" (.ok (c, pc, none))
    else
    plain <| guard (e.k == "C" && parseLoc e.loc == .cnt cold && ordGe e.ord "Acquire" && e.a == ov.toUInt64 && e.b == 0)
      s!"collect: expected spin cas Acquire {ov} -> 0 on the count of shard {cold}" <|
      if e.ok then
        guard (decide ((c.sh cold).count = ov)) "spin succeeded before the cold shard was complete"
          (.ok ({ c with sh := modSh c.sh cold (fun sd => { sd with count := 0 }) },
                { pc with task := some (.colMove cold ov (prog k) (fun _ => 0) S) }, none))
      else
        guard (e.res == (c.sh cold).count.toUInt64) "failed spin cas reports a wrong count" (.ok (c, pc, none))
  | some (.colMove cold ov todo taken S) => colStep k c cuts e pc cold ov todo taken S

/-- one event of an open call (the check `evStep1`; the silent `addHot` of 0 is part of the collector's
    swap, see `colStep`) -/
def evStep (k : Nat) (c : Hp.St) (cuts : Cuts) (e : Ev) (pc : Pc) : Except String (Res × Cuts) :=
  evStep1 k c cuts e pc

/-- the observation an `obs:v` / `flush:v1+v2+…` call makes: weight, one entry per non-empty bucket
    (ascending), then the sum entry on cell `k` -/
def obsOfVals (bounds : List UInt64) (vals : List Int) : Obs :=
  let k := bounds.length
  let counts := vals.foldl (fun acc v => match findBucket bounds (f64OfInt v) with | some i => bumpAt acc i 1 | none => acc) (List.replicate k 0)
  ⟨vals.length, ((counts.zipIdx).filterMap fun (cnt, i) => if cnt > 0 then some (i, (cnt : Int)) else none) ++ [(k, vals.foldl (· + ·) 0)]⟩

def parseIntVals (s : String) : List Int := (s.splitOn "+").map parseIntArg

def callVals (op : String) : List Int :=
  if opName op == "obs" then [parseIntArg (opArg op)] else parseIntVals (opArg op)

def planObs (k : Nat) (n : String) (o : Obs) : Except String (Option Pc) :=
  if o.w == 0 then .ok none
  else if decide (1 ≤ o.w) && o.upd.all (fun p => decide (p.1 ≤ k)) then .ok (some { op := n, task := some (.obsStart o) })
  else .error "observation outside the model"

/-- opening a call: the task it starts as (`none` = the call performs no shared step at all) -/
def planCall (s : St) (op : String) : Except String (Option Pc) :=
  let n := opName op
  if n == "obs" || n == "flush" then planObs s.bounds.length n (obsOfVals s.bounds (callVals op))
  else if n == "collect" then .ok (some { op := n, task := some .colWant, c0 := s.core.claimed })
  else if n == "sum" then .ok (some { op := n, task := some .colWant })
  else if n == "count" then .ok (some { op := n, task := none })
  else .error s!"unknown op {op}"

def item (s : St) : Item → Except String St
  | .ev e =>
    match s.ths[e.tid]? with
    | none => .error "no such thread"
    | some th =>
      match th.pc with
      | none => .error "event outside a call"
      | some pc =>
        match evStep s.bounds.length s.core s.cuts e pc with
        | .error m => .error m
        | .ok ((c', pc', rv), cuts') =>
          -- ghost: the event was a claim step iff `claimed` grew; tag the new position with (thread, call index)
          let tags' := if c'.claimed.length > s.core.claimed.length then s.tags ++ [(e.tid, th.idx)] else s.tags
          match rv with
          | none => .ok { s with core := c', cuts := cuts', tags := tags', ths := s.ths.set e.tid { th with pc := some pc' } }
          | some v =>
            if pc'.task.isSome then .error "internal: a completed call still has a task"
            else .ok { s with core := c', cuts := cuts', tags := tags', ths := s.ths.set e.tid { th with pc := none, retv := some v } }
  | .call t i op =>
    match s.ths[t]? with
    | none => .error "no such thread"
    | some th =>
      match planCall s op with
      | .error m => .error m
      | .ok plan =>
        if th.pc.isSome || th.retv.isSome then .error "call while another call is open"
        else if toString th.idx != i then .error s!"call index {i}, expected {th.idx}"
        else if th.ops.getD th.idx "" != op then .error s!"call {op}, program says {th.ops.getD th.idx ""}"
        else match plan with
          | none => .ok { s with ths := s.ths.set t { th with retv := some "" } }
          | some pc => .ok { s with ths := s.ths.set t { th with pc := some pc } }
  | .ret t i v =>
    match s.ths[t]? with
    | none => .error "no such thread"
    | some th => match closeCall th i v with
      | .ok th' => .ok { s with ths := s.ths.set t th' }
      | .error e => .error e
  | .other x => .error s!"unparsed trace item {x}"

def init (bounds : List UInt64) (prog : List (List String)) : St :=
  { bounds := bounds, core := Hp.init, ths := prog.map fun ops => { ops := ops } }

/-- stats of everything claimed, as a final quiescent collect must report them -/
def finalStats (s : St) : String :=
  let k := s.bounds.length
  showSnap k (totW s.core.claimed) (fun c => tot s.core.claimed c)

def histReplay (bounds : List UInt64) (prog : List (List String)) (trace : List Item) : String :=
  match runItems item (init bounds prog) trace 0 with
  | .error e => e
  | .ok s => if allDone s.ths then s!"ok final={finalStats s}" else "incomplete"

end Prom.HM
