import Prom.Model.PbTypes
import Prom.Model.Family
/-
proto2 wire format, generically: a writer driven by a *writer table* (what the generated Rust code
writes, `Gen/PbTables.writerTable`) and an independent reader driven by a *schema* (what the
.proto file declares, `Gen/PbTables.schema`). Message nesting is bounded by a depth fuel
(MetricFamily → Metric → Histogram → Bucket is depth 4).
The primitives (`CodedOutputStream::write_*` of the `protobuf` crate, outside /repo) are modelled
from the protobuf encoding specification and validated by the byte comparison.
-/
namespace Prom.Pb
open Prom

inductive PVal
  | str (b : List UInt8)
  | double (bits : UInt64)
  | uint (n : UInt64)
  | int (n : UInt64)           -- int64 as its 64-bit two's complement pattern
  | enum (n : UInt64)
  | msg (fields : List (String × PVal))
deriving Repr

abbrev Fields := List (String × PVal)

/-! ### primitives -/

def varintFuel : Nat → Nat → List UInt8
  | 0, _ => []
  | f + 1, n => if n < 128 then [n.toUInt8] else (n % 128 + 128).toUInt8 :: varintFuel f (n / 128)

/-- base-128 varint of a value below 2^64 (at most 10 bytes) -/
def varint (n : Nat) : List UInt8 := varintFuel 10 n

/-- little-endian 8 bytes -/
def fixed64 (b : UInt64) : List UInt8 :=
  let n := b.toNat
  [(n % 256).toUInt8, (n / 256 % 256).toUInt8, (n / 65536 % 256).toUInt8, (n / 16777216 % 256).toUInt8,
   (n / 4294967296 % 256).toUInt8, (n / 1099511627776 % 256).toUInt8, (n / 281474976710656 % 256).toUInt8,
   (n / 72057594037927936 % 256).toUInt8]

def wireType : FKind → Nat
  | .str => 2 | .double => 1 | .uint64 => 0 | .int64 => 0 | .enum _ => 0 | .msg _ => 2 | .unknown _ => 7

def tag (num : Nat) (k : FKind) : List UInt8 := varint (num * 8 + wireType k)

/-! ### table-driven writer -/

def lookupMsg {α} (t : List (String × List α)) (name : String) : Option (List α) := (t.find? (·.1 == name)).map (·.2)

/-- the entries of a message in the order they are written: for each table field in write order,
    every entry of that name in its given order -/
def emitOrder (wfs : List WField) (fs : Fields) : List (WField × PVal) :=
  wfs.flatMap fun wf => (fs.filter (·.1 == wf.name)).map fun p => (wf, p.2)

def optAppend : Option (List UInt8) → Option (List UInt8) → Option (List UInt8)
  | some a, some b => some (a ++ b)
  | _, _ => none

def flattenOpt (l : List (Option (List UInt8))) : Option (List UInt8) := l.foldr optAppend (some [])

/-- one occurrence of a field; `d` bounds the message nesting below it -/
def encField (tbl : List (String × List WField)) : Nat → WField → PVal → Option (List UInt8)
  | _, wf, .str b => match wf.kind with
    | .str => some (tag wf.num wf.kind ++ varint b.length ++ b)
    | _ => none
  | _, wf, .double bits => match wf.kind with
    | .double => some (tag wf.num wf.kind ++ fixed64 bits)
    | _ => none
  | _, wf, .uint n => match wf.kind with
    | .uint64 => some (tag wf.num wf.kind ++ varint n.toNat)
    | _ => none
  | _, wf, .int n => match wf.kind with
    | .int64 => some (tag wf.num wf.kind ++ varint n.toNat)
    | _ => none
  | _, wf, .enum n => match wf.kind with
    | .enum _ => some (tag wf.num wf.kind ++ varint n.toNat)
    | _ => none
  | 0, _, .msg _ => none
  | d + 1, wf, .msg fs => match wf.kind with
    | .msg sub => match lookupMsg tbl sub with
      | none => none
      | some wfs =>
        match flattenOpt ((emitOrder wfs fs).map fun p => encField tbl d p.1 p.2) with
        | some body => some (tag wf.num wf.kind ++ varint body.length ++ body)
        | none => none
    | _ => none

/-- a top-level message body -/
def encMsg (tbl : List (String × List WField)) (d : Nat) (name : String) (fs : Fields) : Option (List UInt8) :=
  match lookupMsg tbl name with
  | none => none
  | some wfs => flattenOpt ((emitOrder wfs fs).map fun p => encField tbl d p.1 p.2)

/-- `write_length_delimited_to_writer` -/
def encDelimited (tbl : List (String × List WField)) (fs : Fields) : Option (List UInt8) :=
  (encMsg tbl 8 "MetricFamily" fs).map fun body => varint body.length ++ body

/-! ### the data model as generic messages (which optional fields the library sets) -/

def typeNum : MType → UInt64
  | .counter => 0 | .gauge => 1 | .summary => 2 | .untyped => 3 | .histogram => 4

def labelMsg (p : LabelPair) : PVal := .msg [("name", .str p.name), ("value", .str p.value)]

def valFields : MVal → Fields
  | .counter v => [("counter", .msg [("value", .double v)])]
  | .gauge v => [("gauge", .msg [("value", .double v)])]
  | .untyped _ => []          -- the harness builds untyped samples without a value slot
  | .hist c s bks => [("histogram", .msg ([("sample_count", .uint c.toUInt64), ("sample_sum", .double s)] ++
      bks.map fun b => ("bucket", .msg [("cumulative_count", .uint b.2.toUInt64), ("upper_bound", .double b.1)])))]
  | .summary c s qs => [("summary", .msg ([("sample_count", .uint c.toUInt64), ("sample_sum", .double s)] ++
      qs.map fun q => ("quantile", .msg [("quantile", .double q.1), ("value", .double q.2)])))]

def i64Bits (i : Int) : UInt64 := if i ≥ 0 then i.toNat.toUInt64 else (0 : UInt64) - (-i).toNat.toUInt64

def sampleMsg (s : Sample) : PVal :=
  .msg (s.labels.map (fun p => ("label", labelMsg p)) ++ valFields s.val ++
        (if s.ts != 0 then [("timestamp_ms", .int (i64Bits s.ts))] else []))

def familyFields (f : Family) : Fields :=
  [("name", .str f.name), ("help", .str f.help), ("type", .enum (typeNum f.ty))] ++ f.samples.map fun s => ("metric", sampleMsg s)

/-- `ProtobufEncoder::encode`: check_metric_family, then one length-delimited message per family;
    returns the bytes written and whether the call returned Ok -/
def encodeStream (tbl : List (String × List WField)) : List Family → List UInt8 × Bool
  | [] => ([], true)
  | f :: r =>
    if f.samples.isEmpty || f.name.isEmpty then ([], false) else
    match encDelimited tbl (familyFields f) with
    | none => ([], false)
    | some b => let (rb, ok) := encodeStream tbl r; (b ++ rb, ok)

end Prom.Pb
