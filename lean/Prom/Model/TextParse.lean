import Prom.Model.Text
/-
An independent reader of Prometheus text format 0.0.4 (the specification side of C04):
lines split at LF; `# HELP name docstring`, `# TYPE name type`, sample lines
`name{label="value",…} value [timestamp]`; escapes `\\`, `\n` (and `\"` in label values);
values by an exact decimal-to-binary64 conversion (round to nearest, ties to even; `NaN`, `±Inf`);
`_bucket` / `_sum` / `_count` and `quantile` lines regrouped into histogram and summary samples.
Nothing here is shared with the encoder model.
-/
namespace Prom.TextParse
open Prom Prom.Text

/-! ### decimal → binary64, exactly -/

def pow2 (n : Nat) : Nat := 2 ^ n

/-- nearest binary64 (ties to even) to the positive rational `num / den` (`num, den > 0`) -/
def ratToF64Bits (num den : Nat) : UInt64 :=
  -- binary exponent e with 2^52 <= num/den / 2^e < 2^53, clamped at -1074
  let a : Int := Nat.log2 num
  let b : Int := Nat.log2 den
  let e0 : Int := max (-1074) (a - b - 53)
  let quot (e : Int) : Nat × Nat × Nat :=          -- (q, r, d) with num/den/2^e = q + r/d
    let n' := if e < 0 then num * pow2 (-e).toNat else num
    let d' := if e < 0 then den else den * pow2 e.toNat
    (n' / d', n' % d', d')
  let rec adj (fuel : Nat) (e : Int) : Int :=
    match fuel with
    | 0 => e
    | f + 1 => if (quot e).1 ≥ pow2 53 then adj f (e + 1) else e
  let e := adj 4 e0
  let (q, r, d) := quot e
  let q1 := if 2 * r > d then q + 1 else if 2 * r == d then (if q % 2 == 1 then q + 1 else q) else q
  let (q2, e2) := if q1 ≥ pow2 53 then (q1 / 2, e + 1) else (q1, e)
  if q2 ≥ pow2 52 then
    let biased := e2 + 52 + 1023
    if biased ≥ 2047 then 0x7FF0000000000000       -- overflow: +Inf
    else (biased.toNat * pow2 52 + (q2 - pow2 52)).toUInt64
  else q2.toUInt64                                  -- subnormal (e = -1074)

def isDigit (b : UInt8) : Bool := 48 ≤ b && b ≤ 57
def digitsVal (ds : List UInt8) : Nat := ds.foldl (fun acc d => acc * 10 + (d.toNat - 48)) 0

def lower (b : UInt8) : UInt8 := if 65 ≤ b && b ≤ 90 then b + 32 else b

/-- `[+-]?(digits)(.digits)?([eE][+-]?digits)?` or NaN / Inf spellings -/
def parseFloat (s : Str) : Option UInt64 :=
  let (neg, r) := match s with
    | 45 :: r => (true, r)
    | 43 :: r => (false, r)
    | r => (false, r)
  let sign : UInt64 := if neg then 0x8000000000000000 else 0
  let lw := r.map lower
  if lw == bs "nan" then some 0x7FF8000000000000
  else if lw == bs "inf" || lw == bs "infinity" then some (sign ||| 0x7FF0000000000000)
  else
    let ip := r.takeWhile isDigit
    let r1 := r.dropWhile isDigit
    let (fp, r2) := match r1 with
      | 46 :: t => (t.takeWhile isDigit, t.dropWhile isDigit)
      | t => ([], t)
    if ip.isEmpty && fp.isEmpty then none else
    let ex? : Option Int := match r2 with
      | [] => some 0
      | c :: t =>
        if c == 101 || c == 69 then
          let (eneg, t') := match t with
            | 45 :: u => (true, u)
            | 43 :: u => (false, u)
            | u => (false, u)
          if t'.isEmpty || !t'.all isDigit then none
          else some (if eneg then -(digitsVal t' : Int) else (digitsVal t' : Int))
        else none
    match ex? with
    | none => none
    | some ex =>
      let m := digitsVal (ip ++ fp)
      if m == 0 then some sign else
      let e10 : Int := ex - fp.length
      let (num, den) := if e10 ≥ 0 then (m * 10 ^ e10.toNat, 1) else (m, 10 ^ (-e10).toNat)
      some (sign ||| ratToF64Bits num den)

def parseInt (s : Str) : Option Int :=
  match s with
  | 45 :: r => if r.isEmpty || !r.all isDigit then none else some (-(digitsVal r : Int))
  | r => if r.isEmpty || !r.all isDigit then none else some (digitsVal r : Int)

/-! ### lexical layer -/

/-- split at LF; the text must end with LF (or be empty) -/
def splitLines (t : Str) : Option (List Str) :=
  let rec go (cur : Str) : Str → List Str → Option (List Str)
    | [], acc => if cur.isEmpty then some acc.reverse else none
    | b :: r, acc => if b == 10 then go [] r (cur.reverse :: acc) else go (b :: cur) r acc
  go [] t []

/-- undo `\\`, `\n` (and `\"` when `quote`); any other backslash sequence is an error -/
def unescape (quote : Bool) : Str → Option Str
  | [] => some []
  | 92 :: 92 :: r => (unescape quote r).map (92 :: ·)
  | 92 :: 110 :: r => (unescape quote r).map (10 :: ·)
  | 92 :: 34 :: r => if quote then (unescape quote r).map (34 :: ·) else none
  | 92 :: _ => none
  | b :: r => (unescape quote r).map (b :: ·)

def isNameStart (b : UInt8) : Bool := (65 ≤ b && b ≤ 90) || (97 ≤ b && b ≤ 122) || b == 95 || b == 58
def isNameByte (b : UInt8) : Bool := isNameStart b || isDigit b

/-- read a quoted label value: returns (raw escaped content, rest after the closing quote) -/
def readQuoted : Str → Str → Option (Str × Str)
  | [], _ => none
  | 92 :: c :: r, acc => readQuoted r (c :: 92 :: acc)
  | 34 :: r, acc => some (acc.reverse, r)
  | b :: r, acc => readQuoted r (b :: acc)

/-- `{name="value",…}` (cursor after `{`) -/
def readLabels (fuel : Nat) (s : Str) (acc : List (Str × Str)) : Option (List (Str × Str) × Str) :=
  match fuel with
  | 0 => none
  | fuel + 1 =>
    match s with
    | 125 :: r => some (acc.reverse, r)                 -- `}`
    | _ =>
      let n := s.takeWhile isNameByte
      let r := s.dropWhile isNameByte
      if n.isEmpty then none else
      match r with
      | 61 :: 34 :: r1 =>                               -- `="`
        match readQuoted r1 [] with
        | none => none
        | some (raw, r2) =>
          match unescape true raw with
          | none => none
          | some v =>
            match r2 with
            | 44 :: r3 => readLabels fuel r3 ((n, v) :: acc)   -- `,`
            | 125 :: r3 => some (((n, v) :: acc).reverse, r3)
            | _ => none
      | _ => none

structure PSample where
  name : Str
  labels : List (Str × Str)
  value : UInt64
  ts : Int
deriving Repr, BEq, DecidableEq

inductive Line
  | help (name doc : Str)
  | type (name ty : Str)
  | sample (s : PSample)
deriving Repr, BEq, DecidableEq

def splitSpace (s : Str) : Str × Str := (s.takeWhile (· != 32), (s.dropWhile (· != 32)).drop 1)

def parseSampleLine (l : Str) : Option PSample :=
  let name := l.takeWhile isNameByte
  let r := l.dropWhile isNameByte
  if name.isEmpty then none else
  let lr : Option (List (Str × Str) × Str) := match r with
    | 123 :: r1 => readLabels (r1.length + 1) r1 []
    | _ => some ([], r)
  match lr with
  | none => none
  | some (labels, r2) =>
    match r2 with
    | 32 :: r3 =>
      let (vtxt, r4) := splitSpace r3
      match parseFloat vtxt with
      | none => none
      | some v =>
        if r4.isEmpty then
          -- distinguish "value" from "value " (trailing blank): the latter is malformed
          if r3.length == vtxt.length then some ⟨name, labels, v, 0⟩ else none
        else match parseInt r4 with
          | some t => some ⟨name, labels, v, t⟩
          | none => none
    | _ => none

def dropBlanks (s : Str) : Str := s.dropWhile fun b => b == 32 || b == 9

def parseLine (l : Str) : Option Line :=
  if (bs "# HELP ").isPrefixOf l then
    let r := l.drop 7
    let (name, doc) := splitSpace r
    match unescape false (dropBlanks doc) with
    | some d => some (.help name d)
    | none => none
  else if (bs "# TYPE ").isPrefixOf l then
    let r := l.drop 7
    let (name, ty) := splitSpace r
    some (.type name ty)
  else (parseSampleLine l).map .sample

def parseType (t : Str) : Option MType :=
  if t == bs "counter" then some .counter else if t == bs "gauge" then some .gauge
  else if t == bs "summary" then some .summary else if t == bs "untyped" then some .untyped
  else if t == bs "histogram" then some .histogram else none

/-! ### grouping lines into families -/

def toPairs (l : List (Str × Str)) : List LabelPair := l.map fun p => ⟨p.1, p.2⟩

/-- builder state for the family being read -/
structure Cur where
  name : Str
  help : Str
  ty : MType
  samples : List Sample := []            -- newest first
  buckets : List (UInt64 × Nat) := []    -- pending histogram buckets / summary quantiles, newest first
  quants : List (UInt64 × UInt64) := []
  sum : Option UInt64 := none

def f64ToNat? (bits : UInt64) : Option Nat :=
  -- a count printed as a float: must be a non-negative integer below 2^53 (exactly representable)
  if bits == 0 then some 0 else
  let e := ((bits >>> 52) &&& 0x7FF).toNat
  let m := (bits &&& 0xFFFFFFFFFFFFF).toNat + pow2 52
  if bits ≥ 0x8000000000000000 || e < 1023 || e > 1023 + 52 then none
  else
    let sh := 52 - (e - 1023)
    if m % pow2 sh == 0 then some (m / pow2 sh) else none

def stripLast (labels : List (Str × Str)) (key : Str) : Option (List (Str × Str) × Str) :=
  match labels.reverse with
  | (k, v) :: r => if k == key then some (r.reverse, v) else none
  | [] => none

/-- add one sample line to the family being read -/
def addSample (c : Cur) (s : PSample) : Option Cur :=
  match c.ty with
  | .counter => if s.name == c.name then some { c with samples := ⟨toPairs s.labels, .counter s.value, s.ts⟩ :: c.samples } else none
  | .gauge => if s.name == c.name then some { c with samples := ⟨toPairs s.labels, .gauge s.value, s.ts⟩ :: c.samples } else none
  | .untyped => if s.name == c.name then some { c with samples := ⟨toPairs s.labels, .untyped s.value, s.ts⟩ :: c.samples } else none
  | .histogram =>
    if s.name == c.name ++ bs "_bucket" then
      match stripLast s.labels (bs "le") with
      | none => none
      | some (_, le) => match parseFloat le, f64ToNat? s.value with
        | some ub, some n => some { c with buckets := (ub, n) :: c.buckets }
        | _, _ => none
    else if s.name == c.name ++ bs "_sum" then some { c with sum := some s.value }
    else if s.name == c.name ++ bs "_count" then
      match f64ToNat? s.value, c.sum with
      | some n, some sum => some { c with samples := ⟨toPairs s.labels, .hist n sum c.buckets.reverse, s.ts⟩ :: c.samples, buckets := [], sum := none }
      | _, _ => none
    else none
  | .summary =>
    if s.name == c.name ++ bs "_sum" then some { c with sum := some s.value }
    else if s.name == c.name ++ bs "_count" then
      match f64ToNat? s.value, c.sum with
      | some n, some sum => some { c with samples := ⟨toPairs s.labels, .summary n sum c.quants.reverse, s.ts⟩ :: c.samples, quants := [], sum := none }
      | _, _ => none
    else if s.name == c.name then
      match stripLast s.labels (bs "quantile") with
      | none => none
      | some (_, q) => match parseFloat q with
        | some qv => some { c with quants := (qv, s.value) :: c.quants }
        | none => none
    else none

def Cur.finish (c : Cur) : Option Family :=
  if c.buckets.isEmpty && c.quants.isEmpty && c.sum.isNone then
    some { name := c.name, help := c.help, ty := c.ty, samples := c.samples.reverse }
  else none

/-- fold the lines: `# HELP` (optional) then `# TYPE` open a family, sample lines fill it -/
def group : List Line → Option Cur → Option (Str × Str) → List Family → Option (List Family)
  | [], cur, pendingHelp, acc =>
    if pendingHelp.isSome then none else
    match cur with
    | none => some acc.reverse
    | some c => (c.finish).map fun f => (f :: acc).reverse
  | .help n d :: r, cur, pendingHelp, acc =>
    if pendingHelp.isSome then none else
    match cur with
    | none => group r none (some (n, d)) acc
    | some c => match c.finish with
      | some f => group r none (some (n, d)) (f :: acc)
      | none => none
  | .type n t :: r, cur, pendingHelp, acc =>
    match parseType t with
    | none => none
    | some ty =>
      let help? : Option Str := match pendingHelp with
        | some (hn, d) => if hn == n then some d else none
        | none => some []
      match help? with
      | none => none
      | some h =>
        match cur with
        | none => group r (some { name := n, help := h, ty := ty }) none acc
        | some c => match c.finish with
          | some f => group r (some { name := n, help := h, ty := ty }) none (f :: acc)
          | none => none
  | .sample s :: r, cur, pendingHelp, acc =>
    if pendingHelp.isSome then none else
    match cur with
    | none => none
    | some c => match addSample c s with
      | some c' => group r (some c') none acc
      | none => none

/-- the reader: text ↦ families -/
def parse (t : Str) : Option (List Family) :=
  match splitLines t with
  | none => none
  | some ls => match ls.mapM parseLine with
    | none => none
    | some lines => group lines none none []

/-! ### what a faithful rendering reads back as -/

def canonF64 (b : UInt64) : UInt64 := if f64IsNaN b then 0x7FF8000000000000 else b

def canonVal : MVal → MVal
  | .counter v => .counter (canonF64 v)
  | .gauge v => .gauge (canonF64 v)
  | .untyped v => .untyped (canonF64 v)
  | .hist c s bks =>
    let bks' := bks.map fun b => (canonF64 b.1, b.2)
    .hist c (canonF64 s) (if bks.any (fun b => f64IsPosInf b.1) then bks' else bks' ++ [(f64PosInf, c)])
  | .summary c s qs => .summary c (canonF64 s) (qs.map fun q => (canonF64 q.1, canonF64 q.2))

def canon (fams : List Family) : List Family :=
  fams.map fun f => { f with samples := f.samples.map fun s => { s with val := canonVal s.val } }

end Prom.TextParse
