import Prom.Base.F64
/-
Sequential model of src/histogram.rs: bucket validation, first-match bucketing,
cumulative collection, bucket helper functions, LocalHistogramCore.
Floats are 64-bit patterns; the order is `Base/F64`; addition is a parameter.
-/
namespace Prom

/-- `check_and_adjust_buckets` loop: every element is a number and `a >= b`
    fails for every adjacent pair. -/
def bucketsOk : List UInt64 → Bool
  | [] => true
  | [a] => !f64IsNaN a
  | a :: b :: r => !f64IsNaN a && !f64Ge a b && bucketsOk (b :: r)

/-- drop a trailing `+Inf` (the implicit bucket) -/
def dropTrailingInf (bs : List UInt64) : List UInt64 :=
  match bs.getLast? with
  | some t => if f64IsPosInf t then bs.dropLast else bs
  | none => bs

/-- `check_and_adjust_buckets`; `none` = `Err(Msg)`. `defaults` = `DEFAULT_BUCKETS`. -/
def checkAndAdjust (defaults bs : List UInt64) : Option (List UInt64) :=
  let bs := if bs.isEmpty then defaults else bs
  if bucketsOk bs then some (dropTrailingInf bs) else none

/-- `upper_bounds.iter().enumerate().filter(|(_, f)| v <= *f).next()` -/
def findBucket : List UInt64 → UInt64 → Option Nat
  | [], _ => none
  | b :: r, v => if f64Le v b then some 0 else (findBucket r v).map (· + 1)

def bumpAt : List Nat → Nat → Nat → List Nat
  | [], _, _ => []
  | c :: r, 0, d => (c + d) :: r
  | c :: r, i + 1, d => c :: bumpAt r i d

structure Hist where
  bounds : List UInt64
  counts : List Nat      -- per bucket, not cumulative
  count : Nat
  sum : UInt64
deriving Repr

def Hist.new (bounds : List UInt64) : Hist :=
  { bounds, counts := List.replicate bounds.length 0, count := 0, sum := f64Zero }

def Hist.observe (add : UInt64 → UInt64 → UInt64) (h : Hist) (v : UInt64) : Hist :=
  { h with
    counts := match findBucket h.bounds v with
      | some i => bumpAt h.counts i 1
      | none => h.counts
    count := h.count + 1
    sum := add h.sum v }

/-- running cumulative counts, as `proto()` builds them -/
def cumulate : Nat → List Nat → List Nat
  | _, [] => []
  | acc, c :: r => (acc + c) :: cumulate (acc + c) r

structure Snap where
  count : Nat
  sum : UInt64
  cum : List Nat
deriving Repr, BEq, DecidableEq

def Hist.snap (h : Hist) : Snap := { count := h.count, sum := h.sum, cum := cumulate 0 h.counts }

def Hist.observeAll (add : UInt64 → UInt64 → UInt64) (h : Hist) (vs : List UInt64) : Hist :=
  vs.foldl (Hist.observe add) h

/-- `linear_buckets`; `none` = Err. `mulAdd start width step` is `start + width * (step as f64)`. -/
def linearBuckets (start width : UInt64) (count : Nat) : Option (List UInt64) :=
  if count < 1 then none
  else if f64Le width f64Zero then none
  else some ((List.range count).map fun step => f64Add start (f64Mul width (f64OfNat step)))

def expLoop (factor : UInt64) : Nat → UInt64 → List UInt64
  | 0, _ => []
  | n + 1, next => next :: expLoop factor n (f64Mul next factor)

def f64One : UInt64 := 0x3FF0000000000000

/-- `exponential_buckets` -/
def exponentialBuckets (start factor : UInt64) (count : Nat) : Option (List UInt64) :=
  if count < 1 then none
  else if f64Le start f64Zero then none
  else if f64Le factor f64One then none
  else some (expLoop factor count start)

end Prom
