import Prom.Model.StaticMetric
/-
Model of the struct tree `make_static_metric!` generates for the LOCAL flavours (`LocalCounterVec`,
`LocalIntCounterVec`, `LocalHistogramVec` …; static-metric/src/builder.rs `build_impl_from`,
`build_impl_flush`) and of the inner thread-local struct of `make_auto_flush_static_metric!`
(auto_flush_builder.rs: the same tree, reached through delegators, flushed by the same code).

  * `from(label_0, …, m)` builds one struct per label level; the struct of the LAST level holds, for
    every declared field, the local metric `m.with(&{key_i ↦ value_i})` of the child the field path
    denotes.  Hence there is one leaf per FIELD path, and two field names carrying the same value
    (aliases) give two different leaves — two local counters, each with its own pending amount —
    over the same child of the shared vector.
  * `inc` through a path `a.b.c` touches only the pending amount of that leaf.
  * the generated `flush()` of a level is `#(self.#names.flush();)*` — it calls `flush` on EVERY
    field, in declaration order; at the last level that is the local metric's own flush (add the
    pending amount to the shared child, zero it).

The tree is kept flattened: the list of its leaves in the depth-first order in which the nested
`flush()` calls reach them (`buildLeaves`; `buildLeaves_cons` / `flushStore_level` show the nesting).
The shared vector is an abstract store `child ↦ Nat`, keyed by the label map handed to `m.with(..)`
(which child of the vector that is: `childValues`, C05/C19 `child_independent_of_map_order`).
Amounts are natural numbers (as in `Model/Local.lean`).
-/
namespace Prom.SM
open Prom

/-- a child of the backing vector, named by the label map the `from` chain hands to `m.with(..)` -/
abbrev Child := List (Str × Str)

/-- one leaf of the generated tree: the field path that reaches it, the child its local metric was
    created from, and the local metric's pending (not yet flushed) amount -/
structure Leaf where
  path : List Str
  child : Child
  pending : Nat
deriving Repr, DecidableEq

/-- what the `from` chain builds (`prev` = values of the enclosing levels): for every field of the
    level, the sub-struct built with that field's VALUE appended; the leaves in depth-first order.
    Mirrors `resolve`, but enumerates all fields instead of following one path. -/
def buildLeaves : Decl → Child → List Leaf
  | [], prev => [⟨[], prev, 0⟩]
  | l :: ls, prev =>
    l.values.flatMap fun fv =>
      (buildLeaves ls (prev ++ [(l.key, fv.2)])).map fun lf => { lf with path := fv.1 :: lf.path }

/-- all field paths of a declaration, in the order `flush()` reaches their leaves -/
def allPaths : Decl → List (List Str)
  | [] => [[]]
  | l :: ls => l.values.flatMap fun fv => (allPaths ls).map (fv.1 :: ·)

/-- the shared vector (value of every child) and the generated local struct tree -/
structure LocalTree where
  store : Child → Nat
  leaves : List Leaf

/-- `child.inc_by(n)` on the shared vector -/
def addTo (st : Child → Nat) (c : Child) (n : Nat) : Child → Nat :=
  fun k => if c = k then st k + n else st k

/-- field access `tree.f1.f2.….fn` followed by `inc_by(n)`: the leaf with that path (field access by
    name: the first one, should a level repeat a field name — Rust rejects such a struct) gets `n`
    more pending; nothing reaches the shared vector.  An undeclared path does not exist: no-op. -/
def bump : List Leaf → List Str → Nat → List Leaf
  | [], _, _ => []
  | lf :: r, p, n =>
    if lf.path = p then { lf with pending := lf.pending + n } :: r else lf :: bump r p n

/-- the child the leaf reached by a field path was created from -/
def denotes : List Leaf → List Str → Option Child
  | [], _ => none
  | lf :: r, p => if lf.path = p then some lf.child else denotes r p

/-- the local metrics' flushes, in visiting order: each adds its pending amount to its child
    (`LocalCounter::flush`; its early return on a zero amount changes nothing) -/
def flushStore (st : Child → Nat) (leaves : List Leaf) : Child → Nat :=
  leaves.foldl (fun st lf => addTo st lf.child lf.pending) st

namespace LocalTree

/-- `Struct::from(&vec)` over a vector whose children currently hold `st` -/
def init (d : Decl) (st : Child → Nat) : LocalTree := ⟨st, buildLeaves d []⟩

def incBy (t : LocalTree) (p : List Str) (n : Nat) : LocalTree := { t with leaves := bump t.leaves p n }

def inc (t : LocalTree) (p : List Str) : LocalTree := t.incBy p 1

/-- the generated `flush()`: every field of every level, i.e. every leaf (aliases included); each
    leaf's pending amount goes to the child it denotes and is zeroed -/
def flush (t : LocalTree) : LocalTree :=
  ⟨flushStore t.store t.leaves, t.leaves.map fun lf => { lf with pending := 0 }⟩

end LocalTree

/-- operations on the generated struct -/
inductive TOp
  | inc (path : List Str) (n : Nat)
  | flush
deriving Repr, DecidableEq

def LocalTree.step (t : LocalTree) : TOp → LocalTree
  | .inc p n => t.incBy p n
  | .flush => t.flush

def LocalTree.run (t : LocalTree) (ops : List TOp) : LocalTree := ops.foldl LocalTree.step t

/-- specification side: what the operations put into child `c` — the amounts of the `inc`s made
    through field paths that `resolve` to `c` -/
def delivered (d : Decl) (c : Child) : List TOp → Nat
  | [] => 0
  | .inc p n :: r => (if resolve d [] p = some c then n else 0) + delivered d c r
  | .flush :: r => delivered d c r

/-! ### a WRONG flush, for the negative lemma: visit only the first field per distinct value -/

/-- the fields of a level with later aliases (fields whose value already occurred) dropped -/
def firstPerValue : List (Str × Str) → List (Str × Str)
  | [] => []
  | fv :: r => fv :: (firstPerValue r).filter (fun x => x.2 != fv.2)

def dropAliases (d : Decl) : Decl := d.map fun l => { l with values := firstPerValue l.values }

/-- a `flush()` generated from the value list with aliases removed: it reaches every CHILD once but
    not every LEAF -/
def LocalTree.flushSkippingAliases (d : Decl) (t : LocalTree) : LocalTree :=
  let visited := allPaths (dropAliases d)
  ⟨flushStore t.store (t.leaves.filter fun lf => decide (lf.path ∈ visited)),
   t.leaves.map fun lf => if lf.path ∈ visited then { lf with pending := 0 } else lf⟩

end Prom.SM
