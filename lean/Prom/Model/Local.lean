import Prom.Model.Histogram
import Prom.Model.Vec
/-
Sequential model of the local (unsync) metrics: `GenericLocalCounter`, `LocalHistogram`
(`LocalHistogramCore`), and the local vectors' caches (src/counter.rs, src/histogram.rs).
Amounts are natural numbers (the correspondence uses integer-valued floats, whose sums are exact).
Ghost fields record what was put in and what was deliberately discarded.
-/
namespace Prom

/-! ### local counters over one shared counter -/

structure CW where
  shared : Nat := 0
  locals : List Nat := []      -- pending amount of every local handle
  totalIn : Nat := 0           -- ghost: everything ever added (directly or locally)
  discarded : Nat := 0         -- ghost: amounts dropped by `reset` (local or shared)
deriving Repr, DecidableEq

inductive COp
  | linc (h d : Nat) | lflush (h : Nat) | lreset (h : Nat) | lclone (h : Nat) | lnew
  | sinc (d : Nat) | sreset
deriving Repr

def setAt (l : List Nat) (i v : Nat) : List Nat := l.set i v

def CW.step (w : CW) : COp → CW
  | .linc h d =>
    match w.locals[h]? with
    | some p => { w with locals := w.locals.set h (p + d), totalIn := w.totalIn + d }
    | none => w
  | .lflush h =>
    match w.locals[h]? with
    | some p => if p == 0 then w else { w with shared := w.shared + p, locals := w.locals.set h 0 }
    | none => w
  | .lreset h =>
    match w.locals[h]? with
    | some p => { w with locals := w.locals.set h 0, discarded := w.discarded + p }
    | none => w
  | .lclone h =>
    match w.locals[h]? with
    | some _ => { w with locals := w.locals ++ [0] }     -- `Clone` = `new(counter.clone())`: empty
    | none => w
  | .lnew => { w with locals := w.locals ++ [0] }
  | .sinc d => { w with shared := w.shared + d, totalIn := w.totalIn + d }
  | .sreset => { w with shared := 0, discarded := w.discarded + w.shared }

/-! ### local histograms over one shared histogram (per-bucket counts, count; sum by `add`) -/

structure LH where
  counts : List Nat
  count : Nat
  sum : UInt64
deriving Repr, DecidableEq

def LH.empty (n : Nat) : LH := ⟨List.replicate n 0, 0, f64Zero⟩

def LH.observe (add : UInt64 → UInt64 → UInt64) (bounds : List UInt64) (l : LH) (v : UInt64) : LH :=
  { counts := match findBucket bounds v with
      | some i => bumpAt l.counts i 1
      | none => l.counts
    count := l.count + 1
    sum := add l.sum v }

def addCounts : List Nat → List Nat → List Nat
  | a :: r, b :: s => (a + b) :: addCounts r s
  | l, [] => l
  | [], _ => []

/-- `LocalHistogramCore::flush` into the shared histogram -/
def Hist.absorb (add : UInt64 → UInt64 → UInt64) (h : Hist) (l : LH) : Hist :=
  if l.count == 0 then h else
  { h with counts := addCounts h.counts l.counts, count := h.count + l.count, sum := add h.sum l.sum }

structure HW where
  shared : Hist
  locals : List (Option LH)     -- `none` = dropped
  totalObs : Nat := 0           -- ghost
  discardedObs : Nat := 0       -- ghost: observations thrown away by `clear`
deriving Repr

inductive HOp
  | lobs (h : Nat) (v : UInt64) | lflush (h : Nat) | lclear (h : Nat) | lclone (h : Nat) | ldrop (h : Nat) | lnew
  | sobs (v : UInt64)
deriving Repr

def HW.step (add : UInt64 → UInt64 → UInt64) (w : HW) : HOp → HW
  | .lobs h v =>
    match w.locals[h]? with
    | some (some l) => { w with locals := w.locals.set h (some (l.observe add w.shared.bounds v)), totalObs := w.totalObs + 1 }
    | _ => w
  | .lflush h =>
    match w.locals[h]? with
    | some (some l) => { w with shared := w.shared.absorb add l, locals := w.locals.set h (some (LH.empty w.shared.bounds.length)) }
    | _ => w
  | .lclear h =>
    match w.locals[h]? with
    | some (some l) => { w with locals := w.locals.set h (some (LH.empty w.shared.bounds.length)), discardedObs := w.discardedObs + l.count }
    | _ => w
  | .lclone h =>
    match w.locals[h]? with
    | some (some _) => { w with locals := w.locals ++ [some (LH.empty w.shared.bounds.length)] }
    | some none => { w with locals := w.locals ++ [none] }      -- placeholder: source already dropped
    | none => w
  | .ldrop h =>
    match w.locals[h]? with
    | some (some l) => { w with shared := w.shared.absorb add l, locals := w.locals.set h none }   -- Drop flushes
    | _ => w
  | .lnew => { w with locals := w.locals ++ [some (LH.empty w.shared.bounds.length)] }
  | .sobs v => { w with shared := w.shared.observe add v, totalObs := w.totalObs + 1 }

def optCount : Option LH → Nat
  | some l => l.count
  | none => 0

def pendingCount (ls : List (Option LH)) : Nat := (ls.map optCount).sum

/-! ### local vectors: a cache from child key to (child id, pending amount) over a shared vector -/

structure LVec where
  cache : List (UInt64 × Nat × Nat) := []     -- key ↦ (child id, pending)
deriving Repr

structure VW where
  v : MVec
  locals : List (Option LVec)
  flushOnDrop : Bool            -- histogram flavour: a dropped local flushes
deriving Repr

def cacheFind (c : List (UInt64 × Nat × Nat)) (k : UInt64) : Option (Nat × Nat) := (c.find? (·.1 == k)).map (·.2)

/-- `with_label_values(vals)` followed by an update of `d` (panics on wrong cardinality: `none`) -/
def VW.lwith (w : VW) (h : Nat) (vals : List Str) (d : Nat) : Option VW :=
  match w.locals[h]? with
  | some (some lv) =>
    match hashLabelValues w.v vals with
    | .error _ => none
    | .ok k =>
      match cacheFind lv.cache k with
      | some (id, p) => some { w with locals := w.locals.set h (some ⟨lv.cache.map fun e => if e.1 == k then (k, id, p + d) else e⟩) }
      | none =>
        match getOrCreate w.v k vals with
        | (v', .ok id) => some { w with v := v', locals := w.locals.set h (some ⟨lv.cache ++ [(k, id, d)]⟩) }
        | (_, .error _) => none
  | _ => some w

def flushCache (v : MVec) (c : List (UInt64 × Nat × Nat)) : MVec :=
  c.foldl (fun v e => v.bump e.2.1 e.2.2) v

def VW.lflush (w : VW) (h : Nat) : VW :=
  match w.locals[h]? with
  | some (some lv) => { w with v := flushCache w.v lv.cache,
                               locals := w.locals.set h (some ⟨lv.cache.map fun e => (e.1, e.2.1, 0)⟩) }
  | _ => w

/-- `remove_label_values`: drop the cached local (histogram flavour flushes it first, on drop),
    then delete from the shared vector -/
def VW.lremove (w : VW) (h : Nat) (vals : List Str) : VW × Except VErr Unit :=
  match w.locals[h]? with
  | some (some lv) =>
    match hashLabelValues w.v vals with
    | .error e => (w, .error e)
    | .ok k =>
      let v1 := match cacheFind lv.cache k with
        | some (id, p) => if w.flushOnDrop then w.v.bump id p else w.v
        | none => w.v
      let (v2, r) := removeKey v1 k
      ({ w with v := v2, locals := w.locals.set h (some ⟨lv.cache.filter (·.1 != k)⟩) }, r)
  | _ => (w, .error .msg)

def VW.lclone (w : VW) (h : Nat) : VW :=
  match w.locals[h]? with
  | some (some _) => { w with locals := w.locals ++ [some {}] }
  | some none => { w with locals := w.locals ++ [none] }
  | none => w

def VW.ldrop (w : VW) (h : Nat) : VW :=
  match w.locals[h]? with
  | some (some lv) => { w with v := if w.flushOnDrop then flushCache w.v lv.cache else w.v, locals := w.locals.set h none }
  | _ => w

end Prom
