import Prom.Base.Fnv
/-
Model of src/desc.rs (`is_valid_*`, `Desc::new`), `build_fq_name` (src/metrics.rs) and
`make_label_pairs` (src/value.rs). Strings are UTF-8 byte lists.
-/
namespace Prom

def isAsciiAlpha (b : UInt8) : Bool := (65 ≤ b && b ≤ 90) || (97 ≤ b && b ≤ 122)
def isAsciiDigit (b : UInt8) : Bool := 48 ≤ b && b ≤ 57
/-- `[a-zA-Z_]` -/
def labelStart (b : UInt8) : Bool := isAsciiAlpha b || b == 95
/-- `[a-zA-Z_:]` -/
def metricStart (b : UInt8) : Bool := labelStart b || b == 58

/-- `is_valid_ident` -/
def isValidIdent (start : UInt8 → Bool) : Str → Bool
  | [] => false
  | c :: r => start c && r.all (fun c => start c || isAsciiDigit c)

def isValidMetricName : Str → Bool := isValidIdent metricStart
def isValidLabelName : Str → Bool := isValidIdent labelStart

def us : UInt8 := 95  -- '_'

/-- `build_fq_name` -/
def buildFqName (ns sub name : Str) : Str :=
  if name.isEmpty then []
  else if !ns.isEmpty && !sub.isEmpty then ns ++ [us] ++ sub ++ [us] ++ name
  else if !ns.isEmpty then ns ++ [us] ++ name
  else if !sub.isEmpty then sub ++ [us] ++ name
  else name

structure LabelPair where
  name : Str
  value : Str
deriving Repr, BEq, DecidableEq

/-- `Ord for LabelPair`: by name only -/
def lpLe (a b : LabelPair) : Bool := strLe a.name b.name

structure Desc where
  fqName : Str
  help : Str
  constPairs : List LabelPair      -- sorted by name
  varLabels : List Str
  id : UInt64
  dimHash : UInt64
deriving Repr, BEq, DecidableEq

def sep : UInt8 := 0xFF
def dollar : UInt8 := 36  -- '$'

/-- insert into a `BTreeSet<String>`: `none` when already present -/
def setInsert (s : List Str) (x : Str) : Option (List Str) :=
  if s.contains x then none else some (insertBy strLe x s)

/-- first loop of `Desc::new`: validate const label names (in map iteration order) and
    collect them in a sorted set -/
def constNames : List (Str × Str) → List Str → Option (List Str)
  | [], acc => some acc
  | (k, _) :: r, acc =>
    if !isValidLabelName k then none else
    match setInsert acc k with
    | none => none
    | some acc' => constNames r acc'

/-- third loop: variable labels, stored `$`-prefixed in the same set -/
def varNames : List Str → List Str → Option (List Str)
  | [], acc => some acc
  | n :: r, acc =>
    if !isValidLabelName n then none else
    if acc.contains n then none else          -- repeats a const label (unprefixed entry)
    match setInsert acc (dollar :: n) with
    | none => none
    | some acc' => varNames r acc'

def lookup (m : List (Str × Str)) (k : Str) : Str :=
  match m.find? (·.1 == k) with
  | some p => p.2
  | none => []

/-- bytes fed to the id hasher -/
def idBytes (fq : Str) (valuesInNameOrder : List Str) : List UInt8 := sepEnc sep (fq :: valuesInNameOrder)
/-- bytes fed to the dimension hasher -/
def dimBytes (help : Str) (sortedNames : List Str) : List UInt8 := sepEnc sep (help :: sortedNames)

/-- `Desc::new`; `none` = `Err(Msg)`. `constLabels` is the map in *some* iteration order. -/
def Desc.new (fq help : Str) (varLabels : List Str) (constLabels : List (Str × Str)) : Option Desc :=
  if help.isEmpty then none else
  if !isValidMetricName fq then none else
  match constNames constLabels [] with
  | none => none
  | some cn =>
    match varNames varLabels cn with
    | none => none
    | some names =>
      some { fqName := fq, help := help,
             constPairs := stableSortBy lpLe (constLabels.map fun p => ⟨p.1, p.2⟩),
             varLabels := varLabels,
             id := fnv1a (idBytes fq (cn.map (lookup constLabels))),
             dimHash := fnv1a (dimBytes help names) }

/-- `Opts::describe` -/
def describe (ns sub name help : Str) (varLabels : List Str) (constLabels : List (Str × Str)) : Option Desc :=
  Desc.new (buildFqName ns sub name) help varLabels constLabels

inductive MkErr | card (expect got : Nat)
deriving Repr, BEq

/-- `make_label_pairs` -/
def makeLabelPairs (d : Desc) (vals : List Str) : Except MkErr (List LabelPair) :=
  if d.varLabels.length != vals.length then .error (.card d.varLabels.length vals.length)
  else if d.varLabels.length + d.constPairs.length == 0 then .ok []
  else if d.varLabels.isEmpty then .ok d.constPairs
  else .ok (stableSortBy lpLe ((d.varLabels.zip vals).map (fun p => ⟨p.1, p.2⟩) ++ d.constPairs))

end Prom
