import Prom.Base.Bytes
/-
Model of the code `make_static_metric!` / `make_auto_flush_static_metric!` generate
(static-metric/src/builder.rs, auto_flush_builder.rs): one struct per label level whose fields are
the declared values; `from(label_0, …, m)` passes the values of the enclosing levels down and the
last level asks the vector for the child `{key_i ↦ value_i}` (`m.with(map)`); `try_get(str)` is a
`match` over the declared value strings (first arm wins); `get(enum)` maps a variant to its field.
Auto-flush delegators address the leaf inside the inline thread-local struct by a sum of field offsets.
-/
namespace Prom.SM
open Prom

structure LabelDef where
  key : Str
  values : List (Str × Str)       -- (field name, label value); `field: "value"` renames, else value = field
deriving Repr

abbrev Decl := List LabelDef

/-- the label map of the child a field path addresses: what the generated `from` chain passes to
    `m.with(..)` (`prev` = values of the enclosing levels) -/
def resolve : Decl → List (Str × Str) → List Str → Option (List (Str × Str))
  | [], prev, [] => some prev
  | l :: ls, prev, f :: fs =>
    match l.values.find? (·.1 == f) with
    | some (_, v) => resolve ls (prev ++ [(l.key, v)]) fs
    | none => none
  | _, _, _ => none

/-- `try_get(value)` at one level: the first declared value equal to the string (as `match` arms) -/
def tryGetField (l : LabelDef) (s : Str) : Option Str := (l.values.find? (·.2 == s)).map (·.1)

/-- a chain of `try_get` calls -/
def tryGetPath : Decl → List Str → Option (List Str)
  | [], [] => some []
  | l :: ls, s :: ss => match tryGetField l s with
    | some f => (tryGetPath ls ss).map (f :: ·)
    | none => none
  | _, _ => none

/-- `get(enum)`: the variant named like the field -/
def getField (l : LabelDef) (variant : Str) : Option Str := (l.values.find? (·.1 == variant)).map (·.1)

/-- which child of the backing vector a label map denotes: the vector walks ITS declared names, so the
    order of the names in the vector does not matter (C05 `map_form_order_free`) -/
def childValues (backing : List Str) (m : List (Str × Str)) : Option (List Str) :=
  backing.mapM fun n => (m.find? (·.1 == n)).map (·.2)

/-! ### inline layout of the thread-local inner struct (auto-flush delegators) -/

/-- address of the leaf reached from `base` through nested inline structs, given each level's field offset -/
def leafAddress (base : Nat) : List Nat → Nat
  | [] => base
  | o :: r => leafAddress (base + o) r

/-- what a delegator computes: the root address plus the sum of the recorded offsets -/
def delegatorAddress (base : Nat) (offsets : List Nat) : Nat := base + offsets.sum

end Prom.SM
