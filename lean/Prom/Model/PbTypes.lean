/- Types of the regenerated protobuf tables (`Gen/PbTables.lean`). -/
namespace Prom.Pb

inductive FKind
  | str | double | uint64 | int64 | enum (name : String := "") | msg (name : String) | unknown (text : String)
deriving Repr, BEq, DecidableEq

inductive SizeRule | tagLenBytes | tagFixed64 | tagVarint | unknownSize
deriving Repr, BEq, DecidableEq

/-- a field as the generated Rust code writes it -/
structure WField where
  name : String
  num : Nat
  kind : FKind
  repeated : Bool
  size : SizeRule
deriving Repr, BEq, DecidableEq

/-- a field as the .proto file declares it -/
structure SField where
  name : String
  num : Nat
  kind : FKind
  repeated : Bool
deriving Repr, BEq, DecidableEq

end Prom.Pb
