/-
Model of `HistogramTimer` / `LocalHistogramTimer` / `observe_closure_duration` (src/histogram.rs).
The clock is an input of the environment (`elapsed()` is a saturating, hence non-negative,
duration); only *how many* observations reach the histogram is modelled.
A local timer owns a private cleared clone of its local histogram; that clone is flushed into the
shared histogram when the timer is dropped.
-/
namespace Prom

inductive TKind | shared | local
deriving Repr, DecidableEq

structure Timer where
  kind : TKind
  observed : Bool := false
  buf : Nat := 0           -- observations buffered in the timer's private local clone
  alive : Bool := true
deriving Repr, DecidableEq

structure TW where
  shared : Nat := 0        -- sample count of the shared histogram
  parent : Nat := 0        -- pending count of the parent local histogram (never touched by timers)
  timers : List Timer := []
  ended : Nat := 0         -- ghost: timers ended by record / observe / plain drop
  closures : Nat := 0      -- ghost
  direct : Nat := 0        -- ghost: plain observations on the parent local histogram
deriving Repr, DecidableEq

inductive TOp
  | start (k : TKind) | record (i : Nat) | discard (i : Nat) | drop (i : Nat) | closure
  | pobs | pflush           -- plain observe on / flush of the parent local histogram
deriving Repr

/-- `timer.observe(record)` -/
def Timer.observe (t : Timer) (record : Bool) : Timer × Nat :=
  let t' := { t with observed := true }
  if record then
    match t.kind with
    | .shared => (t', 1)
    | .local => ({ t' with buf := t'.buf + 1 }, 0)
  else (t', 0)

/-- `Drop`: observe(true) unless already observed; a local timer's clone is then dropped, which flushes it -/
def Timer.dropIt (t : Timer) : Timer × Nat :=
  let (t1, d1) := if t.observed then (t, 0) else t.observe true
  ({ t1 with buf := 0, alive := false }, d1 + t1.buf)

def TW.withTimer (w : TW) (i : Nat) (f : Timer → Timer × Nat) (ends : Bool) : TW :=
  match w.timers[i]? with
  | some t =>
    if t.alive then
      let (t', d) := f t
      { w with timers := w.timers.set i t', shared := w.shared + d, ended := w.ended + (if ends then 1 else 0) }
    else w
  | none => w

def TW.step (w : TW) : TOp → TW
  | .start k => { w with timers := w.timers ++ [{ kind := k }] }
  | .record i => w.withTimer i (fun t => let (t1, d1) := t.observe true; let (t2, d2) := t1.dropIt; (t2, d1 + d2)) true
  | .discard i => w.withTimer i (fun t => let (t1, d1) := t.observe false; let (t2, d2) := t1.dropIt; (t2, d1 + d2)) false
  | .drop i => w.withTimer i Timer.dropIt true
  | .closure => { w with shared := w.shared + 1, closures := w.closures + 1 }
  | .pobs => { w with parent := w.parent + 1, direct := w.direct + 1 }
  | .pflush => { w with shared := w.shared + w.parent, parent := 0 }

end Prom
