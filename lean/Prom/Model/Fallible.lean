import Prom.Model.Desc
import Prom.Model.Histogram
import Prom.Model.Family
/-
Panic-explicit models of the fallible API paths (C17). Every partial operation the Rust code
performs on these paths (`unwrap`, indexing, `len() - 1`, slicing a `str` at a byte index,
`unimplemented!`) is written with its failure branch as the third outcome `panic`.
-/
namespace Prom

inductive Outcome (α : Type) | ok (a : α) | err | panic
deriving Repr, DecidableEq

namespace Outcome
def bind {α β} (x : Outcome α) (f : α → Outcome β) : Outcome β :=
  match x with | .ok a => f a | .err => .err | .panic => .panic
def ofOption {α} : Option α → Outcome α | some a => .ok a | none => .err
/-- `Option::unwrap` -/
def unwrap {α} : Option α → Outcome α | some a => .ok a | none => .panic
def isPanic {α} : Outcome α → Bool | .panic => true | _ => false
end Outcome

/-- `v[i]` -/
def idxP {α} (l : List α) (i : Nat) : Outcome α := Outcome.unwrap l[i]?
/-- `a - b` on `usize` (overflow check) -/
def subP (a b : Nat) : Outcome Nat := if b ≤ a then .ok (a - b) else .panic

/-! ### `check_and_adjust_buckets` with its partial operations -/

/-- the loop `for (i, ub) in buckets.iter().enumerate()`: NaN check, then
    `i < len - 1 && ub >= buckets[i + 1]` -/
def bucketLoopP (bs : List UInt64) (lenM1 : Nat) : List UInt64 → Nat → Outcome Unit
  | [], _ => .ok ()
  | ub :: rest, i =>
    if f64IsNaN ub then .err
    else if i < lenM1 then
      (idxP bs (i + 1)).bind fun nxt => if f64Ge ub nxt then .err else bucketLoopP bs lenM1 rest (i + 1)
    else bucketLoopP bs lenM1 rest (i + 1)

def checkAndAdjustP (defaults bs : List UInt64) : Outcome (List UInt64) :=
  let bs := if bs.isEmpty then defaults else bs
  (subP bs.length 1).bind fun lenM1 =>
  (bucketLoopP bs lenM1 bs 0).bind fun _ =>
  (Outcome.unwrap bs.getLast?).bind fun tail =>
  .ok (if f64IsPosInf tail then bs.dropLast else bs)

/-! ### `linear_buckets` / `exponential_buckets` with their partial operations

After the argument checks both functions only allocate a `Vec<f64>` of `count` elements
(`(0..count).map(..).collect()` over a `TrustedLen` iterator, resp. `Vec::with_capacity(count)`) and
fill it: no indexing, no `unwrap`, no integer subtraction; `step as f64` and the float arithmetic are
total. The single partial operation is the allocation request itself: `Vec::with_capacity` panics
with "capacity overflow" when `count * size_of::<f64>()` exceeds `isize::MAX` bytes (an allocation
that fits but cannot be served aborts the process; that is not a panic and not modelled). The
`push`es stay within the reserved capacity and cannot panic. -/

/-- `isize::MAX` on the 64-bit targets the crate is built for -/
def isizeMax : Nat := 2 ^ 63 - 1

/-- `Vec::<T>::with_capacity(n)` with `size_of::<T>() = elemSize`: "capacity overflow" panic -/
def vecWithCapacityP (elemSize n : Nat) : Outcome Unit :=
  if elemSize * n ≤ isizeMax then .ok () else .panic

/-- `linear_buckets`, panic-explicit -/
def linearBucketsP (start width : UInt64) (count : Nat) : Outcome (List UInt64) :=
  if count < 1 then .err
  else if f64Le width f64Zero then .err
  else (vecWithCapacityP 8 count).bind fun _ =>
    .ok ((List.range count).map fun step => f64Add start (f64Mul width (f64OfNat step)))

/-- `exponential_buckets`, panic-explicit -/
def exponentialBucketsP (start factor : UInt64) (count : Nat) : Outcome (List UInt64) :=
  if count < 1 then .err
  else if f64Le start f64Zero then .err
  else if f64Le factor f64One then .err
  else (vecWithCapacityP 8 count).bind fun _ => .ok (expLoop factor count start)

/-! ### `make_label_pairs` -/

def pairLoopP (vals : List Str) : List Str → Nat → Outcome (List LabelPair)
  | [], _ => .ok []
  | n :: rest, i => (idxP vals i).bind fun v => (pairLoopP vals rest (i + 1)).bind fun t => .ok (⟨n, v⟩ :: t)

def makeLabelPairsP (d : Desc) (vals : List Str) : Outcome (List LabelPair) :=
  if d.varLabels.length != vals.length then .err
  else if d.varLabels.length + d.constPairs.length == 0 then .ok []
  else if d.varLabels.isEmpty then .ok d.constPairs
  else (pairLoopP vals d.varLabels 0).bind fun ps => .ok (stableSortBy lpLe (ps ++ d.constPairs))

/-! ### `Desc::new`: the `unwrap` on the const-label lookup -/

def lookupAllP (m : List (Str × Str)) : List Str → Outcome (List Str)
  | [] => .ok []
  | k :: r => (Outcome.unwrap ((m.find? (·.1 == k)).map (·.2))).bind fun v => (lookupAllP m r).bind fun t => .ok (v :: t)

/-! ### `escape_string`: slicing a `str` at the index of the first special byte -/

/-- is byte index `i` a character boundary of the UTF-8 string `cs`? -/
def isCharBoundary (cs : List Char) (i : Nat) : Bool :=
  match cs with
  | [] => i == 0
  | c :: r => i == 0 || (let n := (String.utf8EncodeChar c).length; n ≤ i && isCharBoundary r (i - n))

def isSpecial (quote : Bool) (b : UInt8) : Bool := b == 92 || b == 10 || (quote && b == 34)

/-- `&v[0..first]` / `v[first..]`: panics unless `first` is a char boundary -/
def escapeSliceP (cs : List Char) (quote : Bool) : Outcome Unit :=
  match (cs.flatMap String.utf8EncodeChar).findIdx? (isSpecial quote) with
  | none => .ok ()
  | some first => if isCharBoundary cs first then .ok () else .panic

/-! ### the encoders' outcome (C17 only needs ok / err / panic) -/

inductive EncKind | text | pb
deriving Repr, DecidableEq

/-- `check_metric_family`, then (text) the per-type match. `writerFails` = the `io::Write` errors. -/
def encodeOutcome (k : EncKind) (writerFails : Bool) : List Family → Outcome Unit
  | [] => .ok ()
  | f :: rest =>
    if f.samples.isEmpty then .err
    else if f.name.isEmpty then .err
    else if writerFails then .err
    else if k = .text ∧ f.ty = .untyped then .err      -- was `unimplemented!()` before the F6 repair
    else encodeOutcome k writerFails rest

end Prom
