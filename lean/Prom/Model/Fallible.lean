import Prom.Model.Desc
import Prom.Model.Histogram
import Prom.Model.Family
/-
Panic-explicit models of the fallible API paths (C17). Every partial operation the Rust code
performs on these paths (`unwrap`, indexing, `len() - 1`, slicing a `str` at a byte index,
`unimplemented!`) is written with its failure branch as the third outcome `panic`.
-/
namespace Prom

inductive Outcome (α : Type) | ok (a : α) | err | panic
deriving Repr, DecidableEq

namespace Outcome
def bind {α β} (x : Outcome α) (f : α → Outcome β) : Outcome β :=
  match x with | .ok a => f a | .err => .err | .panic => .panic
def ofOption {α} : Option α → Outcome α | some a => .ok a | none => .err
/-- `Option::unwrap` -/
def unwrap {α} : Option α → Outcome α | some a => .ok a | none => .panic
def isPanic {α} : Outcome α → Bool | .panic => true | _ => false
end Outcome

/-- `v[i]` -/
def idxP {α} (l : List α) (i : Nat) : Outcome α := Outcome.unwrap l[i]?
/-- `a - b` on `usize` (overflow check) -/
def subP (a b : Nat) : Outcome Nat := if b ≤ a then .ok (a - b) else .panic

/-! ### `check_and_adjust_buckets` with its partial operations -/

/-- the loop `for (i, ub) in buckets.iter().enumerate()`: NaN check, then
    `i < len - 1 && ub >= buckets[i + 1]` -/
def bucketLoopP (bs : List UInt64) (lenM1 : Nat) : List UInt64 → Nat → Outcome Unit
  | [], _ => .ok ()
  | ub :: rest, i =>
    if f64IsNaN ub then .err
    else if i < lenM1 then
      (idxP bs (i + 1)).bind fun nxt => if f64Ge ub nxt then .err else bucketLoopP bs lenM1 rest (i + 1)
    else bucketLoopP bs lenM1 rest (i + 1)

def checkAndAdjustP (defaults bs : List UInt64) : Outcome (List UInt64) :=
  let bs := if bs.isEmpty then defaults else bs
  (subP bs.length 1).bind fun lenM1 =>
  (bucketLoopP bs lenM1 bs 0).bind fun _ =>
  (Outcome.unwrap bs.getLast?).bind fun tail =>
  .ok (if f64IsPosInf tail then bs.dropLast else bs)

/-! ### `make_label_pairs` -/

def pairLoopP (vals : List Str) : List Str → Nat → Outcome (List LabelPair)
  | [], _ => .ok []
  | n :: rest, i => (idxP vals i).bind fun v => (pairLoopP vals rest (i + 1)).bind fun t => .ok (⟨n, v⟩ :: t)

def makeLabelPairsP (d : Desc) (vals : List Str) : Outcome (List LabelPair) :=
  if d.varLabels.length != vals.length then .err
  else if d.varLabels.length + d.constPairs.length == 0 then .ok []
  else if d.varLabels.isEmpty then .ok d.constPairs
  else (pairLoopP vals d.varLabels 0).bind fun ps => .ok (stableSortBy lpLe (ps ++ d.constPairs))

/-! ### `Desc::new`: the `unwrap` on the const-label lookup -/

def lookupAllP (m : List (Str × Str)) : List Str → Outcome (List Str)
  | [] => .ok []
  | k :: r => (Outcome.unwrap ((m.find? (·.1 == k)).map (·.2))).bind fun v => (lookupAllP m r).bind fun t => .ok (v :: t)

/-! ### `escape_string`: slicing a `str` at the index of the first special byte -/

/-- is byte index `i` a character boundary of the UTF-8 string `cs`? -/
def isCharBoundary (cs : List Char) (i : Nat) : Bool :=
  match cs with
  | [] => i == 0
  | c :: r => i == 0 || (let n := (String.utf8EncodeChar c).length; n ≤ i && isCharBoundary r (i - n))

def isSpecial (quote : Bool) (b : UInt8) : Bool := b == 92 || b == 10 || (quote && b == 34)

/-- `&v[0..first]` / `v[first..]`: panics unless `first` is a char boundary -/
def escapeSliceP (cs : List Char) (quote : Bool) : Outcome Unit :=
  match (cs.flatMap String.utf8EncodeChar).findIdx? (isSpecial quote) with
  | none => .ok ()
  | some first => if isCharBoundary cs first then .ok () else .panic

/-! ### the encoders' outcome (C17 only needs ok / err / panic) -/

inductive EncKind | text | pb
deriving Repr, DecidableEq

/-- `check_metric_family`, then (text) the per-type match. `writerFails` = the `io::Write` errors. -/
def encodeOutcome (k : EncKind) (writerFails : Bool) : List Family → Outcome Unit
  | [] => .ok ()
  | f :: rest =>
    if f.samples.isEmpty then .err
    else if f.name.isEmpty then .err
    else if writerFails then .err
    else if k = .text ∧ f.ty = .untyped then .err      -- was `unimplemented!()` before the F6 repair
    else encodeOutcome k writerFails rest

end Prom
