import Prom.Model.MacroTypes
/-
`macro_rules!` expansion over the regenerated arm table: arm selection by arity / marker tokens
(first matching arm, as rustc does for these fragment kinds), substitution of the bound fragments,
recursive expansion of nested invocations — down to an explicit API call in the same little
language. All functions take a fuel so that they are total and kernel-evaluable.
-/
namespace Prom.Macros

/-- does an argument fit a pattern fragment? (`expr` fits anything that is not a marker token) -/
def fits : PKind × String → MExpr → Bool
  | (.lit, t), .lit t' => t == t'
  | (.lit, _), _ => false
  | (.ident, _), .ident _ => true
  | (.ident, _), _ => false
  | (.expr, _), .lit _ => false
  | (.expr, _), _ => true

/-- bind the fixed parameters; returns the bindings and the remaining arguments -/
def bindParams : List (PKind × String) → List MExpr → Option (List (String × MExpr) × List MExpr)
  | [], rest => some ([], rest)
  | _ :: _, [] => none
  | p :: ps, a :: as => if fits p a then (bindParams ps as).map fun (b, r) => ((p.2, a) :: b, r) else none

structure Binding where
  vars : List (String × MExpr)
  repName : String := ""
  repArgs : List MExpr := []

def matchArm (a : Arm) (args : List MExpr) : Option Binding :=
  match bindParams a.params args with
  | none => none
  | some (b, rest) =>
    match a.rep with
    | .none => if rest.isEmpty then some { vars := b } else none
    | .tail n => if rest.all (fun x => match x with | .lit _ => false | _ => true) then some { vars := b, repName := n, repArgs := rest } else none
    | .pairs _ _ => none       -- `labels!` is not invoked from other macros

def lookupVar (b : Binding) (n : String) : MExpr := ((b.vars.find? (·.1 == n)).map (·.2)).getD (.var n)

def subst (b : Binding) : Nat → MExpr → MExpr
  | 0, e => e
  | _ + 1, .var n => lookupVar b n
  | f + 1, .call n args => .call n (args.map fun e => subst b f e)
  | f + 1, .newHistOpts x y => .newHistOpts (subst b f x) (subst b f y)
  | f + 1, .setBuckets x y => .setBuckets (subst b f x) (subst b f y)
  | f + 1, .setConstLabels x y => .setConstLabels (subst b f x) (subst b f y)
  | f + 1, .construct t args => .construct (subst b f t) (args.map fun e => subst b f e)
  | f + 1, .registerDefault m => .registerDefault (subst b f m)
  | f + 1, .registerIn r m => .registerIn (subst b f r) (subst b f m)
  | f + 1, .optsExtendAll x y rep => if rep == b.repName then .optsWith (subst b f x) (subst b f y) b.repArgs else .optsExtendAll (subst b f x) (subst b f y) rep
  | f + 1, .optsWith x y ms => .optsWith (subst b f x) (subst b f y) (ms.map fun e => subst b f e)
  | _ + 1, e => e

def findArm (arms : List Arm) (args : List MExpr) : Option (Arm × Binding) :=
  arms.findSome? fun a => (matchArm a args).map fun b => (a, b)

/-- full expansion of every nested invocation -/
def expand (tbl : List MacroDef) : Nat → MExpr → MExpr
  | 0, e => e
  | f + 1, .call n args =>
    let args' := args.map fun e => expand tbl f e
    match tbl.find? (·.name == n) with
    | none => .unknown ("no macro " ++ n)
    | some d => match findArm d.arms args' with
      | none => .unknown ("no arm of " ++ n ++ " matches")
      | some (a, b) => expand tbl f (subst b 16 a.body)
  | f + 1, .newHistOpts x y => .newHistOpts (expand tbl f x) (expand tbl f y)
  | f + 1, .setBuckets x y => .setBuckets (expand tbl f x) (expand tbl f y)
  | f + 1, .setConstLabels x y => .setConstLabels (expand tbl f x) (expand tbl f y)
  | f + 1, .construct t args => .construct (expand tbl f t) (args.map fun e => expand tbl f e)
  | f + 1, .registerDefault m => .registerDefault (expand tbl f m)
  | f + 1, .registerIn r m => .registerIn (expand tbl f r) (expand tbl f m)
  | f + 1, .optsWith x y ms => .optsWith (expand tbl f x) (expand tbl f y) (ms.map fun e => expand tbl f e)
  | _ + 1, e => e

/-! ### the specification: the explicit call each public form stands for -/

def argName : Nat → String
  | 0 => "a0" | 1 => "a1" | 2 => "a2" | 3 => "a3" | 4 => "a4" | 5 => "a5" | 6 => "a6" | _ => "a7"
def v (i : Nat) : MExpr := .var (argName i)

/-- structural equality (fuel-bounded so that the kernel can evaluate it) -/
def meq : Nat → MExpr → MExpr → Bool
  | 0, _, _ => false
  | _ + 1, .var a, .var b => a == b
  | _ + 1, .ident a, .ident b => a == b
  | _ + 1, .lit a, .lit b => a == b
  | f + 1, .call a xs, .call b ys => a == b && xs.length == ys.length && (xs.zip ys).all fun p => meq f p.1 p.2
  | f + 1, .newHistOpts a b, .newHistOpts c d => meq f a c && meq f b d
  | f + 1, .setBuckets a b, .setBuckets c d => meq f a c && meq f b d
  | f + 1, .setConstLabels a b, .setConstLabels c d => meq f a c && meq f b d
  | f + 1, .construct a xs, .construct b ys => meq f a b && xs.length == ys.length && (xs.zip ys).all fun p => meq f p.1 p.2
  | f + 1, .registerDefault a, .registerDefault b => meq f a b
  | f + 1, .registerIn a b, .registerIn c d => meq f a c && meq f b d
  | f + 1, .optsExtendAll a b r, .optsExtendAll c d r' => meq f a c && meq f b d && r == r'
  | f + 1, .optsWith a b xs, .optsWith c d ys => meq f a c && meq f b d && xs.length == ys.length && (xs.zip ys).all fun p => meq f p.1 p.2
  | _ + 1, .labelsInsertAll a b, .labelsInsertAll c d => a == c && b == d
  | _ + 1, _, _ => false

def ty (s : String) : MExpr := .ident s
def plainOpts (n h : MExpr) : MExpr := .optsWith n h []

/-- `(macro, number of arguments)` ↦ the explicit constructor call, registered in the named or the
    default registry, evaluating to the registered handle (`Err` iff registration is refused) -/
def spec (name : String) (arity : Nat) : Option MExpr :=
  let scalar (t : String) (withReg : Bool) : Option MExpr :=
    if !withReg then
      if arity == 1 then some (.registerDefault (.construct (ty t) [v 0]))
      else if arity == 2 then some (.registerDefault (.construct (ty t) [plainOpts (v 0) (v 1)])) else none
    else
      if arity == 2 then some (.registerIn (v 1) (.construct (ty t) [v 0]))
      else if arity == 3 then some (.registerIn (v 2) (.construct (ty t) [plainOpts (v 0) (v 1)])) else none
  let vec (t : String) (withReg : Bool) : Option MExpr :=
    if !withReg then
      if arity == 2 then some (.registerDefault (.construct (ty t) [v 0, v 1]))
      else if arity == 3 then some (.registerDefault (.construct (ty t) [plainOpts (v 0) (v 1), v 2])) else none
    else
      if arity == 3 then some (.registerIn (v 2) (.construct (ty t) [v 0, v 1]))
      else if arity == 4 then some (.registerIn (v 3) (.construct (ty t) [plainOpts (v 0) (v 1), v 2])) else none
  match name with
  | "register_counter" => scalar "Counter" false
  | "register_counter_with_registry" => scalar "Counter" true
  | "register_int_counter" => scalar "IntCounter" false
  | "register_int_counter_with_registry" => scalar "IntCounter" true
  | "register_gauge" => scalar "Gauge" false
  | "register_gauge_with_registry" => scalar "Gauge" true
  | "register_int_gauge" => scalar "IntGauge" false
  | "register_int_gauge_with_registry" => scalar "IntGauge" true
  | "register_counter_vec" => vec "CounterVec" false
  | "register_counter_vec_with_registry" => vec "CounterVec" true
  | "register_int_counter_vec" => vec "IntCounterVec" false
  | "register_int_counter_vec_with_registry" => vec "IntCounterVec" true
  | "register_gauge_vec" => vec "GaugeVec" false
  | "register_gauge_vec_with_registry" => vec "GaugeVec" true
  | "register_int_gauge_vec" => vec "IntGaugeVec" false
  | "register_int_gauge_vec_with_registry" => vec "IntGaugeVec" true
  | "histogram_opts" =>
    if arity == 2 then some (.newHistOpts (v 0) (v 1))
    else if arity == 3 then some (.setBuckets (.newHistOpts (v 0) (v 1)) (v 2))
    else if arity == 4 then some (.setConstLabels (.setBuckets (.newHistOpts (v 0) (v 1)) (v 2)) (v 3)) else none
  | "register_histogram" =>
    if arity == 1 then some (.registerDefault (.construct (ty "Histogram") [v 0]))
    else if arity == 2 then some (.registerDefault (.construct (ty "Histogram") [.newHistOpts (v 0) (v 1)]))
    else if arity == 3 then some (.registerDefault (.construct (ty "Histogram") [.setBuckets (.newHistOpts (v 0) (v 1)) (v 2)])) else none
  | "register_histogram_with_registry" =>
    if arity == 2 then some (.registerIn (v 1) (.construct (ty "Histogram") [v 0]))
    else if arity == 3 then some (.registerIn (v 2) (.construct (ty "Histogram") [.newHistOpts (v 0) (v 1)]))
    else if arity == 4 then some (.registerIn (v 3) (.construct (ty "Histogram") [.setBuckets (.newHistOpts (v 0) (v 1)) (v 2)])) else none
  | "register_histogram_vec" =>
    if arity == 2 then some (.registerDefault (.construct (ty "HistogramVec") [v 0, v 1]))
    else if arity == 3 then some (.registerDefault (.construct (ty "HistogramVec") [.newHistOpts (v 0) (v 1), v 2]))
    else if arity == 4 then some (.registerDefault (.construct (ty "HistogramVec") [.setBuckets (.newHistOpts (v 0) (v 1)) (v 3), v 2])) else none
  | "register_histogram_vec_with_registry" =>
    if arity == 3 then some (.registerIn (v 2) (.construct (ty "HistogramVec") [v 0, v 1]))
    else if arity == 4 then some (.registerIn (v 3) (.construct (ty "HistogramVec") [.newHistOpts (v 0) (v 1), v 2]))
    else if arity == 5 then some (.registerIn (v 4) (.construct (ty "HistogramVec") [.setBuckets (.newHistOpts (v 0) (v 1)) (v 3), v 2])) else none
  | "opts" =>
    if arity ≥ 2 then some (.optsWith (v 0) (v 1) ((List.range (arity - 2)).map fun i => v (i + 2))) else none
  | _ => none

/-- the arities at which a public macro is documented to be callable (for `opts!`: 2, 3 and 4 are checked) -/
def publicArities (a : Arm) : List Nat :=
  match a.rep with
  | .none => [a.params.length]
  | .tail _ => [a.params.length, a.params.length + 1, a.params.length + 2]
  | .pairs _ _ => []

def isInternalArm (a : Arm) : Bool := a.params.any fun p => p.1 == .lit

/-- one arm is faithful: invoked with `arity` placeholder arguments it expands to the specification -/
def armFaithful (tbl : List MacroDef) (d : MacroDef) (a : Arm) : Bool :=
  (publicArities a).all fun n =>
    match spec d.name n with
    | none => false
    | some s => meq 16 (expand tbl 12 (.call d.name ((List.range n).map v))) s

def allFaithful (tbl : List MacroDef) : Bool :=
  tbl.all fun d => !d.exported || d.name == "labels" ||
    d.arms.all fun a => isInternalArm a || (a.trailingComma && armFaithful tbl d a)

/-- `labels!`: one arm, any number of `key => value` pairs, optional trailing comma, inserting every pair in order -/
def labelsOk (tbl : List MacroDef) : Bool :=
  match tbl.find? (·.name == "labels") with
  | some d => d.exported && (match d.arms with
    | [a] => a.trailingComma && a.params.isEmpty && (match a.rep, a.body with
      | .pairs k v, .labelsInsertAll k' v' => k == k' && v == v'
      | _, _ => false)
    | _ => false)
  | none => false

end Prom.Macros
