import Prom.Model.Family
/-
The two data models behind `prometheus::proto` (C16):
  * `P…`  — the protobuf-generated types (proto/proto_model.rs + src/proto_ext.rs): every scalar field
            is optional, getters return the proto2 default when the field is absent;
  * `Q…`  — src/plain_model.rs (`--no-default-features`): plain fields with `Default` values.
Only the operations the library itself and the text encoder perform are modelled.
-/
namespace Prom.DM
open Prom

/-- proto2 scalar-with-presence -/
abbrev Opt := Option

structure PCounter where value : Opt UInt64 := none
structure PGauge where value : Opt UInt64 := none
structure PBucket where
  cumulativeCount : Opt Nat := none
  upperBound : Opt UInt64 := none
structure PHistogram where
  sampleCount : Opt Nat := none
  sampleSum : Opt UInt64 := none
  bucket : List PBucket := []
structure PLabel where
  name : Opt Str := none
  value : Opt Str := none

structure PMetric where
  label : List PLabel := []
  gauge : Opt PGauge := none            -- MessageField
  counter : Opt PCounter := none
  histogram : Opt PHistogram := none
  timestampMs : Opt Int := none

structure PFamily where
  name : Opt Str := none
  help : Opt Str := none
  type : Opt MType := none
  metric : List PMetric := []

structure QCounter where value : UInt64 := 0
structure QGauge where value : UInt64 := 0
structure QBucket where
  cumulativeCount : Nat := 0
  upperBound : UInt64 := 0
structure QHistogram where
  sampleCount : Nat := 0
  sampleSum : UInt64 := 0
  bucket : List QBucket := []
structure QLabel where
  name : Str := []
  value : Str := []

structure QMetric where
  label : List QLabel := []
  gauge : QGauge := {}
  counter : QCounter := {}
  histogram : QHistogram := {}
  timestampMs : Int := 0

structure QFamily where
  name : Str := []
  help : Str := []
  type : MType := .counter       -- `impl Default for MetricType` = COUNTER
  metric : List QMetric := []

/-! ### abstraction: what a protobuf value reads as -/

def absLabel (l : PLabel) : QLabel := { name := l.name.getD [], value := l.value.getD [] }
def absBucket (b : PBucket) : QBucket := { cumulativeCount := b.cumulativeCount.getD 0, upperBound := b.upperBound.getD 0 }
def absHist (h : Opt PHistogram) : QHistogram :=
  match h with
  | none => {}
  | some h => { sampleCount := h.sampleCount.getD 0, sampleSum := h.sampleSum.getD 0, bucket := h.bucket.map absBucket }
def absMetric (m : PMetric) : QMetric :=
  { label := m.label.map absLabel,
    gauge := { value := (m.gauge.bind (·.value)).getD 0 },
    counter := { value := (m.counter.bind (·.value)).getD 0 },
    histogram := absHist m.histogram,
    timestampMs := m.timestampMs.getD 0 }
def absFamily (f : PFamily) : QFamily :=
  { name := f.name.getD [], help := f.help.getD [], type := f.type.getD .counter, metric := f.metric.map absMetric }

/-! ### the operations, on both models -/

inductive LabelOp | setName (v : Str) | setValue (v : Str)
def PLabel.apply (l : PLabel) : LabelOp → PLabel
  | .setName v => { l with name := some v } | .setValue v => { l with value := some v }
def QLabel.apply (l : QLabel) : LabelOp → QLabel
  | .setName v => { l with name := v } | .setValue v => { l with value := v }

/-- operations on a `Metric` (the library uses exactly these) -/
inductive MetricOp
  | setLabel (ls : List PLabel)
  | takeLabel
  | setCounterValue (v : UInt64)        -- `Counter::default(); set_value(v); set_counter(c)`
  | setGaugeValue (v : UInt64)
  | setHistogram (count : Nat) (sum : UInt64) (buckets : List (Nat × UInt64))   -- set_sample_count / set_sample_sum / set_bucket
  | setTimestamp (t : Int)

def mkPBuckets (bs : List (Nat × UInt64)) : List PBucket := bs.map fun b => { cumulativeCount := some b.1, upperBound := some b.2 }
def mkQBuckets (bs : List (Nat × UInt64)) : List QBucket := bs.map fun b => { cumulativeCount := b.1, upperBound := b.2 }

def PMetric.apply (m : PMetric) : MetricOp → PMetric
  | .setLabel ls => { m with label := ls }
  | .takeLabel => { m with label := [] }
  | .setCounterValue v => { m with counter := some { value := some v } }
  | .setGaugeValue v => { m with gauge := some { value := some v } }
  | .setHistogram c s bs => { m with histogram := some { sampleCount := some c, sampleSum := some s, bucket := mkPBuckets bs } }
  | .setTimestamp t => { m with timestampMs := some t }

def QMetric.apply (m : QMetric) : MetricOp → QMetric
  | .setLabel ls => { m with label := ls.map absLabel }
  | .takeLabel => { m with label := [] }
  | .setCounterValue v => { m with counter := { value := v } }
  | .setGaugeValue v => { m with gauge := { value := v } }
  | .setHistogram c s bs => { m with histogram := { sampleCount := c, sampleSum := s, bucket := mkQBuckets bs } }
  | .setTimestamp t => { m with timestampMs := t }

/-- operations on a `MetricFamily` -/
inductive FamilyOp
  | setName (v : Str) | setHelp (v : Str) | setType (t : MType)
  | setMetric (ms : List (List MetricOp))       -- each metric given by the ops that built it from `default()`
  | pushMetric (ops : List MetricOp)            -- `mut_metric().push(m)`
  | takeMetric                                  -- `take_metric()` leaves the family without metrics

def buildP (ops : List MetricOp) : PMetric := ops.foldl PMetric.apply {}
def buildQ (ops : List MetricOp) : QMetric := ops.foldl QMetric.apply {}

def PFamily.apply (f : PFamily) : FamilyOp → PFamily
  | .setName v => { f with name := some v } | .setHelp v => { f with help := some v } | .setType t => { f with type := some t }
  | .setMetric ms => { f with metric := ms.map buildP }
  | .pushMetric ops => { f with metric := f.metric ++ [buildP ops] }
  | .takeMetric => { f with metric := [] }

def QFamily.apply (f : QFamily) : FamilyOp → QFamily
  | .setName v => { f with name := v } | .setHelp v => { f with help := v } | .setType t => { f with type := t }
  | .setMetric ms => { f with metric := ms.map buildQ }
  | .pushMetric ops => { f with metric := f.metric ++ [buildQ ops] }
  | .takeMetric => { f with metric := [] }

/-- `format!("{:?}", metric_type).to_lowercase()` — the `Debug` spelling of the enum variants is the same
    in both models (COUNTER, GAUGE, SUMMARY, UNTYPED, HISTOGRAM) -/
def typeDebugLower : MType → String
  | .counter => "counter" | .gauge => "gauge" | .summary => "summary" | .untyped => "untyped" | .histogram => "histogram"

end Prom.DM
