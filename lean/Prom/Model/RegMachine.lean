import Prom.Model.Registry
import Prom.Model.Conc
/-
Replay machine for concurrent use of one `Registry` (area `creg`; C06 / C14): `register` and
`unregister` are one critical section under the registry's write lock, `gather` one under the read
lock. An `unregister` may ALSO first look its collector up under the READ lock (`unregFails`): when it
is not registered the call commits there - a refused unregister leaves the registry as it is - and is
complete at the read unlock, no write lock taken; when it is registered nothing is committed, and
after the read unlock the write-locked section follows as without the pre-check (the collector is
looked up AGAIN there: an unregister of another thread in the gap makes it report the error). The
machine touches the registry only through `rEff`, i.e. by performing one operation of the
sequential model `Reg.register` / `Reg.unregister` / `Reg.gather` (Model/Registry.lean) and
recording it in a commit log.
-/
namespace Prom.RM
open Prom Prom.Conc

inductive ROp
  | register (i : Nat) | unregister (i : Nat) | gather
deriving Repr

def showErr : RErr → String
  | .alreadyReg => "err:AlreadyReg"
  | .msg => "err:Msg"

def hexOf (s : Str) : String := String.ofList (s.flatMap fun b => let d := Nat.toDigits 16 b.toNat; if d.length == 1 then '0' :: d else d)

/-- the sequential specification: the registry model; results as the strings the calls are compared by -/
def specApply (colls : List Coll) (r : Reg) : ROp → Reg × String
  | .register i => match colls[i]? with
    | some c => match r.register c with
      | (r', .ok _) => (r', "ok")
      | (r', .error e) => (r', showErr e)
    | none => (r, "no-coll")
  | .unregister i => match colls[i]? with
    | some c => match r.unregister c with
      | (r', .ok _) => (r', "ok")
      | (r', .error e) => (r', showErr e)
    | none => (r, "no-coll")
  | .gather => (r, "+".intercalate (r.gather.map fun f => hexOf f.name ++ ":" ++ toString f.samples.length))

/-- the read-locked pre-check of `unregister i`: would the specification's unregister fail on `r`
    (collector not registered, or no collector `i`)? Nothing is committed by evaluating this. -/
def unregFails (colls : List Coll) (r : Reg) (i : Nat) : Bool :=
  match colls[i]? with
  | some c => match (r.unregister c).2 with
    | .ok _ => false
    | .error _ => true
  | none => true

inductive RPc
  | start (op : String)
  | held (write : Bool) (rv : String)
  | unrRheld (i : Nat) (done : Option String)   -- `unreg:i` pre-check: read lock held; `some rv` = not registered, the unregister is committed with result `rv`
  | unrNeedW (i : Nat)                           -- `unreg:i` pre-check found the collector, read lock released; next: the write lock
deriving Repr

/-- one committed operation: the thread, (ghost) the index of the call of that thread whose step
    performed it, the operation, the result string -/
structure RLin where
  tid : Nat
  idx : Nat
  op : ROp
  res : String

structure St where
  colls : List Coll
  reg : Reg := {}
  ths : List (Th RPc)
  lockW : Option Nat := none
  lockR : List Nat := []
  lin : List RLin := []

def rEff (s : St) (tid idx : Nat) (op : ROp) : St × String :=
  let r := specApply s.colls s.reg op
  ({ s with reg := r.1, lin := s.lin ++ [⟨tid, idx, op, r.2⟩] }, r.2)

def parseOp (op : String) : Option ROp :=
  let n := opName op
  if n == "gather" then some .gather
  else match (opArg op).toNat? with
    | some i => if n == "reg" then some (.register i) else if n == "unreg" then some (.unregister i) else none
    | none => none

def step (s : St) (e : Ev) : Except String St :=
  match s.ths[e.tid]? with
  | none => .error "no such thread"
  | some th =>
    match th.pc with
    | none => .error "event outside a call"
    | some pc =>
      let setTh (s : St) (th : Th RPc) : St := { s with ths := s.ths.set e.tid th }
      match pc with
      | .start op =>
        match parseOp op with
        | none => .error s!"unknown op {op}"
        | some .gather =>
          guard (e.k == "R" && e.loc == "lk") "gather: expected the read lock" <|
          guard s.lockW.isNone "read lock granted while a writer holds the lock" <|
          let (s1, rv) := rEff s e.tid th.idx .gather
          .ok (setTh { s1 with lockR := e.tid :: s1.lockR } { th with pc := some (.held false rv) })
        | some (.unregister i) =>
          if e.k == "R" then
            -- `unregister` may first look the collector up under the READ lock: when the specification's unregister would
            -- fail it takes effect here (a refused unregister changes nothing), the call is complete once the read lock is
            -- released and no write lock is taken; when it would succeed nothing is committed yet
            guard (e.loc == "lk") "unregister: expected the read lock on lk" <|
            guard s.lockW.isNone "read lock granted while a writer holds the lock" <|
            if unregFails s.colls s.reg i then
              let (s1, rv) := rEff s e.tid th.idx (.unregister i)
              .ok (setTh { s1 with lockR := e.tid :: s1.lockR } { th with pc := some (.unrRheld i (some rv)) })
            else
              .ok (setTh { s with lockR := e.tid :: s.lockR } { th with pc := some (.unrRheld i none) })
          else
            guard (e.k == "X" && e.loc == "lk") "register / unregister: expected the write lock" <|
            guard (s.lockW.isNone && s.lockR.isEmpty) "write lock granted while the lock is held" <|
            let (s1, rv) := rEff s e.tid th.idx (.unregister i)
            .ok (setTh { s1 with lockW := some e.tid } { th with pc := some (.held true rv) })
        | some rop =>
          guard (e.k == "X" && e.loc == "lk") "register / unregister: expected the write lock" <|
          guard (s.lockW.isNone && s.lockR.isEmpty) "write lock granted while the lock is held" <|
          let (s1, rv) := rEff s e.tid th.idx rop
          .ok (setTh { s1 with lockW := some e.tid } { th with pc := some (.held true rv) })
      | .held write rv =>
        if write then
          guard (e.k == "x" && e.loc == "lk") "expected the write unlock" <|
          .ok (setTh { s with lockW := none } { th with pc := none, retv := some rv })
        else
          guard (e.k == "r" && e.loc == "lk") "expected the read unlock" <|
          .ok (setTh { s with lockR := s.lockR.erase e.tid } { th with pc := none, retv := some rv })
      | .unrRheld i done =>
        guard (e.k == "r" && e.loc == "lk") "unregister: expected the read unlock" <|
        let s1 := { s with lockR := s.lockR.erase e.tid }
        match done with
        | some rv => .ok (setTh s1 { th with pc := none, retv := some rv })
        | none => .ok (setTh s1 { th with pc := some (.unrNeedW i) })
      | .unrNeedW i =>
        -- unregister under the write lock: the collector is looked up AGAIN (the specification's unregister on the
        -- registry as it is NOW decides; an unregister of another thread in the gap makes it report the error)
        guard (e.k == "X" && e.loc == "lk") "unregister: expected the write lock after the pre-check found the collector" <|
        guard (s.lockW.isNone && s.lockR.isEmpty) "write lock granted while the lock is held" <|
        let (s1, rv) := rEff s e.tid th.idx (.unregister i)
        .ok (setTh { s1 with lockW := some e.tid } { th with pc := some (.held true rv) })

def item (s : St) : Item → Except String St
  | .ev e => step s e
  | .call t i op =>
    match s.ths[t]? with
    | none => .error "no such thread"
    | some th => match openCall th i op (fun op => some (.start op)) (fun _ => false) with
      | .ok th' => .ok { s with ths := s.ths.set t th' }
      | .error e => .error e
  | .ret t i v =>
    match s.ths[t]? with
    | none => .error "no such thread"
    | some th => match closeCall th i v with
      | .ok th' => .ok { s with ths := s.ths.set t th' }
      | .error e => .error e
  | .other x => .error s!"unparsed trace item {x}"

def init (colls : List Coll) (prog : List (List String)) : St :=
  { colls := colls, ths := prog.map fun ops => { ops := ops } }

def regReplay (colls : List Coll) (prog : List (List String)) (trace : List Item) : String :=
  match runItems item (init colls prog) trace 0 with
  | .error e => e
  | .ok s => if allDone s.ths then s!"ok final={(specApply s.colls s.reg .gather).2}" else "incomplete"

end Prom.RM
