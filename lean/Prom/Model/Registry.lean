import Prom.Model.Family
/-
Model of src/registry.rs: `RegistryCore::{register, unregister, gather}` and
`Registry::new_custom`. Hash maps are lists in *arbitrary* order (the theorems quantify over
permutations); the BTreeMap of `gather` is a name-sorted association list.
-/
namespace Prom

structure Coll where
  descs : List Desc
  fams : List Family          -- what `collect()` returns at gather time
deriving Repr

inductive RErr | alreadyReg | msg
deriving Repr, BEq, DecidableEq

structure Reg where
  collectors : List (UInt64 × Coll) := []     -- collectors_by_id
  dimHashes : List (Str × UInt64) := []       -- dim_hashes_by_name
  descIds : List UInt64 := []                 -- desc_ids
  labels : Option (List (Str × Str)) := none
  pref : Option Str := none
deriving Repr

/-- `Registry::new_custom` -/
def Reg.newCustom (pref : Option Str) (labels : Option (List (Str × Str))) : Option Reg :=
  let prefOk := match pref with
    | none => true
    | some p => !p.isEmpty && isValidMetricName p
  let labelsOk := match labels with
    | none => true
    | some m => m.all fun kv => isValidLabelName kv.1
  if prefOk && labelsOk then some { labels := labels, pref := pref } else none

def dimLookup (m : List (Str × UInt64)) (k : Str) : Option UInt64 := (m.find? (·.1 == k)).map (·.2)
def dimInsert (m : List (Str × UInt64)) (k : Str) (h : UInt64) : List (Str × UInt64) :=
  (m.filter (·.1 != k)) ++ [(k, h)]

/-- does a label of the descriptor repeat one of the registry's common labels? -/
def clashesCommon (labels : Option (List (Str × Str))) (d : Desc) : Bool :=
  match labels with
  | none => false
  | some m => (d.constPairs.map (·.name) ++ d.varLabels).any fun n => m.any (·.1 == n)

/-- the descriptor loop of `register`: returns the staged (id set, new dim hashes, collector id) -/
def regLoop (r : Reg) : List Desc → List UInt64 → List (Str × UInt64) → UInt64 →
    Except RErr (List UInt64 × List (Str × UInt64) × UInt64)
  | [], ids, nd, cid => .ok (ids, nd, cid)
  | d :: rest, ids, nd, cid =>
    if clashesCommon r.labels d then .error .msg
    else if r.descIds.contains d.id then .error .alreadyReg
    else
      let known := match dimLookup r.dimHashes d.fqName with
        | some h => some h
        | none => dimLookup nd d.fqName
      match known with
      | some h => if h != d.dimHash then .error .msg else
          if ids.contains d.id then .error .msg
          else regLoop r rest (ids ++ [d.id]) (dimInsert nd d.fqName d.dimHash) (cid + d.id)
      | none =>
          if ids.contains d.id then .error .msg
          else regLoop r rest (ids ++ [d.id]) (dimInsert nd d.fqName d.dimHash) (cid + d.id)

def Reg.register (r : Reg) (c : Coll) : Reg × Except RErr Unit :=
  match regLoop r c.descs [] [] 0 with
  | .error e => (r, .error e)
  | .ok (ids, nd, cid) =>
    if r.collectors.any (·.1 == cid) then (r, .error .alreadyReg)
    else ({ r with collectors := r.collectors ++ [(cid, c)],
                   descIds := r.descIds ++ ids,
                   dimHashes := nd.foldl (fun m kv => dimInsert m kv.1 kv.2) r.dimHashes }, .ok ())

def distinctIds : List Desc → List UInt64 → List UInt64
  | [], acc => acc
  | d :: r, acc => if acc.contains d.id then distinctIds r acc else distinctIds r (acc ++ [d.id])

def Reg.unregister (r : Reg) (c : Coll) : Reg × Except RErr Unit :=
  let ids := distinctIds c.descs []
  let cid := ids.foldl (· + ·) (0 : UInt64)
  if r.collectors.any (·.1 == cid) then
    ({ r with collectors := r.collectors.filter (·.1 != cid),
              descIds := r.descIds.filter (fun i => !ids.contains i) }, .ok ())
  else (r, .error .msg)

/-! ### gather -/

/-- insert/merge into the name-sorted association (BTreeMap `entry`) -/
def famInsert (f : Family) : List Family → List Family
  | [] => [f]
  | g :: r =>
    if g.name == f.name then { g with samples := g.samples ++ f.samples } :: r
    else if strLt f.name g.name then f :: g :: r
    else g :: famInsert f r

/-- first position at which the label VALUES of two samples differ (the `for (lp1, lp2) in zip` loop) -/
def firstDiff : List LabelPair → List LabelPair → Option (Str × Str)
  | x :: xs, y :: ys => if x.value != y.value then some (x.value, y.value) else firstDiff xs ys
  | _, _ => none

/-- the sample comparator of `gather`, as "a sorts no later than b": number of labels, then the
    label values position-wise, then the timestamp -/
def cmpTail (fd : Option (Str × Str)) (p : Bool) : Bool :=
  match fd with
  | some (x, y) => strLe x y
  | none => p

def sampleLe (a b : Sample) : Bool :=
  if a.labels.length != b.labels.length then a.labels.length ≤ b.labels.length
  else cmpTail (firstDiff a.labels b.labels) (decide (a.ts ≤ b.ts))

def applyPrefix (pref : Option Str) (name : Str) : Str :=
  match pref with
  | none => name
  | some p => p ++ [us] ++ name

def commonPairs (labels : Option (List (Str × Str))) : List LabelPair :=
  match labels with
  | none => []
  | some m => stableSortBy lpLe (m.map fun kv => ⟨kv.1, kv.2⟩)

/-- `RegistryCore::gather` given what each collector returns, in collector iteration order -/
def gatherFams (pref : Option Str) (labels : Option (List (Str × Str))) (collected : List Family) : List Family :=
  let merged := collected.foldl (fun acc f => if f.samples.isEmpty then acc else famInsert f acc) []
  merged.map fun f =>
    { f with name := applyPrefix pref f.name,
             samples := (stableSortBy sampleLe f.samples).map fun s =>
               { s with labels := s.labels ++ commonPairs labels } }

def Reg.gather (r : Reg) : List Family :=
  gatherFams r.pref r.labels (r.collectors.flatMap (·.2.fams))

end Prom
