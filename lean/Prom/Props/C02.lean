import Prom.HP.Order
import Prom.Lemmas.Histogram
import Prom.Lemmas.HistCuts
/-
C02 — Every histogram snapshot is one consistent cut of the observations.

Model: `Prom/HP/Basic.lean` — an inductive step relation over the shared state of the hot/cold
protocol and a *list of in-flight tasks* (observers, batch flushers, collectors; `spawn` steps add
tasks at any time), so the theorems hold for any number of threads and any interleaving of the
atomic steps. Sum and buckets are uniform cells (`0..k-1` buckets, `k` the sum); an observation is
`{w, upd}`: weight 1 and `[(bucket, 1), (sum, v)]` for `observe`, weight = count and one entry per
non-empty local bucket plus the sum for a local-histogram flush. Exact (integer) cell arithmetic.
The executable replay machine `Model/HistMachine.lean` — the machine every trace of the real
implementation is checked against, event by event — is written over the state of this model, and
`replay_refines` below proves that every item it accepts is a stutter or one step of the model: the
theorems hold of every state reached while replaying a real trace, and `collect_returns_cut`
states C02 for the values the real `collect` calls returned.
-/
namespace Prom.C02
open Hp

/-- **snapshot_is_prefix** — every snapshot ever returned by any collector equals the statistics
    (count = total weight, every cell = total contribution) of exactly the observations claimed
    before that collector's flip: one consistent cut, whatever the other threads were doing. -/
theorem snapshot_is_prefix {k : Nat} {s : St} (h : Reach k s) :
    ∀ p ∈ s.snaps, p.1.count = totW p.2 ∧ ∀ c, p.1.cell c = tot p.2 c :=
  Hp.snapshot_is_prefix h

/-- **collectors_exclusive** — at most one task is between acquiring the collect lock and releasing
    it, and exactly one iff the lock is held -/
theorem collectors_exclusive {k : Nat} {s : St} (h : Reach k s) :
    nActive s.tasks = if s.lock then 1 else 0 :=
  (inv_reach h).act

/-- the observation `observe(v)` makes: one unit of weight, one unit in its bucket (none above all
    bounds / NaN), `iv` in the sum cell `k` -/
def obsOf (k : Nat) (bucket : Option Nat) (iv : Int) : Obs :=
  ⟨1, (match bucket with | some i => [(i, 1)] | none => []) ++ [(k, iv)]⟩

/-- a snapshot's bucket cell counts exactly the observations of the cut that fell into that bucket
    (with `Prom.findBucket_spec` this is "cumulative[i] = number of values `<=` bound i") … -/
theorem bucket_cell_counts (k c : Nat) (hc : c < k) (l : List (Option Nat × Int)) :
    tot (l.map fun p => obsOf k p.1 p.2) c = (l.filter fun p => p.1 == some c).length := by
  induction l with
  | nil => simp [tot]
  | cons p r ih =>
    have hne : k ≠ c := by omega
    simp only [tot, List.map_cons, List.sum_cons] at ih ⊢
    rw [ih]
    obtain ⟨b, iv⟩ := p
    cases b with
    | none => simp [obsOf, contribL, hne]
    | some i =>
      by_cases hi : i = c
      · subst hi; simp [obsOf, contribL, hne]; omega
      · have : (some i == some c) = false := by simp [hi]
        simp [obsOf, contribL, hne, hi, this]

/-- … its count is the number of observations … -/
theorem count_is_size (k : Nat) (l : List (Option Nat × Int)) :
    totW (l.map fun p => obsOf k p.1 p.2) = l.length := by
  induction l with
  | nil => simp [totW]
  | cons p r ih => simp only [totW, List.map_cons, List.sum_cons, List.length_cons] at ih ⊢; rw [ih]; simp [obsOf]; omega

/-- … and its sum cell is the sum of their values -/
theorem sum_cell_is_sum (k : Nat) (l : List (Option Nat × Int)) (hb : ∀ p ∈ l, ∀ i, p.1 = some i → i < k) :
    tot (l.map fun p => obsOf k p.1 p.2) k = (l.map (·.2)).sum := by
  induction l with
  | nil => simp [tot]
  | cons p r ih =>
    simp only [tot, List.map_cons, List.sum_cons] at ih ⊢
    rw [ih (fun q hq => hb q (by simp [hq]))]
    obtain ⟨b, iv⟩ := p
    cases b with
    | none => simp [obsOf, contribL]
    | some i =>
      have := hb (some i, iv) (by simp) i rfl
      have hne : i ≠ k := by omega
      simp [obsOf, contribL, hne]


/-- **cut_is_claim_prefix** — the cut of every snapshot is a *prefix* of the list of observations in
    claim order (the modification order of `shard_and_count`): it is closed under "claimed earlier".
    Because a thread's observations are claimed in program order, a snapshot never contains a thread's
    later observation without its earlier ones; because every observation that completed before the
    collection started was claimed before the collector's flip, the cut contains it; because an
    observation that starts after the collection returned is claimed after the flip, the cut excludes
    it (the flip is a step of the collection itself, and `claimed` only grows — `claim_order_fixed`). -/
theorem cut_is_claim_prefix {k : Nat} {s : St} (h : Reach k s) :
    ∀ p ∈ s.snaps, p.2 <+: s.claimed :=
  (ord_reach h).snapsPre

/-- a collector between its flip and its unlock carries a cut that is a prefix of the claim order and
    extends the cut of every snapshot returned so far -/
theorem inflight_cut_is_prefix {k : Nat} {s : St} (h : Reach k s) (t : Task) (ht : t ∈ s.tasks) (S : List Obs)
    (hS : cutOf t = some S) : S <+: s.claimed ∧ ∀ p ∈ s.snaps, p.2 <+: S :=
  (ord_reach h).taskPre t ht S hS

/-- **claim_order_fixed** — every step leaves the claim order as it was or appends one observation -/
theorem claim_order_fixed {k : Nat} {s s' : St} (h : Step k s s') : s.claimed <+: s'.claimed :=
  claimed_mono h

/-! ### the replay machine (the tie to the real traces) -/

/-- **replay_refines** — every item (call mark, atomic / lock event with the value it returned,
    return mark) that the replay machine accepts is a stutter or exactly one step of the proof model
    on the abstraction `HM.abs` -/
theorem replay_refines {s s' : HM.St} {it : Conc.Item} (h : HM.item s it = .ok s') :
    HM.abs s' = HM.abs s ∨ Hp.Step s.bounds.length (HM.abs s) (HM.abs s') :=
  (HM.item_refines h).2

/-- … so a trace that replays without divergence ends in a reachable state of the proof model -/
theorem replay_reaches {bounds : List UInt64} {prog : List (List String)} {tr : List Conc.Item} {s : HM.St}
    (h : Conc.runItems HM.item (HM.init bounds prog) tr 0 = .ok s) : Reach bounds.length (HM.abs s) :=
  HM.mreach_reach (HM.runItems_mreach tr _ _ 0 HM.MReach.init h)

/-- **collect_returns_cut** — C02 for the replayed implementation: for every `collect` call that
    returned while a trace was replayed, the value it returned (the string the real call's result is
    compared with) is the statistics of one list `cut` of whole observations — count = total weight,
    every bucket cell and the sum cell = total contribution — and `cut` lies, as a prefix in claim
    order, between the observations claimed when the call started (`c0`: it contains every
    observation that had completed by then) and those claimed when it released the lock (`c1`: it
    excludes every observation that starts after the call returned). -/
theorem collect_returns_cut {bounds : List UInt64} {prog : List (List String)} {s : HM.St}
    (h : HM.MReach bounds prog s) :
    ∀ r ∈ s.cuts, r.rv = HM.showSnap bounds.length (totW r.cut) (fun c => tot r.cut c) ∧
      r.c0 <+: r.cut ∧ r.cut <+: r.c1 ∧ r.c1 <+: s.core.claimed := by
  intro r hr
  have I := HM.cutInv_reach h
  obtain ⟨snap, hmem, hrv⟩ := I.vals r hr
  have hsn := Hp.snapshot_is_prefix (HM.mreach_reach h) (snap, r.cut) (by simpa [HM.abs] using hmem)
  have hb := HM.mreach_bounds h
  refine ⟨?_, (I.recs r hr).1, (I.recs r hr).2.1, (I.recs r hr).2.2⟩
  rw [hrv, hb]
  have h1 : snap.count = totW r.cut := hsn.1
  have h2 : snap.cell = fun c => tot r.cut c := funext hsn.2
  rw [h1, h2]

/-- non-vacuity: a reachable state with one observer and one collector that has returned a snapshot
    is built by `Reach.step`; here the simplest instance — the initial state is reachable and the
    statement is about all of its (zero) snapshots, and one spawn keeps it reachable. -/
example : Reach 2 { Hp.init with tasks := [Task.colWant] } := Reach.step Reach.init (Step.spawnCol Hp.init [] [] rfl)

end Prom.C02
