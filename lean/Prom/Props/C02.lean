import Prom.HP.Order
import Prom.Lemmas.Histogram
import Prom.Lemmas.HistCuts
import Prom.Lemmas.HistTags
import Prom.Lemmas.HistSemantics
import Prom.Lemmas.HandoffHist
import Prom.Gen.Orderings
/-
C02 — Every histogram snapshot is one consistent cut of the observations.

Model: `Prom/HP/Basic.lean` — an inductive step relation over the shared state of the hot/cold
protocol and a *list of in-flight tasks* (observers, batch flushers, collectors; `spawn` steps add
tasks at any time), so the theorems hold for any number of threads and any interleaving of the
atomic steps. Sum and buckets are uniform cells (`0..k-1` buckets, `k` the sum); an observation is
`{w, upd}`: weight 1 and `[(bucket, 1), (sum, v)]` for `observe`, weight = count and one entry per
non-empty local bucket plus the sum for a local-histogram flush. Exact (integer) cell arithmetic.
The executable replay machine `Model/HistMachine.lean` — the machine every trace of the real
implementation is checked against, event by event — is written over the state of this model, and
`replay_refines` below proves that every item it accepts is a stutter, one step or (a collector that
swapped 0 out of a cold bucket, whose no-op `fetch_add(0)` on the hot bucket may be skipped) two steps of
the model: the
theorems hold of every state reached while replaying a real trace, and `collect_returns_cut`
states C02 for the values the real `collect` calls returned.
-/
namespace Prom.C02
open Hp

/-- **snapshot_is_prefix** — every snapshot ever returned by any collector equals the statistics
    (count = total weight, every cell = total contribution) of exactly the observations claimed
    before that collector's flip: one consistent cut, whatever the other threads were doing. -/
theorem snapshot_is_prefix {k : Nat} {s : St} (h : Reach k s) :
    ∀ p ∈ s.snaps, p.1.count = totW p.2 ∧ ∀ c, p.1.cell c = tot p.2 c :=
  Hp.snapshot_is_prefix h

/-- **collectors_exclusive** — at most one task is between acquiring the collect lock and releasing
    it, and exactly one iff the lock is held -/
theorem collectors_exclusive {k : Nat} {s : St} (h : Reach k s) :
    nActive s.tasks = if s.lock then 1 else 0 :=
  (inv_reach h).act

/-- the observation `observe(v)` makes: one unit of weight, one unit in its bucket (none above all
    bounds / NaN), `iv` in the sum cell `k` -/
def obsOf (k : Nat) (bucket : Option Nat) (iv : Int) : Obs :=
  ⟨1, (match bucket with | some i => [(i, 1)] | none => []) ++ [(k, iv)]⟩

/-- a snapshot's bucket cell counts exactly the observations of the cut that fell into that bucket
    (with `Prom.findBucket_spec` this is "cumulative[i] = number of values `<=` bound i") … -/
theorem bucket_cell_counts (k c : Nat) (hc : c < k) (l : List (Option Nat × Int)) :
    tot (l.map fun p => obsOf k p.1 p.2) c = (l.filter fun p => p.1 == some c).length := by
  induction l with
  | nil => simp [tot]
  | cons p r ih =>
    have hne : k ≠ c := by omega
    simp only [tot, List.map_cons, List.sum_cons] at ih ⊢
    rw [ih]
    obtain ⟨b, iv⟩ := p
    cases b with
    | none => simp [obsOf, contribL, hne]
    | some i =>
      by_cases hi : i = c
      · subst hi; simp [obsOf, contribL, hne]; omega
      · have : (some i == some c) = false := by simp [hi]
        simp [obsOf, contribL, hne, hi, this]

/-- … its count is the number of observations … -/
theorem count_is_size (k : Nat) (l : List (Option Nat × Int)) :
    totW (l.map fun p => obsOf k p.1 p.2) = l.length := by
  induction l with
  | nil => simp [totW]
  | cons p r ih => simp only [totW, List.map_cons, List.sum_cons, List.length_cons] at ih ⊢; rw [ih]; simp [obsOf]; omega

/-- … and its sum cell is the sum of their values -/
theorem sum_cell_is_sum (k : Nat) (l : List (Option Nat × Int)) (hb : ∀ p ∈ l, ∀ i, p.1 = some i → i < k) :
    tot (l.map fun p => obsOf k p.1 p.2) k = (l.map (·.2)).sum := by
  induction l with
  | nil => simp [tot]
  | cons p r ih =>
    simp only [tot, List.map_cons, List.sum_cons] at ih ⊢
    rw [ih (fun q hq => hb q (by simp [hq]))]
    obtain ⟨b, iv⟩ := p
    cases b with
    | none => simp [obsOf, contribL]
    | some i =>
      have := hb (some i, iv) (by simp) i rfl
      have hne : i ≠ k := by omega
      simp [obsOf, contribL, hne]


/-- **cut_is_claim_prefix** — the cut of every snapshot is a *prefix* of the list of observations in
    claim order (the modification order of `shard_and_count`): it is closed under "claimed earlier".
    Because a thread's observations are claimed in program order, a snapshot never contains a thread's
    later observation without its earlier ones; because every observation that completed before the
    collection started was claimed before the collector's flip, the cut contains it; because an
    observation that starts after the collection returned is claimed after the flip, the cut excludes
    it (the flip is a step of the collection itself, and `claimed` only grows — `claim_order_fixed`). -/
theorem cut_is_claim_prefix {k : Nat} {s : St} (h : Reach k s) :
    ∀ p ∈ s.snaps, p.2 <+: s.claimed :=
  (ord_reach h).snapsPre

/-- a collector between its flip and its unlock carries a cut that is a prefix of the claim order and
    extends the cut of every snapshot returned so far -/
theorem inflight_cut_is_prefix {k : Nat} {s : St} (h : Reach k s) (t : Task) (ht : t ∈ s.tasks) (S : List Obs)
    (hS : cutOf t = some S) : S <+: s.claimed ∧ ∀ p ∈ s.snaps, p.2 <+: S :=
  (ord_reach h).taskPre t ht S hS

/-- **claim_order_fixed** — every step leaves the claim order as it was or appends one observation -/
theorem claim_order_fixed {k : Nat} {s s' : St} (h : Step k s s') : s.claimed <+: s'.claimed :=
  claimed_mono h

/-! ### the replay machine (the tie to the real traces) -/

/-- **replay_refines** — every item (call mark, atomic / lock event with the value it returned,
    return mark) that the replay machine accepts is, on the abstraction `HM.abs`, a stutter, exactly
    one step of the proof model, or exactly two steps. Two steps happen only at the event at which a
    collector swaps 0 out of a cold bucket: the first step is that swap - of a cell that holds 0, so it
    changes nothing but the task list (`ts`; the shared state stays `s.core`) -, the second is the `addHot`
    of 0 of that bucket (`HM.skipTask`), whose no-op `fetch_add(0)` the code may skip; if the code does
    issue it later, the event is a stutter (`HM.colStep`, `HM.swapRes_refines`).
    (Before the collector's steps could be taken in any order, the second step was taken lazily, at the
    next event; the statement is the same.) -/
theorem replay_refines {s s' : HM.St} {it : Conc.Item} (h : HM.item s it = .ok s') :
    HM.abs s' = HM.abs s ∨ Hp.Step s.bounds.length (HM.abs s) (HM.abs s') ∨
      ∃ ts, Hp.Step s.bounds.length (HM.abs s) (HM.withTasks s.core ts) ∧
            Hp.Step s.bounds.length (HM.withTasks s.core ts) (HM.abs s') :=
  (HM.item_refines h).2

/-- … so a trace that replays without divergence ends in a reachable state of the proof model -/
theorem replay_reaches {bounds : List UInt64} {prog : List (List String)} {tr : List Conc.Item} {s : HM.St}
    (h : Conc.runItems HM.item (HM.init bounds prog) tr 0 = .ok s) : Reach bounds.length (HM.abs s) :=
  HM.mreach_reach (HM.runItems_mreach tr _ _ 0 HM.MReach.init h)

/-- **collect_returns_cut** — C02 for the replayed implementation: for every `collect` call that
    returned while a trace was replayed, the value it returned (the string the real call's result is
    compared with) is the statistics of one list `cut` of whole observations — count = total weight,
    every bucket cell and the sum cell = total contribution — and `cut` lies, as a prefix in claim
    order, between the observations claimed when the call started (`c0`: it contains every
    observation that had completed by then) and those claimed when it released the lock (`c1`: it
    excludes every observation that starts after the call returned). -/
theorem collect_returns_cut {bounds : List UInt64} {prog : List (List String)} {s : HM.St}
    (h : HM.MReach bounds prog s) :
    ∀ r ∈ s.cuts, r.rv = HM.showSnap bounds.length (totW r.cut) (fun c => tot r.cut c) ∧
      r.c0 <+: r.cut ∧ r.cut <+: r.c1 ∧ r.c1 <+: s.core.claimed := by
  intro r hr
  have I := HM.cutInv_reach h
  obtain ⟨snap, hmem, hrv⟩ := I.vals r hr
  have hsn := Hp.snapshot_is_prefix (HM.mreach_reach h) (snap, r.cut) (by simpa [HM.abs] using hmem)
  have hb := HM.mreach_bounds h
  refine ⟨?_, (I.recs r hr).1, (I.recs r hr).2.1, (I.recs r hr).2.2⟩
  rw [hrv, hb]
  have h1 : snap.count = totW r.cut := hsn.1
  have h2 : snap.cell = fun c => tot r.cut c := funext hsn.2
  rw [h1, h2]

/-! ### per-thread program order (the ghost list `HM.St.tags`)

`s.tags` is parallel to the claim order `s.core.claimed`: the replay machine appends `(t, i)` to it in
exactly the step in which an event of thread `t`, inside its call number `i`, appends an observation
to `claimed` (the claim `fetch_add` on `shard_and_count`). -/

/-- **claim_tags_parallel** — one tag per claimed observation, and the tag says whose observation it
    is: if position `i` is tagged `(t, k)`, the observation claimed at position `i` is the one the
    `k`-th call of thread `t` of the program (`obs:v` / `flush:v1+v2+…`) makes -/
theorem claim_tags_parallel {bounds : List UInt64} {prog : List (List String)} {s : HM.St}
    (h : HM.MReach bounds prog s) :
    s.tags.length = s.core.claimed.length ∧
    ∀ (i t k : Nat), s.tags[i]? = some (t, k) → ∃ ops : List String, prog[t]? = some ops ∧
      s.core.claimed[i]? = some (HM.obsOfVals bounds (HM.callVals (ops.getD k ""))) :=
  ⟨HM.tags_length h, HM.tag_obs h⟩

/-- **thread_claims_in_program_order** — along the claim order, the observations of one thread appear
    with strictly increasing call indices: a thread's observations are claimed in program order, and
    no call claims twice -/
theorem thread_claims_in_program_order {bounds : List UInt64} {prog : List (List String)} {s : HM.St}
    (h : HM.MReach bounds prog s) :
    ∀ i j (hij : i < j) (hj : j < s.tags.length),
      (s.tags[i]'(Nat.lt_trans hij hj)).1 = (s.tags[j]).1 → (s.tags[i]'(Nat.lt_trans hij hj)).2 < (s.tags[j]).2 :=
  HM.tags_thread_increasing h

/-- **cut_per_thread_prefix** — a snapshot never contains a thread's later observation without its
    earlier ones: for every `collect` call that returned while a trace was replayed, its cut `r.cut`
    is the first `r.cut.length` observations of the claim order, and whenever it contains position
    `j` — an observation of call `b` of thread `t` — it also contains every position `i` that holds
    an observation of an earlier call `a < b` of the same thread -/
theorem cut_per_thread_prefix {bounds : List UInt64} {prog : List (List String)} {s : HM.St}
    (h : HM.MReach bounds prog s) :
    ∀ r ∈ s.cuts, r.cut = s.core.claimed.take r.cut.length ∧
      ∀ i j t a b, s.tags[i]? = some (t, a) → s.tags[j]? = some (t, b) → a < b →
        j < r.cut.length → i < r.cut.length :=
  fun r hr => ⟨(HM.cut_eq_take h r hr).2, HM.cut_per_thread_prefix h r hr⟩
/-! ### the cut in terms of the observed VALUES (the last step of C02) -/

/-- **call_observation_stats** — the observation a call `obs:v` / `flush:v1+v2+…` makes
    (`HM.obsOfVals bounds vals`, `vals` the values written in the call) has weight = number of values,
    contributes to bucket cell `c` the number of its values whose first bound `>=` them is bound `c`,
    and contributes the sum of its values to the sum cell -/
theorem call_observation_stats (bounds : List UInt64) (vals : List Int) :
    (HM.obsOfVals bounds vals).w = vals.length ∧
    (∀ c, c < bounds.length → contribL (HM.obsOfVals bounds vals).upd c =
      ((vals.filter fun v => Prom.findBucket bounds (Conc.f64OfInt v) == some c).length : Int)) ∧
    contribL (HM.obsOfVals bounds vals).upd bounds.length = vals.foldl (· + ·) 0 :=
  ⟨HM.obsOfVals_w bounds vals, fun c hc => HM.obsOfVals_bucket bounds vals c hc, HM.obsOfVals_sum bounds vals⟩

/-- **observations_are_call_values** — in every state reached while replaying a trace, every
    observation in the claim order (`claimed`), and the one carried by every thread that is inside an
    `obs` / `flush` call (before or after its claim), is `obsOfVals bounds vals` for a list of values
    `vals` (at the call mark it is `obsOfVals bounds (callVals op)`, `HM.planCall_obs`; no accepted
    event changes it, `HM.evStep_obs`) -/
theorem observations_are_call_values {bounds : List UInt64} {prog : List (List String)} {s : HM.St}
    (h : HM.MReach bounds prog s) :
    (∀ o ∈ s.core.claimed, ∃ vals, o = HM.obsOfVals bounds vals) ∧
    (∀ th ∈ s.ths, ∀ pc, th.pc = some pc → ∀ o,
      (pc.task = some (.obsStart o) ∨ ∃ b rest, pc.task = some (.obsRun o b rest)) →
      ∃ vals, o = HM.obsOfVals bounds vals) := by
  have O := HM.obsInv_reach h
  refine ⟨O.claimed, ?_⟩
  intro th hth pc hpc o ho
  refine O.thr th hth pc hpc o ?_
  rcases ho with ho | ⟨b, rest, ho⟩ <;> simp [HM.obsOfPc, ho, HM.obsOfTask]

/-- **collect_value_stats** — C02 down to the values: for every `collect` call that returned while
    a trace was replayed there is a list `valss` of value lists (one per observation of the cut, in
    claim order; `S := valss.flatten` is the multiset of observed values the snapshot stands for) such
    that the cut is exactly the observations of these calls, and
    * the snapshot's sample count is the size of `S`,
    * every bucket cell `c` is the number of values of `S` that fall into bucket `c`,
    * the sum cell is the sum of `S`,
    * the returned string is the rendering of exactly these numbers,
    and the cut lies between the observations claimed at the call's start and at its unlock
    (`collect_returns_cut`). -/
theorem collect_value_stats {bounds : List UInt64} {prog : List (List String)} {s : HM.St}
    (h : HM.MReach bounds prog s) :
    ∀ r ∈ s.cuts, ∃ valss : List (List Int),
      r.cut = valss.map (HM.obsOfVals bounds) ∧
      totW r.cut = valss.flatten.length ∧
      (∀ c, c < bounds.length → tot r.cut c =
        ((valss.flatten.filter fun v => Prom.findBucket bounds (Conc.f64OfInt v) == some c).length : Int)) ∧
      tot r.cut bounds.length = valss.flatten.foldl (· + ·) 0 ∧
      r.rv = HM.showSnap bounds.length valss.flatten.length (HM.statCells bounds valss.flatten) ∧
      r.c0 <+: r.cut ∧ r.cut <+: r.c1 ∧ r.c1 <+: s.core.claimed := by
  intro r hr
  obtain ⟨valss, hv⟩ := HM.cut_valss h r hr
  obtain ⟨hrv, hpre⟩ := collect_returns_cut h r hr
  refine ⟨valss, hv, ?_, ?_, ?_, ?_, hpre⟩
  · rw [hv, HM.cut_totW]
  · intro c hc; rw [hv, HM.cut_bucket _ _ _ hc]
  · rw [hv, HM.cut_sum]
  · rw [hrv, hv, HM.cut_totW, HM.cut_cells_eq]

/-- **collect_value_semantics** — the statement of C02 in full, for strictly increasing bounds (what
    `check_and_adjust_buckets` accepts, `C08.accepted_strictIncr`): the value every returned `collect`
    call produced is the rendering (`HM.renderSnap`: count / sum bit pattern / cumulative counts) of
    a set `S` of whole observations' values — its sample count is the size of `S`, its sample sum is
    the sum of `S`, and every bucket's cumulative count is the number of values in `S` not greater
    than that bucket's bound (`f64Le`, the IEEE `<=` the implementation uses) — where `S` is the values
    of a prefix `cut` of the claim order that contains everything claimed before the call started and
    nothing claimed after it released the lock. -/
theorem collect_value_semantics {bounds : List UInt64} {prog : List (List String)} {s : HM.St}
    (h : HM.MReach bounds prog s) (hs : Prom.StrictIncr bounds) :
    ∀ r ∈ s.cuts, ∃ valss : List (List Int),
      r.cut = valss.map (HM.obsOfVals bounds) ∧
      r.rv = HM.renderSnap valss.flatten.length (valss.flatten.foldl (· + ·) 0)
        (bounds.map fun b => valss.flatten.countP (fun v => Prom.f64Le (Conc.f64OfInt v) b)) ∧
      r.c0 <+: r.cut ∧ r.cut <+: r.c1 ∧ r.c1 <+: s.core.claimed := by
  intro r hr
  obtain ⟨valss, hv⟩ := HM.cut_valss h r hr
  obtain ⟨hrv, hpre⟩ := collect_returns_cut h r hr
  refine ⟨valss, hv, ?_, hpre⟩
  rw [hrv, hv, HM.showSnap_cut hs]

/-- **cumulative_counts_are_le_counts** — for strictly increasing bounds the bucket cells `0..i` of a
    cut add up to the number of its values that are `<=` bound `i` -/
theorem cumulative_counts_are_le_counts {bounds : List UInt64} (hs : Prom.StrictIncr bounds)
    (valss : List (List Int)) (i : Nat) (b : UInt64) (hb : bounds[i]? = some b) :
    ((List.range (i + 1)).map fun c => tot (valss.map (HM.obsOfVals bounds)) c).sum =
      (valss.flatten.countP (fun v => Prom.f64Le (Conc.f64OfInt v) b) : Int) :=
  HM.cut_cum hs valss i b hb

/-! ### the release/acquire hand-off (what the memory model adds to the SC interleaving)

The model and the replay machine interpret a trace as a sequentially consistent interleaving. The
theorems above therefore speak about the real implementation only if the observer's Relaxed writes
to the cold shard HAPPEN-BEFORE the collector's swaps of those cells. `Prom/Lemmas/Handoff.lean`
defines `po`, `rf`, release sequences, `sw` and `hb = (po ∪ sw)⁺` on a trace (trace order =
modification order of every location), and the theorems below show that the happens-before edge the
protocol needs exists given exactly the orderings the replay machine checks, and does not exist
without them. -/

open Prom.Handoff in
/-- **handoff_hb** — message passing through a counter that is only ever modified by
    read-modify-writes. If every write to location `c` in the trace is an RMW, then a release write
    (RMW) to `c` at `p` synchronizes with EVERY later acquire read (or RMW) of `c` at `a` — whatever
    other RMWs hit `c` in between, they continue the release sequence headed by `p` — and so
    everything the publishing thread did before `p` happens-before everything the acquiring thread
    does after `a`. Role: with `c` the cold shard's count, `p` an observer's publish and `a` the
    collector's successful spin, the observer's Relaxed bucket / sum writes happen-before the
    collector's swaps of the cold cells. -/
theorem handoff_hb {tr : List MEv} {c : String} {p a : Nat} {ep ea : MEv}
    (hc : ∀ (k : Nat) (e : MEv), tr[k]? = some e → e.loc = c → e.wr = true → e.rd = true)
    (hpa : p < a)
    (hp : tr[p]? = some ep) (hpl : ep.loc = c) (hpw : ep.wr = true) (hprel : ep.rel = true)
    (ha : tr[a]? = some ea) (hal : ea.loc = c) (hard : ea.rd = true) (haacq : ea.acq = true) :
    sw tr p a ∧
    (∀ e f, po tr e p → po tr a f → hb tr e f) ∧
    (∀ e, po tr e p → hb tr e a) ∧ (∀ f, po tr a f → hb tr p f) :=
  Handoff.handoff_hb hc hpa hp hpl hpw hprel ha hal hard haacq

open Prom.Handoff in
/-- **handoff_needs_release** — the Release on the publish is necessary. In the four-event trace
    `trRelaxedPublish` (observer: `fetch_add` Relaxed on a bucket, then the publish `fetch_add` on the
    count with RELAXED instead of Release; collector: successful spin compare-exchange Acquire on the
    count, then `swap` AcqRel of the bucket — all other orderings as in the real code) the spin reads
    the publish and the swap reads the bucket write in the interleaving, yet happens-before is exactly
    program order (`0 → 1`, `2 → 3`): the bucket write does NOT happen-before the swap. Role: the
    replay machine's check `ordGe e.ord "Release"` on the publish is not decoration — a run that
    passes it with a weaker ordering would not be covered by the SC model. -/
theorem handoff_needs_release :
    rf trRelaxedPublish 2 = some 1 ∧ rf trRelaxedPublish 3 = some 0 ∧
    (∀ i j, hb trRelaxedPublish i j ↔ (i = 0 ∧ j = 1) ∨ (i = 2 ∧ j = 3)) ∧
    ¬ hb trRelaxedPublish 0 3 :=
  Handoff.handoff_needs_release

open Prom.Handoff in
/-- **handoff_needs_acquire** — the Acquire on the spin is necessary: the same trace with a Release
    publish and a RELAXED spin (`trRelaxedSpin`) again has happens-before = program order, so the
    bucket write does not happen-before the swap. Role: the machine's check `ordGe e.ord "Acquire"`
    on the spin is needed. (`Handoff.handoff_good`: with both orderings in place the same four events
    do have `hb 0 3`.) -/
theorem handoff_needs_acquire :
    rf trRelaxedSpin 2 = some 1 ∧ rf trRelaxedSpin 3 = some 0 ∧
    (∀ i j, hb trRelaxedSpin i j ↔ (i = 0 ∧ j = 1) ∨ (i = 2 ∧ j = 3)) ∧
    ¬ hb trRelaxedSpin 0 3 :=
  Handoff.handoff_needs_acquire

/-- **count_cells_only_rmw** — every event the replay machine accepts on the count cell of a shard is a
    `fetch_add` ("A"), a compare-exchange ("C") or a load ("L": the load of a `fetch_add` that is written as
    a load + compare-exchange loop, or the load a collector's test-and-test-and-set wait loop does before a
    spin attempt) — never a store or a swap; as memory events they all read,
    so whenever one writes it is a read-modify-write (a successful compare-exchange IS one); and an event
    that belongs to a collector's spin is that load or a compare-exchange with an ordering at least Acquire.
    Role: this is the hypothesis "every write to `c` is an RMW" of `handoff_hb` for `c` = a shard's count, so
    the release sequence headed by a publish is never cut (by another observer's publish, the collector's
    reset in the spin, or its `addCount`).
    (Before the machine accepted a `fetch_add` written as a compare-exchange loop this read
    `(e.k = "A" ∨ e.k = "C") ∧ (e.k = "C" → ordGe e.ord "Acquire") ∧ rd`: then the spin was the only
    compare-exchange on a count cell; now a publish / `addCount` loop has them too, with the ordering of
    the `fetch_add` they stand for, and the Acquire is stated of the spin. Before the machine accepted the
    load of a test-and-test-and-set wait loop the second part read
    `pc.task = some (.colSpin cold ov S) → e.k = "C" ∧ ordGe e.ord "Acquire" = true`, which is false now:
    a spinning collector may also load.) -/
theorem count_cells_only_rmw {k : Nat} {c : Hp.St} {cuts : HM.Cuts} {e : Conc.Ev} {pc : HM.Pc}
    {r : HM.Res × HM.Cuts} {b : Bool}
    (h : HM.evStep k c cuts e pc = .ok r) (hl : HM.parseLoc e.loc = .cnt b) :
    (e.k = "A" ∨ e.k = "C" ∨ e.k = "L") ∧
    (∀ cold ov S, pc.task = some (.colSpin cold ov S) →
      (e.k = "C" ∧ Conc.ordGe e.ord "Acquire" = true) ∨ e.k = "L") ∧
    (Handoff.ofEv e).rd = true :=
  ⟨(HM.evStep_cnt_kind h hl).1, (HM.evStep_cnt_kind h hl).2.2, (HM.evStep_cnt_kind h hl).2.1⟩

/-- **publish_is_release_spin_is_acquire** — the orderings the replay machine enforces on the two ends
    of the hand-off. (1) An event accepted from an observer that has applied all its updates is on the
    count of its shard and reads; it is either THE publish — a `fetch_add`, or the successful
    compare-exchange of the loop that `fetch_add` may be written as, with an ordering at least Release: a
    release RMW, which completes the call — or a stutter of that loop (a load, a failed compare-exchange)
    that writes nothing, changes nothing and leaves the call open. (2) An event accepted from a collector
    that has flipped is on the count of the cold shard and reads; it is either a spin attempt — a
    compare-exchange with an ordering at least Acquire: when it succeeds it is an acquire RMW — or the load
    a test-and-test-and-set wait loop does before an attempt, which writes nothing and changes nothing at
    all (shared state, call state; the call goes on spinning); and (2') the spin ENDS (the call's task
    changes) only through a successful compare-exchange with an ordering at least Acquire, an acquire RMW,
    when the cold count equals the expected value.
    (3) "at least Release" / "at least Acquire" coincide with release / acquire semantics on every
    ordering string, in particular the five real ones. Role: the hypotheses on `p` and `a` of
    `handoff_hb` hold for the publish and the successful spin of every accepted trace.
    (Before the machine accepted the loop, (1) read `e.k = "A" ∧ … ∧ rd ∧ wr ∧ rel`. Before it accepted the
    load in the wait loop, (2) read `e.k = "C" ∧ parseLoc e.loc = .cnt cold ∧ ordGe e.ord "Acquire" = true ∧
    rd ∧ (e.ok = true → wr ∧ acq)`, which is false now: a spinning collector may also load; (2') is new.) -/
theorem publish_is_release_spin_is_acquire {k : Nat} {c : Hp.St} {cuts : HM.Cuts} {e : Conc.Ev} {pc : HM.Pc}
    {r : HM.Res × HM.Cuts} (h : HM.evStep k c cuts e pc = .ok r) :
    (∀ o b, pc.task = some (.obsRun o b []) →
      HM.parseLoc e.loc = .cnt b ∧ (Handoff.ofEv e).rd = true ∧
      (((e.k = "A" ∨ (e.k = "C" ∧ e.ok = true)) ∧ Conc.ordGe e.ord "Release" = true ∧
          (Handoff.ofEv e).wr = true ∧ (Handoff.ofEv e).rel = true ∧ r.1.2.2 = some "") ∨
       ((e.k = "L" ∨ (e.k = "C" ∧ e.ok = false)) ∧ (Handoff.ofEv e).wr = false ∧ r.1.1 = c ∧ r.1.2.2 = none))) ∧
    (∀ cold ov S, pc.task = some (.colSpin cold ov S) →
      HM.parseLoc e.loc = .cnt cold ∧ (Handoff.ofEv e).rd = true ∧
      ((e.k = "C" ∧ Conc.ordGe e.ord "Acquire" = true ∧
          (e.ok = true → (Handoff.ofEv e).wr = true ∧ (Handoff.ofEv e).acq = true)) ∨
       (e.k = "L" ∧ (Handoff.ofEv e).wr = false ∧ r.1.1 = c ∧ r.1.2.1 = pc ∧ r.1.2.2 = none))) ∧
    (∀ cold ov S, pc.task = some (.colSpin cold ov S) → r.1.2.1.task ≠ pc.task →
      e.k = "C" ∧ e.ok = true ∧ Conc.ordGe e.ord "Acquire" = true ∧
      (Handoff.ofEv e).wr = true ∧ (Handoff.ofEv e).acq = true ∧ (c.sh cold).count = ov) ∧
    (∀ o ∈ ["Relaxed", "Acquire", "Release", "AcqRel", "SeqCst"],
      (Conc.ordGe o "Release" = true ↔ o = "Release" ∨ o = "AcqRel" ∨ o = "SeqCst") ∧
      (Conc.ordGe o "Acquire" = true ↔ o = "Acquire" ∨ o = "AcqRel" ∨ o = "SeqCst") ∧
      (Conc.ordGe o "Release" = true → Handoff.relOrd o = true) ∧
      (Conc.ordGe o "Acquire" = true → Handoff.acqOrd o = true)) :=
  ⟨fun _ _ ht => HM.evStep_publish_release ht h, fun _ _ _ ht => HM.evStep_spin_acquire ht h,
    fun _ _ _ ht hx => HM.evStep_spin_exit ht h hx, Handoff.ordGe_table⟩

/-- **publish_as_cas_loop_accepted** — the freedom "a `fetch_add` may be written as a load + compare-exchange
    loop" (`HM.fetchAdd`, used at every `fetch_add` site of the machine: claim, bucket updates, publish, flip,
    `addHot` on a bucket, `addCount`), shown at the publish of an observer (task `obsRun o b []`, no loop in
    progress) on a shard whose count holds the pattern `x`: (1) the single `fetch_add` Release of the weight
    is accepted as before; (2) a Relaxed load of the count is accepted and changes nothing but the call's loop
    state; (3) from there the compare-exchange `x -> x + w` with ordering Release that succeeds is accepted
    and leads to EXACTLY the state the single `fetch_add` leads to; (4) a failed one that reports the count
    changes nothing (the call may then reload or retry with the reported value, `HM.fetchAdd_after_failure`).
    The machine-independent facts for all six sites are `HM.fetchAdd_single`, `HM.fetchAdd_load`,
    `HM.fetchAdd_cas_ok`, `HM.fetchAdd_cas_failed`, `HM.fetchAdd_cases`. -/
theorem publish_as_cas_loop_accepted {k : Nat} {c : Hp.St} {cuts : HM.Cuts} {pc : HM.Pc} {o : Obs} {b : Bool}
    (ht : pc.task = some (.obsRun o b [])) (hi : pc.icur = none) (t : Nat) (l : String)
    (hl : HM.parseLoc l = .cnt b) :
    let x := (c.sh b).count.toUInt64
    let w := o.w.toUInt64
    let c' : Hp.St := { c with sh := modSh c.sh b (fun sd => { sd with count := sd.count + o.w }) }
    let done : HM.Pc := { pc with task := none, icur := none, ifailed := false }
    let loaded : HM.Pc := { pc with icur := some x, ifailed := false }
    HM.evStep k c cuts ⟨t, "A", l, "Release", w, 0, x, true⟩ pc = .ok ((c', done, some ""), cuts) ∧
    HM.evStep k c cuts ⟨t, "L", l, "Relaxed", 0, 0, x, true⟩ pc = .ok ((c, loaded, none), cuts) ∧
    HM.evStep k c cuts ⟨t, "C", l, "Release", x, x + w, x, true⟩ loaded = .ok ((c', done, some ""), cuts) ∧
    HM.evStep k c cuts ⟨t, "C", l, "Release", x, x + w, x, false⟩ loaded =
      .ok ((c, { pc with icur := some x, ifailed := true }, none), cuts) := by
  intro x w c' done loaded
  have og : Conc.ordGe "Release" "Release" = true := by decide +kernel
  have htl : loaded.task = some (.obsRun o b []) := ht
  refine ⟨?_, ?_, ?_, ?_⟩
  · rw [HM.evStep_eq_evStep1]
    unfold HM.evStep1
    simp only [ht]
    rw [HM.fetchAdd_single rfl hl og rfl rfl rfl hi]
    rfl
  · rw [HM.evStep_eq_evStep1]
    unfold HM.evStep1
    simp only [ht]
    rw [HM.fetchAdd_load rfl hl rfl hi]
    rfl
  · rw [HM.evStep_eq_evStep1]
    unfold HM.evStep1
    simp only [htl]
    rw [HM.fetchAdd_cas_ok (cur := x) rfl rfl hl og rfl rfl rfl rfl rfl rfl]
    rfl
  · rw [HM.evStep_eq_evStep1]
    unfold HM.evStep1
    simp only [htl]
    rw [HM.fetchAdd_cas_failed (cur := x) rfl rfl hl og rfl rfl rfl rfl]
    rfl

/-- **collector_drain_any_order** — the freedom "a collector past its spin may take its steps in any order"
    (`HM.colStep`; in the proof model `Hp.Step.swap / addHot / addCount` take ANY element of the task's list,
    `addHot c` only when `swap c` is no longer in it, `Hp.Step.unlock` only when the list is `[unlock]`), and
    its limits. For a collector whose remaining steps are `l1 ++ st :: l2` and an event on the location of
    `st` (cold cell for `swap`, hot cell for `addHot`, hot count for `addCount`, the lock for `unlock`; no
    earlier step of the list works on that location): (1) the event is checked exactly as if `st` were the
    head of the list, and `l1 ++ l2` remains - with `l1 = []` this is the old fixed order; (2) if `st` is
    `addHot cell` and `swap cell` is still to be done, the event is rejected; (3) if `st` is the `unlock` and
    anything else is left, the event is rejected. (4) An event on a location no remaining step works on is
    rejected (unless it is the `fetch_add(0)`, accepted once, of an `addHot` the machine took silently):
    so no cold cell is swapped twice and no drained value is added twice - the list is duplicate-free
    (`Hp.TodoWf`, part of the invariant `Hp.Inv`). Whatever IS accepted refines the proof model
    (`replay_refines`), so all theorems of this file hold for every admissible order. -/
theorem collector_drain_any_order {k : Nat} {c : Hp.St} {cuts : HM.Cuts} {e : Conc.Ev} {pc : HM.Pc}
    {cold : Bool} {ov : Nat} {taken : Cells} {S : List Obs} :
    (∀ l1 st l2, pc.task = some (.colMove cold ov (l1 ++ st :: l2) taken S) →
      (∀ x ∈ l1, HM.stepLoc k cold x ≠ HM.parseLoc e.loc) → HM.stepLoc k cold st = HM.parseLoc e.loc →
      HM.evStep k c cuts e pc = HM.colStep k c cuts e pc cold ov (st :: (l1 ++ l2)) taken S ∧
      (∀ cell, st = .addHot cell → CStep.swap cell ∈ l1 ++ l2 → ∃ m, HM.evStep k c cuts e pc = .error m) ∧
      (st = .unlock → l1 ++ l2 ≠ [] → ∃ m, HM.evStep k c cuts e pc = .error m)) ∧
    (∀ todo, pc.task = some (.colMove cold ov todo taken S) →
      (∀ x ∈ todo, HM.stepLoc k cold x ≠ HM.parseLoc e.loc) →
      (∀ z ∈ pc.zeros, HM.parseLoc e.loc ≠ .bkt (!cold) z) → ∃ m, HM.evStep k c cuts e pc = .error m) := by
  refine ⟨fun l1 st l2 ht h1 hq => ⟨?_, ?_, ?_⟩, fun todo ht h hz => ?_⟩
  · rw [HM.evStep_colMove ht, HM.colStep_any_step h1 hq]
  · rintro cell rfl hs
    rw [HM.evStep_colMove ht]
    exact HM.colStep_rejects_addHot_before_swap h1 hq hs
  · rintro rfl hne
    rw [HM.evStep_colMove ht]
    exact HM.colStep_rejects_early_unlock h1 hq hne
  · rw [HM.evStep_colMove ht]
    exact HM.colStep_rejects_no_step h hz

/-- **spin_wait_load_accepted** — the freedom "the wait loop may be test-and-test-and-set": while a collector
    spins, a load (any ordering) of the cold shard's count that returns the count is accepted and changes
    nothing at all; the spin still ends only through the successful Acquire compare-exchange
    (`publish_is_release_spin_is_acquire` (2')) -/
theorem spin_wait_load_accepted {k : Nat} {c : Hp.St} {cuts : HM.Cuts} {pc : HM.Pc} {cold : Bool} {ov : Nat}
    {S : List Obs} (ht : pc.task = some (.colSpin cold ov S)) (t : Nat) (l o : String) (a b : UInt64) (ok : Bool)
    (hl : HM.parseLoc l = .cnt cold) :
    HM.evStep k c cuts ⟨t, "L", l, o, a, b, (c.sh cold).count.toUInt64, ok⟩ pc = .ok ((c, pc, none), cuts) :=
  HM.colSpin_load_accepted ht t l o a b ok hl

open Prom.Handoff in
/-- **replayed_publish_happens_before_collect** — the three facts combined, for whole traces: in the
    memory-event trace (`HM.memTrace`) of ANY trace the histogram machine replays without divergence,
    a release write `p` to a shard's count cell (every observer publish is one) synchronizes with every
    later successful compare-exchange `a` with an ordering at least Acquire on that cell (every successful
    collector spin is one, `publish_is_release_spin_is_acquire` (2)), and every event program-ordered before
    `p` happens-before every event program-ordered after `a`. (The hypothesis `haacq` is new: while the spin
    was the only compare-exchange the machine accepted on a count cell it followed from `hak`; a publish or
    an `addCount` written as a compare-exchange loop is one too, with its own ordering.) -/
theorem replayed_publish_happens_before_collect {tr : List Conc.Item} {s s' : HM.St} {n : Nat}
    (h : Conc.runItems HM.item s tr n = .ok s')
    {p a : Nat} {ep ea : Conc.Ev} {b : Bool} (hpa : p < a)
    (hp : (HM.evsOf tr)[p]? = some ep) (ha : (HM.evsOf tr)[a]? = some ea)
    (hal : HM.parseLoc ea.loc = .cnt b) (hak : ea.k = "C") (haok : ea.ok = true)
    (haacq : Conc.ordGe ea.ord "Acquire" = true)
    (hpl : ep.loc = ea.loc) (hpw : (ofEv ep).wr = true) (hprel : (ofEv ep).rel = true) :
    sw (HM.memTrace tr) p a ∧
    (∀ e f, po (HM.memTrace tr) e p → po (HM.memTrace tr) a f → hb (HM.memTrace tr) e f) ∧
    (∀ e, po (HM.memTrace tr) e p → hb (HM.memTrace tr) e a) ∧
    (∀ f, po (HM.memTrace tr) a f → hb (HM.memTrace tr) p f) :=
  HM.replay_handoff h hpa hp ha hal hak haok haacq hpl hpw hprel


/-- non-vacuity: a reachable state with one observer and one collector that has returned a snapshot
    is built by `Reach.step`; here the simplest instance — the initial state is reachable and the
    statement is about all of its (zero) snapshots, and one spawn keeps it reachable. -/
example : Reach 2 { Hp.init with tasks := [Task.colWant] } := Reach.step Reach.init (Step.spawnCol Hp.init [] [] rfl)


/-! ### the orderings the source passes NOW (regenerated table) -/

/-- the orderings the hand-off and the replay machine need, stated over WHAT a call site is - the
    last field of its receiver, the method, the position among the call's ordering arguments - not
    over where it is (functions may be split, merged or renamed): every increment of
    `shard_and_count` (an observer's or a batch's claim) is at least Acquire, every `flip` at least
    AcqRel, every explicitly ordered increment of a shard's `count` (the publish) at least Release,
    every compare-exchange on a `count` (the collector's spin) at least Acquire on success, every swap
    in the file, whatever its receiver is called (read-and-reset of the cold cells), at least AcqRel -/
def orderingRules : List (String × List String × Nat × String) :=
  [("shard_and_count", ["inc", "inc_by"], 0, "Acquire"),
   ("shard_and_count", ["flip"], 0, "AcqRel"),
   ("count", ["inc_by_with_ordering"], 0, "Release"),
   ("count", ["compare_exchange_weak", "compare_exchange"], 0, "Acquire"),
   ("*", ["swap"], 0, "AcqRel")]

/-- the sites of `src/histogram.rs` a rule speaks about -/
def ruleSites (r : String × List String × Nat × String) : List Gen.OrdSite :=
  Gen.orderingSites.filter fun s => s.file == "histogram.rs" && (r.1 == "*" || s.recv == r.1) && r.2.1.contains s.meth && s.arg == r.2.2.1

/-- **source_orderings_suffice** — over the table REGENERATED from `src/histogram.rs` on every run
    (`translate/orderings.py`): for every rule there IS such a call site in the source, and EVERY
    such site passes an ordering at least as strong as the rule demands (`handoff_hb` needs the
    publish to be a release and the spin an acquire; the replay machine demands the same of every
    event of every real trace). A weakened ordering changes the table and this closed fact no
    longer checks; moving a call into a helper function does not change it. -/
theorem source_orderings_suffice :
    orderingRules.all (fun r => !(ruleSites r).isEmpty && (ruleSites r).all fun s => Conc.ordGe s.ord r.2.2.2) = true := by
  decide +kernel

end Prom.C02
