import Prom.HP.Order
import Prom.Lemmas.HistCuts
/-
C03 — Histograms conserve observations across any sequence of collects and flushes.
Same model as C02 (`Prom/HP`); this is its history side.
-/
namespace Prom.C03
open Hp

/-- **quiescent_total** — whenever no collector is between flip and unlock: the overall counter
    equals the total weight of everything claimed (so `get_sample_count` agrees), and once every
    in-flight observation on the hot shard has published, the hot shard holds exactly all claimed
    observations — count and every cell (so a further collect returns the stats of all observations
    and `get_sample_sum`, read under the lock from the hot shard, agrees). Nothing is lost or
    counted twice across any number of collections. -/
theorem quiescent_total {k : Nat} {s : St} (h : Reach k s) (hl : s.lock = false) :
    s.n = totW s.claimed ∧
    (pendW s.hot s.tasks = 0 → (s.sh s.hot).count = totW s.claimed ∧
      ∀ c, (s.sh s.hot).cell c = tot s.claimed c) :=
  Hp.quiescent_total h hl


/-- **snapshots_grow** — snapshots in the order in which the collections returned describe nested
    sets: the cut of an earlier one is a prefix (in claim order) of the cut of every later one, for
    any number of collectors and observers and any interleaving. Nothing a snapshot has shown
    disappears from a later one. -/
theorem snapshots_grow {k : Nat} {s : St} (h : Reach k s) :
    s.snaps.Pairwise (fun p q => p.2 <+: q.2) :=
  (ord_reach h).chain

/-- … and their counts are therefore non-decreasing -/
theorem snapshot_counts_grow {k : Nat} {s : St} (h : Reach k s) :
    s.snaps.Pairwise (fun p q => p.1.count ≤ q.1.count) := by
  have hs := Hp.snapshot_is_prefix h
  refine (snapshots_grow h).imp_of_mem ?_
  intro p q hp hq hpq
  rw [(hs p hp).1, (hs q hq).1]
  obtain ⟨t, ht⟩ := hpq
  rw [← ht, totW_append]; omega

/-- **merge_carries_all** — with no collector active the non-hot shard is completely empty (no
    assigned observation, nothing pending, count and every cell zero): the residue of a drained shard
    is exactly nothing, which is what makes the third and later collections right. -/
theorem merge_carries_all {k : Nat} {s : St} (h : Reach k s) (hl : s.lock = false) :
    s.asg (!s.hot) = [] ∧ pendW (!s.hot) s.tasks = 0 ∧ (s.sh (!s.hot)).count = 0 ∧ ∀ c, (s.sh (!s.hot)).cell c = 0 :=
  ((inv_reach h).normal hl).1

/-- **batch_atomic** — a flushed local batch is *one* observation of the model (weight = its count),
    claimed by a single step: the cut `S` of a snapshot is a list of whole observations, so a batch
    is in a snapshot entirely or not at all. (Stated as the shape of the `claim` step.) -/
theorem batch_atomic {k : Nat} (s : St) (pre post : List Task) (o : Obs)
    (ht : s.tasks = pre ++ Task.obsStart o :: post) :
    Step k s { s with tasks := pre ++ Task.obsRun o s.hot o.upd :: post, n := s.n + o.w,
                      claimed := s.claimed ++ [o], asg := modAsg s.asg s.hot (· ++ [o]) } :=
  Step.claim s pre post o ht

/-- **collect_progress** — a spinning collector whose cold shard has received every publish it waits
    for can take its next step: nothing but the observations assigned to the cold shard delays it. -/
theorem collect_progress {k : Nat} {s : St} (h : Reach k s) (pre post : List Task) (cold : Bool) (ov : Nat) (S : List Obs)
    (ht : s.tasks = pre ++ Task.colSpin cold ov S :: post) (hp : pendW cold s.tasks = 0) :
    ∃ s', Step k s s' := by
  have I := inv_reach h
  have hm : Task.colSpin cold ov S ∈ s.tasks := by rw [ht]; simp
  have ph := I.phase _ hm
  simp only [PhaseInv, SpinInv] at ph
  obtain ⟨fr, ⟨e1, _⟩, _⟩ := ph
  have hov : ov = totW (s.asg cold) := fr.2.1
  exact ⟨_, Step.spinOk s pre post cold ov S ht (by omega)⟩

/-- **replay_conserves** — for the replayed implementation: whenever the collect lock is free, the
    observation counter of the machine equals the total weight of everything claimed so far, the
    drained shard is empty, and once no observer is in flight on the hot shard the hot shard holds
    exactly all claimed observations (what a final collect, `get_sample_count` and `get_sample_sum`
    then report). -/
theorem replay_conserves {bounds : List UInt64} {prog : List (List String)} {s : HM.St}
    (h : HM.MReach bounds prog s) (hl : s.core.lock = false) :
    s.core.n = totW s.core.claimed ∧
    (∀ c, (s.core.sh (!s.core.hot)).cell c = 0) ∧ (s.core.sh (!s.core.hot)).count = 0 ∧
    (pendW s.core.hot (HM.abs s).tasks = 0 →
      (s.core.sh s.core.hot).count = totW s.core.claimed ∧ ∀ c, (s.core.sh s.core.hot).cell c = tot s.core.claimed c) := by
  have hr := HM.mreach_reach h
  have q := Hp.quiescent_total hr (by simpa [HM.abs] using hl)
  have m := ((inv_reach hr).normal (by simpa [HM.abs] using hl)).1
  exact ⟨q.1, m.2.2.2, m.2.2.1, q.2⟩

/-- snapshots returned during a replay are nested in return order -/
theorem replay_snapshots_grow {bounds : List UInt64} {prog : List (List String)} {s : HM.St}
    (h : HM.MReach bounds prog s) : s.core.snaps.Pairwise (fun p q => p.2 <+: q.2) :=
  (ord_reach (HM.mreach_reach h)).chain

end Prom.C03
