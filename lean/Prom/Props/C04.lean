import Prom.Lemmas.C04Esc
import Prom.Lemmas.TextRT.Main

namespace Prom.C04
open Prom Prom.Text Prom.TextParse
/-- the fast path (copy up to the first special byte) is equivalent to escaping every byte -/
theorem escape_eq_flatMap (q : Bool) (v : Str) : escapeString q v = v.flatMap (escByte q) :=
  Esc.escape_eq_flatMap q v

/-- **unescape_escape** — a reader that undoes `\\`, `\n` (and `\"` for label values) recovers
    exactly the original bytes, whatever they are (quotes, backslashes, newlines, CR, NUL,
    multi-byte characters, a literal backslash followed by `n`, …) -/
theorem unescape_escape (q : Bool) (v : Str) : unescape q (escapeString q v) = some v :=
  Esc.unescape_escape q v

/-- **escape_no_newline** — an escaped help text or label value never contains a line feed: no
    help text or label value can add or end a line -/
theorem escape_no_newline (q : Bool) (v : Str) : (10 : UInt8) ∉ escapeString q v :=
  Esc.escape_no_newline q v

/-- in label-value mode every quote in the output is escaped: reading the quoted value stops exactly
    at the closing quote the encoder writes, and returns the escaped text unchanged -/
theorem quoted_value_reads_back (v : Str) (rest : Str) :
    ∀ acc, readQuoted (v.flatMap (escByte true) ++ 34 :: rest) acc = some (acc.reverse ++ v.flatMap (escByte true), rest) :=
  Esc.quoted_value_reads_back v rest

/-- label value round trip: quoted reader + unescape recover the value -/
theorem label_value_roundtrip (v rest : Str) :
    (readQuoted (escapeString true v ++ 34 :: rest) []).bind (fun p => (unescape true p.1).map (fun x => (x, p.2)))
      = some (v, rest) :=
  Esc.label_value_roundtrip v rest

/-- **append_only** — the model of `encode` returns exactly what is appended to the caller's buffer;
    on an error what was written before the failing family/sample is a prefix-preserving extension
    (nothing already written is altered) -/
theorem append_only (fmt : UInt64 → Str) (f : Family) (r : List Family) (hs : f.samples.isEmpty = false) (hn : f.name.isEmpty = false) :
    ∃ t, (encode fmt (f :: r)).1 = header f ++ t := by
  unfold encode
  simp only [hs, hn, Bool.or_self, Bool.false_eq_true, if_false]
  split
  · exact ⟨_, rfl⟩
  · exact ⟨(samplesText fmt f.name f.ty f.samples).1 ++ (encode fmt r).1, by simp [List.append_assoc]⟩

/-- **header_lines** — the header of a family is exactly one `# TYPE` line plus one `# HELP` line iff
    the help is non-empty — whatever bytes the help contains -/
theorem header_lines (f : Family) (hname : (10 : UInt8) ∉ f.name) :
    lfCount (header f) = (if f.help.isEmpty then 0 else 1) + 1 := by
  have hn : lfCount f.name = 0 := by simp [lfCount, List.count_eq_zero, hname]
  have he : lfCount (escapeString false f.help) = 0 := by
    simp only [lfCount, List.count_eq_zero]; exact escape_no_newline false f.help
  have ht : lfCount (typeName f.ty) = 0 := by cases f.ty <;> decide +kernel
  unfold header
  by_cases hh : f.help.isEmpty = true
  · simp only [hh, if_true, List.nil_append, lfCount_append, hn, ht]
    have e1 : lfCount (bs "# TYPE ") = 0 := by decide +kernel
    have e2 : lfCount (bs " ") = 0 := by decide +kernel
    have e3 : lfCount (bs "\n") = 1 := by decide +kernel
    omega
  · simp only [hh, Bool.false_eq_true, if_false, lfCount_append, hn, ht, he]
    have e0 : lfCount (bs "# HELP ") = 0 := by decide +kernel
    have e1 : lfCount (bs "# TYPE ") = 0 := by decide +kernel
    have e2 : lfCount (bs " ") = 0 := by decide +kernel
    have e3 : lfCount (bs "\n") = 1 := by decide +kernel
    omega

/-- non-vacuity: a value with a backslash before a multi-byte character, a quote, LF and a literal
    backslash-n survives the round trip (instance of the general theorem) -/
example : unescape true (escapeString true (bs "C:\\é\"x\"\n\\n")) = some (bs "C:\\é\"x\"\n\\n") :=
  unescape_escape _ _


/-! ### the whole document -/

/-- **roundtrip** — for well-formed families (`RT.WF`: valid metric and label names, help not
    starting with a blank or tab, a supported type, at least one sample, value slots matching the
    type) the bytes the encoder writes are read back by the independent text-format reader to exactly
    the same families: same order, names, help, types, label lists and sample values (finite values
    bit-exact, ±Inf preserved, every NaN as NaN), timestamps, each histogram as its cumulative buckets
    plus a `+Inf` bucket equal to the count (unless a `+Inf` bound is already among them), then sum
    and count — whatever bytes the help texts and label values consist of.
    Hypotheses about code outside the crate, restricted to the values that occur: `FmtOk`
    (`f64::to_string` reads back to the same value under the exact decimal reader and contains no
    blank, LF, quote or backslash — checked by the driver for every value of every run) and `CountsOk`
    (`u64 as f64` is exact for the counts that occur, i.e. below 2^53). Integer timestamps need no
    hypothesis (`RT.int_roundtrip`). -/
theorem roundtrip (fmt : UInt64 → Str) (fams : List Family) (hwf : RT.WF fams)
    (hf : RT.FmtOk fmt (RT.valuesOf fams)) (hc : RT.CountsOk (RT.countsOf fams)) :
    (encode fmt fams).2 = true ∧ parse (encode fmt fams).1 = some (canon fams) :=
  RT.roundtrip_doc fmt fams hwf hf hc

/-- **lines_shape** — the number of lines of the exposition is a function of the shape of the
    families only (help present or not, type, number of samples / buckets / quantiles): no help
    text, label value or number can add or remove a line -/
theorem lines_shape (fmt : UInt64 → Str) (fams : List Family) (hwf : RT.WF fams) (hf : RT.FmtOk fmt (RT.valuesOf fams)) :
    (encode fmt fams).1.count 10 = (fams.map RT.famLineCount).sum :=
  RT.lines_shape_doc fmt fams hwf hf

/-- the output is exactly the document's lines, each followed by one LF (nothing else is written) -/
theorem output_is_lines (fmt : UInt64 → Str) (fams : List Family)
    (h : ∀ f ∈ fams, f.samples ≠ [] ∧ f.name ≠ [] ∧ f.ty ≠ .untyped) :
    encode fmt fams = (RT.joinLines (RT.docLines fmt fams), true) :=
  RT.encode_lines fmt fams h

/-- non-vacuity of `roundtrip`: a counter family whose help contains LF, a quote and a backslash and
    whose label value contains a multi-byte character, a backslash and a quote, with value 1.0 and a
    negative timestamp, meets every hypothesis (the formatter maps the one value that occurs to "1") -/
def exFams : List Family :=
  [{ name := bs "req:total", help := bs "h\n\"q\"\\", ty := MType.counter,
     samples := [{ labels := [⟨bs "l", bs "é\\\"x"⟩], val := MVal.counter 0x3FF0000000000000, ts := -5 }] }]
def exFmt : UInt64 → Str := fun v => if v == 0x3FF0000000000000 then bs "1" else bs "?"

example : (encode exFmt exFams).2 = true ∧ parse (encode exFmt exFams).1 = some (canon exFams) := by
  refine roundtrip exFmt exFams ?_ ?_ ?_
  · intro f hf
    simp only [exFams, List.mem_singleton] at hf
    subst hf
    refine ⟨by decide +kernel, ?_, by decide, by simp, ?_, ?_⟩
    · intro b r h
      have : (bs "h\n\"q\"\\") = [104, 10, 34, 113, 34, 92] := by decide +kernel
      rw [this] at h
      cases h
      decide
    · intro s hs
      simp only [List.mem_singleton] at hs
      subst hs; rfl
    · intro s hs l hl
      simp only [List.mem_singleton] at hs
      subst hs
      simp only [List.mem_singleton] at hl
      subst hl
      decide +kernel
  · refine ⟨?_, ?_⟩
    · intro v hv
      have : v = 0x3FF0000000000000 := by simpa [exFams, RT.valuesOf, RT.sampleValues, Sample.counterVal] using hv
      subst this
      decide +kernel
    · intro v hv b hb
      have : v = 0x3FF0000000000000 := by simpa [exFams, RT.valuesOf, RT.sampleValues, Sample.counterVal] using hv
      subst this
      have : exFmt 0x3FF0000000000000 = [49] := by decide +kernel
      rw [this] at hb
      simp only [List.mem_singleton] at hb
      subst hb
      decide
  · intro n hn
    simp [exFams, RT.countsOf, RT.sampleCounts] at hn

end Prom.C04
