import Prom.Lemmas.C04Esc

namespace Prom.C04
open Prom Prom.Text Prom.TextParse
/-- the fast path (copy up to the first special byte) is equivalent to escaping every byte -/
theorem escape_eq_flatMap (q : Bool) (v : Str) : escapeString q v = v.flatMap (escByte q) :=
  Esc.escape_eq_flatMap q v

/-- **unescape_escape** — a reader that undoes `\\`, `\n` (and `\"` for label values) recovers
    exactly the original bytes, whatever they are (quotes, backslashes, newlines, CR, NUL,
    multi-byte characters, a literal backslash followed by `n`, …) -/
theorem unescape_escape (q : Bool) (v : Str) : unescape q (escapeString q v) = some v :=
  Esc.unescape_escape q v

/-- **escape_no_newline** — an escaped help text or label value never contains a line feed: no
    help text or label value can add or end a line -/
theorem escape_no_newline (q : Bool) (v : Str) : (10 : UInt8) ∉ escapeString q v :=
  Esc.escape_no_newline q v

/-- in label-value mode every quote in the output is escaped: reading the quoted value stops exactly
    at the closing quote the encoder writes, and returns the escaped text unchanged -/
theorem quoted_value_reads_back (v : Str) (rest : Str) :
    ∀ acc, readQuoted (v.flatMap (escByte true) ++ 34 :: rest) acc = some (acc.reverse ++ v.flatMap (escByte true), rest) :=
  Esc.quoted_value_reads_back v rest

/-- label value round trip: quoted reader + unescape recover the value -/
theorem label_value_roundtrip (v rest : Str) :
    (readQuoted (escapeString true v ++ 34 :: rest) []).bind (fun p => (unescape true p.1).map (fun x => (x, p.2)))
      = some (v, rest) :=
  Esc.label_value_roundtrip v rest

/-- **append_only** — the model of `encode` returns exactly what is appended to the caller's buffer;
    on an error what was written before the failing family/sample is a prefix-preserving extension
    (nothing already written is altered) -/
theorem append_only (fmt : UInt64 → Str) (f : Family) (r : List Family) (hs : f.samples.isEmpty = false) (hn : f.name.isEmpty = false) :
    ∃ t, (encode fmt (f :: r)).1 = header f ++ t := by
  unfold encode
  simp only [hs, hn, Bool.or_self, Bool.false_eq_true, if_false]
  split
  · exact ⟨_, rfl⟩
  · exact ⟨(samplesText fmt f.name f.ty f.samples).1 ++ (encode fmt r).1, by simp [List.append_assoc]⟩

/-- **header_lines** — the header of a family is exactly one `# TYPE` line plus one `# HELP` line iff
    the help is non-empty — whatever bytes the help contains -/
theorem header_lines (f : Family) (hname : (10 : UInt8) ∉ f.name) :
    lfCount (header f) = (if f.help.isEmpty then 0 else 1) + 1 := by
  have hn : lfCount f.name = 0 := by simp [lfCount, List.count_eq_zero, hname]
  have he : lfCount (escapeString false f.help) = 0 := by
    simp only [lfCount, List.count_eq_zero]; exact escape_no_newline false f.help
  have ht : lfCount (typeName f.ty) = 0 := by cases f.ty <;> decide +kernel
  unfold header
  by_cases hh : f.help.isEmpty = true
  · simp only [hh, if_true, List.nil_append, lfCount_append, hn, ht]
    have e1 : lfCount (bs "# TYPE ") = 0 := by decide +kernel
    have e2 : lfCount (bs " ") = 0 := by decide +kernel
    have e3 : lfCount (bs "\n") = 1 := by decide +kernel
    omega
  · simp only [hh, Bool.false_eq_true, if_false, lfCount_append, hn, ht, he]
    have e0 : lfCount (bs "# HELP ") = 0 := by decide +kernel
    have e1 : lfCount (bs "# TYPE ") = 0 := by decide +kernel
    have e2 : lfCount (bs " ") = 0 := by decide +kernel
    have e3 : lfCount (bs "\n") = 1 := by decide +kernel
    omega

/-- non-vacuity: a value with a backslash before a multi-byte character, a quote, LF and a literal
    backslash-n survives the round trip (instance of the general theorem) -/
example : unescape true (escapeString true (bs "C:\\é\"x\"\n\\n")) = some (bs "C:\\é\"x\"\n\\n") :=
  unescape_escape _ _

end Prom.C04
