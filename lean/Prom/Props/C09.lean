import Prom.Lemmas.C09Aux

namespace Prom.C09
open Prom
/-- **metric_name_regex** — a fully-qualified name is accepted exactly when it matches
    `[a-zA-Z_:][a-zA-Z0-9_:]*` -/
theorem metric_name_regex (s : Str) :
    isValidMetricName s = true ↔ ∃ c r, s = c :: r ∧ MetricStartByte c ∧ ∀ x ∈ r, MetricRestByte x := by
  cases s with
  | nil => simp [isValidMetricName, isValidIdent]
  | cons c r =>
    simp only [isValidMetricName, isValidIdent, Bool.and_eq_true, List.all_eq_true, Bool.or_eq_true,
      metricStart_iff, List.cons.injEq, MetricRestByte]
    constructor
    · rintro ⟨h1, h2⟩
      exact ⟨c, r, ⟨rfl, rfl⟩, h1, fun x hx => by
        rcases h2 x hx with h | h
        · exact Or.inl h
        · exact Or.inr (by simpa [isAsciiDigit, Bool.and_eq_true] using h)⟩
    · rintro ⟨c', r', ⟨rfl, rfl⟩, h1, h2⟩
      exact ⟨h1, fun x hx => by
        rcases h2 x hx with h | h
        · exact Or.inl h
        · exact Or.inr (by simpa [isAsciiDigit, Bool.and_eq_true] using h)⟩

/-- **label_name_regex** — `[a-zA-Z_][a-zA-Z0-9_]*` -/
theorem label_name_regex (s : Str) :
    isValidLabelName s = true ↔ ∃ c r, s = c :: r ∧ LabelStartByte c ∧ ∀ x ∈ r, LabelRestByte x := by
  cases s with
  | nil => simp [isValidLabelName, isValidIdent]
  | cons c r =>
    simp only [isValidLabelName, isValidIdent, Bool.and_eq_true, List.all_eq_true, Bool.or_eq_true,
      labelStart_iff, List.cons.injEq, LabelRestByte]
    constructor
    · rintro ⟨h1, h2⟩
      exact ⟨c, r, ⟨rfl, rfl⟩, h1, fun x hx => by
        rcases h2 x hx with h | h
        · exact Or.inl h
        · exact Or.inr (by simpa [isAsciiDigit, Bool.and_eq_true] using h)⟩
    · rintro ⟨c', r', ⟨rfl, rfl⟩, h1, h2⟩
      exact ⟨h1, fun x hx => by
        rcases h2 x hx with h | h
        · exact Or.inl h
        · exact Or.inr (by simpa [isAsciiDigit, Bool.and_eq_true] using h)⟩

/-- ASCII only: every byte of an accepted name is below 0x80 … -/
theorem valid_name_ascii {s : Str} (h : isValidMetricName s = true) : ∀ b ∈ s, b < 0x80 := by
  obtain ⟨c, r, rfl, hc, hr⟩ := (metric_name_regex s).1 h
  have hlt : ∀ b : UInt8, MetricRestByte b → b < 0x80 := by
    intro b hb
    simp only [MetricRestByte, MetricStartByte, UInt8.le_iff_toNat_le, UInt8.lt_iff_toNat_lt] at *
    have e1 : (0x5A : UInt8).toNat = 0x5A := by decide
    have e2 : (0x7A : UInt8).toNat = 0x7A := by decide
    have e3 : (0x39 : UInt8).toNat = 0x39 := by decide
    have e4 : (0x80 : UInt8).toNat = 0x80 := by decide
    rcases hb with (h | h | h | h) | h
    · omega
    · omega
    · subst h; decide
    · subst h; decide
    · omega
  intro b hb
  rcases List.mem_cons.1 hb with rfl | hb
  · exact hlt _ (Or.inl hc)
  · exact hlt _ (hr b hb)

/-- … and in a UTF-8 string a byte below 0x80 is exactly one ASCII *character*: so a name
    containing any non-ASCII letter or digit (`é`, `ß`, `٣`, `𝟗`, full-width `Ａ` …) is refused. -/
theorem non_ascii_char_refused (cs : List Char) (c : Char) (hc : c ∈ cs) (hna : 0x80 ≤ c.val.toNat) :
    isValidMetricName (cs.flatMap String.utf8EncodeChar) = false := by
  cases hv : isValidMetricName (cs.flatMap String.utf8EncodeChar) with
  | false => rfl
  | true =>
    exfalso
    have hne := String.utf8EncodeChar_ne_nil (c := c)
    cases he : String.utf8EncodeChar c with
    | nil => exact hne he
    | cons b t =>
      have hb : b ∈ String.utf8EncodeChar c := by rw [he]; simp
      have hmem : b ∈ cs.flatMap String.utf8EncodeChar := List.mem_flatMap.2 ⟨c, hc, hb⟩
      have hlt := valid_name_ascii hv b hmem
      have := (utf8_char_ascii c b hb hlt).2
      have h80 : b.toNat < 128 := by
        have e4 : (0x80 : UInt8).toNat = 0x80 := by decide
        rw [UInt8.lt_iff_toNat_lt] at hlt; omega
      omega

/-- label names are metric names without `:` — so the same ASCII-only conclusion holds -/
theorem label_is_metric_name {s : Str} (h : isValidLabelName s = true) : isValidMetricName s = true := by
  cases s with
  | nil => simp [isValidLabelName, isValidIdent] at h
  | cons c r =>
    simp only [isValidLabelName, isValidMetricName, isValidIdent, Bool.and_eq_true, List.all_eq_true,
      Bool.or_eq_true, metricStart] at *
    exact ⟨Or.inl h.1, fun x hx => by
      rcases h.2 x hx with h' | h'
      · exact Or.inl (Or.inl h')
      · exact Or.inr h'⟩

/-- **desc_accept_iff** — `Desc::new` accepts exactly when: help non-empty, valid fq name, every
    const and variable label name valid, and no name occurs twice among const and variable labels.
    (`cl` is the const-label map in *any* iteration order.) -/
theorem desc_accept_iff (fq help : Str) (vl : List Str) (cl : List (Str × Str)) :
    (Desc.new fq help vl cl).isSome = true ↔
      help ≠ [] ∧ isValidMetricName fq = true ∧
      (∀ p ∈ cl, isValidLabelName p.1 = true) ∧ (∀ n ∈ vl, isValidLabelName n = true) ∧
      (cl.map (·.1) ++ vl).Nodup := by
  unfold Desc.new
  by_cases hh : help = []
  · subst hh; simp
  · have hh' : help.isEmpty = false := by cases help <;> simp_all
    simp only [hh', Bool.false_eq_true, if_false, ne_eq, hh, not_false_eq_true, true_and]
    by_cases hm : isValidMetricName fq = true
    · simp only [hm, Bool.not_true, Bool.false_eq_true, if_false, true_and]
      cases hc : constNames cl [] with
      | none =>
        have := constNames_isSome_iff cl []
        rw [hc] at this
        simp only [Option.isSome_none, Bool.false_eq_true, false_iff, List.not_mem_nil,
          not_false_eq_true, implies_true, and_true, not_and] at this ⊢
        intro h1 _ h3
        exact this h1 (List.nodup_append.1 h3).1
      | some cn =>
        have hcs := constNames_isSome_iff cl []
        rw [hc] at hcs
        simp only [Option.isSome_some, List.not_mem_nil, not_false_eq_true, implies_true, and_true,
          true_iff] at hcs
        have hmem := constNames_mem cl [] cn hc
        simp only [List.not_mem_nil, false_or] at hmem
        simp only []
        have hvs := varNames_isSome_iff vl cn
        cases hvn : varNames vl cn with
        | none =>
          rw [hvn] at hvs
          simp only [Option.isSome_none, Bool.false_eq_true, false_iff, not_and] at hvs ⊢
          intro _ h2 h3
          rw [List.nodup_append] at h3
          refine hvs h2 h3.2.1 ?_
          intro n hn
          refine ⟨?_, ?_⟩
          · intro hncn
            exact h3.2.2 n ((hmem n).1 hncn) n hn rfl
          · intro hd
            obtain ⟨q, hq, hqe⟩ := List.mem_map.1 ((hmem _).1 hd)
            exact valid_not_dollar (hcs.1 q hq) n hqe
        | some names =>
          rw [hvn] at hvs
          simp only [Option.isSome_some, true_iff] at hvs ⊢
          refine ⟨hcs.1, hvs.1, ?_⟩
          rw [List.nodup_append]
          refine ⟨hcs.2, hvs.2.1, ?_⟩
          intro a ha b hb hab
          subst hab
          exact (hvs.2.2 a hb).1 ((hmem a).2 ha)
    · have hm' : isValidMetricName fq = false := by simpa using hm
      simp [hm']

/-- histograms additionally refuse the reserved bucket label: checked over the accepted descriptor -/
def histLabelsOk (le : Str) (d : Desc) : Bool :=
  !(d.varLabels.contains le || d.constPairs.any (·.name == le))

/-- non-vacuity: a descriptor with two const labels (given in either order) and two variable labels -/
example : (Desc.new (strOfString "a:b_9") (strOfString "h") [strOfString "x", strOfString "y"]
    [(strOfString "b", strOfString "1"), (strOfString "a", strOfString "2")]).isSome = true := by
  decide +kernel
/-- the F4 witness is refused by the model of the repaired code -/
example : Desc.new (strOfString "z") (strOfString "h") [strOfString "a"]
    [(strOfString "a", strOfString "1")] = none := by decide +kernel

end Prom.C09
