import Prom.Lemmas.C09Aux
import Prom.Lemmas.CharsetsGen
import Prom.Lemmas.GatheredNames
import Prom.Props.C07

namespace Prom.C09
open Prom
/-- **metric_name_regex** — a fully-qualified name is accepted exactly when it matches
    `[a-zA-Z_:][a-zA-Z0-9_:]*` -/
theorem metric_name_regex (s : Str) :
    isValidMetricName s = true ↔ ∃ c r, s = c :: r ∧ MetricStartByte c ∧ ∀ x ∈ r, MetricRestByte x := by
  cases s with
  | nil => simp [isValidMetricName, isValidIdent]
  | cons c r =>
    simp only [isValidMetricName, isValidIdent, Bool.and_eq_true, List.all_eq_true, Bool.or_eq_true,
      metricStart_iff, List.cons.injEq, MetricRestByte]
    constructor
    · rintro ⟨h1, h2⟩
      exact ⟨c, r, ⟨rfl, rfl⟩, h1, fun x hx => by
        rcases h2 x hx with h | h
        · exact Or.inl h
        · exact Or.inr (by simpa [isAsciiDigit, Bool.and_eq_true] using h)⟩
    · rintro ⟨c', r', ⟨rfl, rfl⟩, h1, h2⟩
      exact ⟨h1, fun x hx => by
        rcases h2 x hx with h | h
        · exact Or.inl h
        · exact Or.inr (by simpa [isAsciiDigit, Bool.and_eq_true] using h)⟩

/-- **label_name_regex** — `[a-zA-Z_][a-zA-Z0-9_]*` -/
theorem label_name_regex (s : Str) :
    isValidLabelName s = true ↔ ∃ c r, s = c :: r ∧ LabelStartByte c ∧ ∀ x ∈ r, LabelRestByte x := by
  cases s with
  | nil => simp [isValidLabelName, isValidIdent]
  | cons c r =>
    simp only [isValidLabelName, isValidIdent, Bool.and_eq_true, List.all_eq_true, Bool.or_eq_true,
      labelStart_iff, List.cons.injEq, LabelRestByte]
    constructor
    · rintro ⟨h1, h2⟩
      exact ⟨c, r, ⟨rfl, rfl⟩, h1, fun x hx => by
        rcases h2 x hx with h | h
        · exact Or.inl h
        · exact Or.inr (by simpa [isAsciiDigit, Bool.and_eq_true] using h)⟩
    · rintro ⟨c', r', ⟨rfl, rfl⟩, h1, h2⟩
      exact ⟨h1, fun x hx => by
        rcases h2 x hx with h | h
        · exact Or.inl h
        · exact Or.inr (by simpa [isAsciiDigit, Bool.and_eq_true] using h)⟩

/-- ASCII only: every byte of an accepted name is below 0x80 … -/
theorem valid_name_ascii {s : Str} (h : isValidMetricName s = true) : ∀ b ∈ s, b < 0x80 := by
  obtain ⟨c, r, rfl, hc, hr⟩ := (metric_name_regex s).1 h
  have hlt : ∀ b : UInt8, MetricRestByte b → b < 0x80 := by
    intro b hb
    simp only [MetricRestByte, MetricStartByte, UInt8.le_iff_toNat_le, UInt8.lt_iff_toNat_lt] at *
    have e1 : (0x5A : UInt8).toNat = 0x5A := by decide
    have e2 : (0x7A : UInt8).toNat = 0x7A := by decide
    have e3 : (0x39 : UInt8).toNat = 0x39 := by decide
    have e4 : (0x80 : UInt8).toNat = 0x80 := by decide
    rcases hb with (h | h | h | h) | h
    · omega
    · omega
    · subst h; decide
    · subst h; decide
    · omega
  intro b hb
  rcases List.mem_cons.1 hb with rfl | hb
  · exact hlt _ (Or.inl hc)
  · exact hlt _ (hr b hb)

/-- … and in a UTF-8 string a byte below 0x80 is exactly one ASCII *character*: so a name
    containing any non-ASCII letter or digit (`é`, `ß`, `٣`, `𝟗`, full-width `Ａ` …) is refused. -/
theorem non_ascii_char_refused (cs : List Char) (c : Char) (hc : c ∈ cs) (hna : 0x80 ≤ c.val.toNat) :
    isValidMetricName (cs.flatMap String.utf8EncodeChar) = false := by
  cases hv : isValidMetricName (cs.flatMap String.utf8EncodeChar) with
  | false => rfl
  | true =>
    exfalso
    have hne := String.utf8EncodeChar_ne_nil (c := c)
    cases he : String.utf8EncodeChar c with
    | nil => exact hne he
    | cons b t =>
      have hb : b ∈ String.utf8EncodeChar c := by rw [he]; simp
      have hmem : b ∈ cs.flatMap String.utf8EncodeChar := List.mem_flatMap.2 ⟨c, hc, hb⟩
      have hlt := valid_name_ascii hv b hmem
      have := (utf8_char_ascii c b hb hlt).2
      have h80 : b.toNat < 128 := by
        have e4 : (0x80 : UInt8).toNat = 0x80 := by decide
        rw [UInt8.lt_iff_toNat_lt] at hlt; omega
      omega

/-! ### the character classes translated from the source agree with the model

`Prom/Gen/Charsets.lean` is written by `translate/charsets.py` from `src/desc.rs`: every
`fn _(c: char) -> bool`, the shape of `is_valid_ident` and the predicate each of
`is_valid_metric_name` / `is_valid_label_name` passes to it, as definitions over `Char` (Unicode scalar
values). The theorems below tie that output to the hand-written byte-level model used above.

`is_valid_ident` may scan the characters of its input (`input.chars()`) or the bytes of its UTF-8
encoding, each turned into a `char` (`input.bytes().map(char::from)`); the translator records which in
`Gen.identScansBytes`, and `CharsetsGen.genIdentOkSrc first rest cs` is what the source then computes
on the string with the characters `cs`: `Gen.genIdentOk first rest` on
`(cs.flatMap String.utf8EncodeChar).map fun b => Char.ofNat b.toNat` (= `CharsetsGen.bytesAsChars cs`)
or on `cs` itself. The per-string theorems are stated over it and proved for both values of the flag. -/

/-- `genIdentOkSrc`, spelled out -/
theorem genIdentOkSrc_def (first rest : Char → Bool) (cs : List Char) :
    CharsetsGen.genIdentOkSrc first rest cs =
      if Gen.identScansBytes then
        Gen.genIdentOk first rest ((cs.flatMap String.utf8EncodeChar).map fun b => Char.ofNat b.toNat)
      else Gen.genIdentOk first rest cs := rfl

/-- **generated_charsets_known** — the translator recognised every construct it met (an unknown
    method such as `c.is_alphabetic()`, or another shape of `is_valid_ident`, makes this `false`) -/
theorem generated_charsets_known : Gen.charsetsKnown = true := CharsetsGen.charsets_known

/-- the translated first-character class of label names holds of a character exactly when the
    character is ASCII and its byte is in the model's `labelStart` (`[a-zA-Z_]`) -/
theorem generated_label_first_iff (c : Char) :
    Gen.genLabelFirstOk c = true ↔ c.toNat < 128 ∧ labelStart (UInt8.ofNat c.toNat) = true :=
  CharsetsGen.label_first_agrees c

/-- … first character of metric names: the model's `metricStart` (`[a-zA-Z_:]`) -/
theorem generated_metric_first_iff (c : Char) :
    Gen.genMetricFirstOk c = true ↔ c.toNat < 128 ∧ metricStart (UInt8.ofNat c.toNat) = true :=
  CharsetsGen.metric_first_agrees c

/-- … later characters of label names: `labelStart` or an ASCII digit (`[a-zA-Z0-9_]`) -/
theorem generated_label_rest_iff (c : Char) :
    Gen.genLabelRestOk c = true ↔
      c.toNat < 128 ∧ (labelStart (UInt8.ofNat c.toNat) || isAsciiDigit (UInt8.ofNat c.toNat)) = true :=
  CharsetsGen.label_rest_agrees c

/-- … later characters of metric names: `metricStart` or an ASCII digit (`[a-zA-Z0-9_:]`) -/
theorem generated_metric_rest_iff (c : Char) :
    Gen.genMetricRestOk c = true ↔
      c.toNat < 128 ∧ (metricStart (UInt8.ofNat c.toNat) || isAsciiDigit (UInt8.ofNat c.toNat)) = true :=
  CharsetsGen.metric_rest_agrees c

/-- the translated metric-name validator, run on what the source scans (the characters of a string,
    or the bytes of its UTF-8 encoding as `char`s: `Gen.identScansBytes`), is the model's
    `isValidMetricName` on the bytes of its UTF-8 encoding -/
theorem generated_metric_ident_agrees (cs : List Char) :
    CharsetsGen.genIdentOkSrc Gen.genMetricFirstOk Gen.genMetricRestOk cs
      = isValidMetricName (cs.flatMap String.utf8EncodeChar) :=
  CharsetsGen.metric_ident_src_agrees cs

/-- … and likewise for label names -/
theorem generated_label_ident_agrees (cs : List Char) :
    CharsetsGen.genIdentOkSrc Gen.genLabelFirstOk Gen.genLabelRestOk cs
      = isValidLabelName (cs.flatMap String.utf8EncodeChar) :=
  CharsetsGen.label_ident_src_agrees cs

/-- **generated_ident_agrees** — for every string (list of Unicode scalar values), what the code
    translated from `src/desc.rs` decides about it (scanning its characters, or its UTF-8 bytes as
    `char`s, whichever the source does) is what the hand-written model decides about its UTF-8 bytes:
    for metric names and for label names -/
theorem generated_ident_agrees (cs : List Char) :
    CharsetsGen.genIdentOkSrc Gen.genMetricFirstOk Gen.genMetricRestOk cs
      = isValidMetricName (cs.flatMap String.utf8EncodeChar) ∧
    CharsetsGen.genIdentOkSrc Gen.genLabelFirstOk Gen.genLabelRestOk cs
      = isValidLabelName (cs.flatMap String.utf8EncodeChar) :=
  ⟨generated_metric_ident_agrees cs, generated_label_ident_agrees cs⟩

/-- the two scans cannot be told apart on the translated predicates: over the UTF-8 bytes as `char`s
    (what a byte-scanning `is_valid_ident` sees) and over the characters (what a char-scanning one
    sees) the translated validators answer the same -/
theorem generated_ident_scan_irrelevant (cs : List Char) :
    Gen.genIdentOk Gen.genMetricFirstOk Gen.genMetricRestOk
        ((cs.flatMap String.utf8EncodeChar).map fun b => Char.ofNat b.toNat)
      = Gen.genIdentOk Gen.genMetricFirstOk Gen.genMetricRestOk cs ∧
    Gen.genIdentOk Gen.genLabelFirstOk Gen.genLabelRestOk
        ((cs.flatMap String.utf8EncodeChar).map fun b => Char.ofNat b.toNat)
      = Gen.genIdentOk Gen.genLabelFirstOk Gen.genLabelRestOk cs :=
  ⟨CharsetsGen.ident_bytes_eq_chars _ _ CharsetsGen.metric_first_agrees.hiFalse
      CharsetsGen.metric_rest_agrees.hiFalse cs,
   CharsetsGen.ident_bytes_eq_chars _ _ CharsetsGen.label_first_agrees.hiFalse
      CharsetsGen.label_rest_agrees.hiFalse cs⟩

/-- non-vacuity: the translated validators accept `a:b_9` as a metric name, refuse it as a label
    name, and refuse a name with a non-ASCII letter or digit - over what the source scans … -/
example : CharsetsGen.genIdentOkSrc Gen.genMetricFirstOk Gen.genMetricRestOk "a:b_9".toList = true ∧
    CharsetsGen.genIdentOkSrc Gen.genLabelFirstOk Gen.genLabelRestOk "a:b_9".toList = false ∧
    CharsetsGen.genIdentOkSrc Gen.genLabelFirstOk Gen.genLabelRestOk "ab_9".toList = true ∧
    CharsetsGen.genIdentOkSrc Gen.genMetricFirstOk Gen.genMetricRestOk "é".toList = false ∧
    CharsetsGen.genIdentOkSrc Gen.genMetricFirstOk Gen.genMetricRestOk "a٣".toList = false ∧
    CharsetsGen.genIdentOkSrc Gen.genMetricFirstOk Gen.genMetricRestOk "9a".toList = false ∧
    CharsetsGen.genIdentOkSrc Gen.genMetricFirstOk Gen.genMetricRestOk [] = false := by decide +kernel

/-- … and over each of the two scans, whatever the flag says (`é` is the two elements U+00C3 U+00A9
    in the byte scan, `aé` starts well and is refused at the second element) -/
example : Gen.genIdentOk Gen.genMetricFirstOk Gen.genMetricRestOk "a:b_9".toList = true ∧
    Gen.genIdentOk Gen.genMetricFirstOk Gen.genMetricRestOk (CharsetsGen.bytesAsChars "a:b_9".toList) = true ∧
    Gen.genIdentOk Gen.genLabelFirstOk Gen.genLabelRestOk (CharsetsGen.bytesAsChars "a:b_9".toList) = false ∧
    CharsetsGen.bytesAsChars "é".toList = [Char.ofNat 0xC3, Char.ofNat 0xA9] ∧
    Gen.genIdentOk Gen.genMetricFirstOk Gen.genMetricRestOk "é".toList = false ∧
    Gen.genIdentOk Gen.genMetricFirstOk Gen.genMetricRestOk (CharsetsGen.bytesAsChars "é".toList) = false ∧
    Gen.genIdentOk Gen.genMetricFirstOk Gen.genMetricRestOk (CharsetsGen.bytesAsChars "aé".toList) = false ∧
    Gen.genIdentOk Gen.genMetricFirstOk Gen.genMetricRestOk (CharsetsGen.bytesAsChars "a٣".toList) = false := by
  decide +kernel

/-- label names are metric names without `:` — so the same ASCII-only conclusion holds -/
theorem label_is_metric_name {s : Str} (h : isValidLabelName s = true) : isValidMetricName s = true := by
  cases s with
  | nil => simp [isValidLabelName, isValidIdent] at h
  | cons c r =>
    simp only [isValidLabelName, isValidMetricName, isValidIdent, Bool.and_eq_true, List.all_eq_true,
      Bool.or_eq_true, metricStart] at *
    exact ⟨Or.inl h.1, fun x hx => by
      rcases h.2 x hx with h' | h'
      · exact Or.inl (Or.inl h')
      · exact Or.inr h'⟩

/-- **desc_accept_iff** — `Desc::new` accepts exactly when: help non-empty, valid fq name, every
    const and variable label name valid, and no name occurs twice among const and variable labels.
    (`cl` is the const-label map in *any* iteration order.) -/
theorem desc_accept_iff (fq help : Str) (vl : List Str) (cl : List (Str × Str)) :
    (Desc.new fq help vl cl).isSome = true ↔
      help ≠ [] ∧ isValidMetricName fq = true ∧
      (∀ p ∈ cl, isValidLabelName p.1 = true) ∧ (∀ n ∈ vl, isValidLabelName n = true) ∧
      (cl.map (·.1) ++ vl).Nodup := by
  unfold Desc.new
  by_cases hh : help = []
  · subst hh; simp
  · have hh' : help.isEmpty = false := by cases help <;> simp_all
    simp only [hh', Bool.false_eq_true, if_false, ne_eq, hh, not_false_eq_true, true_and]
    by_cases hm : isValidMetricName fq = true
    · simp only [hm, Bool.not_true, Bool.false_eq_true, if_false, true_and]
      cases hc : constNames cl [] with
      | none =>
        have := constNames_isSome_iff cl []
        rw [hc] at this
        simp only [Option.isSome_none, Bool.false_eq_true, false_iff, List.not_mem_nil,
          not_false_eq_true, implies_true, and_true, not_and] at this ⊢
        intro h1 _ h3
        exact this h1 (List.nodup_append.1 h3).1
      | some cn =>
        have hcs := constNames_isSome_iff cl []
        rw [hc] at hcs
        simp only [Option.isSome_some, List.not_mem_nil, not_false_eq_true, implies_true, and_true,
          true_iff] at hcs
        have hmem := constNames_mem cl [] cn hc
        simp only [List.not_mem_nil, false_or] at hmem
        simp only []
        have hvs := varNames_isSome_iff vl cn
        cases hvn : varNames vl cn with
        | none =>
          rw [hvn] at hvs
          simp only [Option.isSome_none, Bool.false_eq_true, false_iff, not_and] at hvs ⊢
          intro _ h2 h3
          rw [List.nodup_append] at h3
          refine hvs h2 h3.2.1 ?_
          intro n hn
          refine ⟨?_, ?_⟩
          · intro hncn
            exact h3.2.2 n ((hmem n).1 hncn) n hn rfl
          · intro hd
            obtain ⟨q, hq, hqe⟩ := List.mem_map.1 ((hmem _).1 hd)
            exact valid_not_dollar (hcs.1 q hq) n hqe
        | some names =>
          rw [hvn] at hvs
          simp only [Option.isSome_some, true_iff] at hvs ⊢
          refine ⟨hcs.1, hvs.1, ?_⟩
          rw [List.nodup_append]
          refine ⟨hcs.2, hvs.2.1, ?_⟩
          intro a ha b hb hab
          subst hab
          exact (hvs.2.2 a hb).1 ((hmem a).2 ha)
    · have hm' : isValidMetricName fq = false := by simpa using hm
      simp [hm']

/-- histograms additionally refuse the reserved bucket label: checked over the accepted descriptor -/
def histLabelsOk (le : Str) (d : Desc) : Bool :=
  !(d.varLabels.contains le || d.constPairs.any (·.name == le))

/-- non-vacuity: a descriptor with two const labels (given in either order) and two variable labels -/
example : (Desc.new (strOfString "a:b_9") (strOfString "h") [strOfString "x", strOfString "y"]
    [(strOfString "b", strOfString "1"), (strOfString "a", strOfString "2")]).isSome = true := by
  decide +kernel
/-- the F4 witness is refused by the model of the repaired code -/
example : Desc.new (strOfString "z") (strOfString "h") [strOfString "a"]
    [(strOfString "a", strOfString "1")] = none := by decide +kernel


/-! ### what reaches a gathered sample -/

/-- a descriptor produced by `Desc::new` (every library metric describes itself through it) -/
def DescOk (d : Desc) : Prop := ∃ fq help vl cl, Desc.new fq help vl cl = some d

theorem descOk_fields {d : Desc} (h : DescOk d) :
    isValidMetricName d.fqName = true ∧
    (∀ n ∈ d.varLabels ++ d.constPairs.map (·.name), isValidLabelName n = true) ∧
    (d.varLabels ++ d.constPairs.map (·.name)).Nodup := by
  obtain ⟨fq, help, vl, cl, hnew⟩ := h
  have hacc := (desc_accept_iff fq help vl cl).1 (by rw [hnew]; rfl)
  obtain ⟨_, hfq, hcl, hvl, hnd⟩ := hacc
  have hd : d.fqName = fq ∧ d.varLabels = vl ∧ d.constPairs = stableSortBy lpLe (cl.map fun p => ⟨p.1, p.2⟩) := by
    unfold Desc.new at hnew
    split at hnew
    · cases hnew
    · split at hnew
      · cases hnew
      · split at hnew
        · cases hnew
        · split at hnew
          · cases hnew
          · cases hnew; exact ⟨rfl, rfl, rfl⟩
  obtain ⟨h1, h2, h3⟩ := hd
  have hperm : (d.constPairs.map (·.name)).Perm (cl.map (·.1)) := by
    rw [h3]
    refine ((stableSortBy_perm lpLe _).map (·.name)).trans ?_
    simp [List.map_map, Function.comp_def]
  refine ⟨h1 ▸ hfq, ?_, ?_⟩
  · intro n hn
    rcases List.mem_append.1 hn with hn | hn
    · exact hvl n (h2 ▸ hn)
    · obtain ⟨p, hp, rfl⟩ := List.mem_map.1 (hperm.subset hn)
      exact hcl p hp
  · rw [h2]
    have : (vl ++ d.constPairs.map (·.name)).Perm (cl.map (·.1) ++ vl) :=
      (List.Perm.append_left vl hperm).trans List.perm_append_comm
    exact this.nodup_iff.2 hnd

/-- a collector built from this library's metric types: its descriptors come from `Desc::new`, every
    family it collects carries the name of one of them and every sample's labels are that
    descriptor's `make_label_pairs` -/
def LibColl (c : Coll) : Prop :=
  (∀ d ∈ c.descs, DescOk d) ∧
  ∀ f ∈ c.fams, ∃ d ∈ c.descs, f.name = d.fqName ∧ ∀ s ∈ f.samples, ∃ vals, makeLabelPairs d vals = .ok s.labels

/-- what `Registry::new_custom` and `register` establish and `unregister` keeps -/
structure RegOk (r : Reg) : Prop where
  pref : ∀ p, r.pref = some p → isValidMetricName p = true
  labels : ∀ m, r.labels = some m → (∀ kv ∈ m, isValidLabelName kv.1 = true) ∧ (m.map (·.1)).Nodup
  colls : ∀ p ∈ r.collectors, LibColl p.2 ∧ ∀ d ∈ p.2.descs, clashesCommon r.labels d = false

/-- `new_custom` (the label map is a `HashMap`: its keys are pairwise distinct) -/
theorem regOk_newCustom (pref : Option Str) (labels : Option (List (Str × Str)))
    (hk : ∀ m, labels = some m → (m.map (·.1)).Nodup) (r : Reg) (h : Reg.newCustom pref labels = some r) : RegOk r := by
  have hr : r = { labels := labels, pref := pref } ∧
      (∀ p, pref = some p → isValidMetricName p = true) ∧
      (∀ m, labels = some m → ∀ kv ∈ m, isValidLabelName kv.1 = true) := by
    cases pref <;> cases labels <;>
      simp only [Reg.newCustom, Bool.true_and, Bool.and_true, Bool.and_eq_true, List.all_eq_true] at h <;>
      split at h <;> first
        | (cases h; done)
        | (cases h; simp_all; done)
        | (cases h; simp_all; rename_i hh; first | exact hh | exact hh.2)
  obtain ⟨rfl, h1, h2⟩ := hr
  exact ⟨fun p hp => h1 p hp, fun m hm => ⟨h2 m hm, hk m hm⟩, fun p hp => by cases hp⟩

theorem regOk_register {r : Reg} (hr : RegOk r) (c : Coll) (hc : LibColl c) : RegOk (r.register c).1 := by
  unfold Reg.register
  split
  · exact hr
  · next ids nd cid hloop =>
    split
    · exact hr
    · refine ⟨hr.pref, hr.labels, ?_⟩
      intro p hp
      rcases List.mem_append.1 hp with hp | hp
      · exact hr.colls p hp
      · simp only [List.mem_singleton] at hp; subst hp
        exact ⟨hc, regLoop_noclash r c.descs [] [] 0 _ hloop⟩

theorem regOk_unregister {r : Reg} (hr : RegOk r) (c : Coll) : RegOk (r.unregister c).1 := by
  unfold Reg.unregister
  simp only
  split
  · exact ⟨hr.pref, hr.labels, fun p hp => hr.colls p (List.mem_filter.1 hp).1⟩
  · exact hr

/-- **gathered_names_valid** — every sample returned by `gather()` of a registry built by
    `new_custom` and any history of registrations of library collectors has a valid metric name
    (registry prefix included) and valid, pairwise distinct label names (the metric's own const and
    variable labels plus the registry's common labels) -/
theorem gathered_names_valid {r : Reg} (hr : RegOk r) :
    ∀ f ∈ r.gather, isValidMetricName f.name = true ∧
      ∀ s ∈ f.samples, (∀ l ∈ s.labels, isValidLabelName l.name = true) ∧ (s.labels.map (·.name)).Nodup := by
  intro f hf
  unfold Reg.gather at hf
  obtain ⟨g, hg, hname, _, _, ss, hss, hsamples⟩ :=
    C07.gather_family_samples r.pref r.labels (r.collectors.flatMap (·.2.fams)) f hf
  -- a non-empty merged family: pick the collected family (and its collector) it comes from
  have origin : ∀ s ∈ g.samples, ∃ p ∈ r.collectors, ∃ d ∈ p.2.descs, g.name = d.fqName ∧
      ∃ vals, makeLabelPairs d vals = .ok s.labels := by
    intro s hs
    obtain ⟨f0, hf0, hn0, hs0⟩ := merged_sample_origin _ g hg s hs
    obtain ⟨p, hp, hfp⟩ := List.mem_flatMap.1 hf0
    obtain ⟨d, hd, hfd, hsd⟩ := (hr.colls p hp).1.2 f0 hfp
    exact ⟨p, hp, d, hd, by rw [← hn0, hfd], hsd s hs0⟩
  constructor
  · -- the name
    have hne := C07.no_empty_family _ g hg
    obtain ⟨s0, hs0⟩ := List.exists_mem_of_ne_nil _ hne
    obtain ⟨p, hp, d, hd, hgn, _⟩ := origin s0 hs0
    have hv : isValidMetricName g.name = true := by
      rw [hgn]; exact (descOk_fields ((hr.colls p hp).1.1 d hd)).1
    rw [hname]
    cases hpref : r.pref with
    | none => simpa [applyPrefix] using hv
    | some pr => simpa [applyPrefix] using prefixed_name_valid (hr.pref pr hpref) hv
  · intro s hs
    rw [hsamples] at hs
    obtain ⟨s1, hs1, rfl⟩ := List.mem_map.1 hs
    have hs1g : s1 ∈ g.samples := hss.subset hs1
    obtain ⟨p, hp, d, hd, _, vals, hmk⟩ := origin s1 hs1g
    have hfields := descOk_fields ((hr.colls p hp).1.1 d hd)
    have hown := makeLabelPairs_names hmk
    have hnoclash := (hr.colls p hp).2 d hd
    simp only
    cases hl : r.labels with
    | none =>
      simp only [commonPairs, List.append_nil]
      refine ⟨?_, hown.nodup_iff.2 hfields.2.2⟩
      intro l hl'
      exact hfields.2.1 l.name (hown.subset (List.mem_map.2 ⟨l, hl', rfl⟩))
    | some m =>
      have hcommon := commonPairs_names m
      obtain ⟨hmvalid, hmnodup⟩ := hr.labels m hl
      refine ⟨?_, ?_⟩
      · intro l hl'
        rcases List.mem_append.1 hl' with h1 | h1
        · exact hfields.2.1 l.name (hown.subset (List.mem_map.2 ⟨l, h1, rfl⟩))
        · obtain ⟨kv, hkv, hk⟩ := List.mem_map.1 (hcommon.subset (List.mem_map.2 ⟨l, h1, rfl⟩))
          rw [← hk]; exact hmvalid kv hkv
      · rw [List.map_append, List.nodup_append]
        refine ⟨hown.nodup_iff.2 hfields.2.2, hcommon.nodup_iff.2 hmnodup, ?_⟩
        intro a ha b hb hab
        subst hab
        have ha' := hown.subset ha
        obtain ⟨kv, hkv, hk⟩ := List.mem_map.1 (hcommon.subset hb)
        -- `a` is one of the descriptor's own label names and a key of the common label map: refused at registration
        rw [hl] at hnoclash
        simp only [clashesCommon, List.any_eq_false, List.any_eq_true, not_exists, not_and, beq_iff_eq] at hnoclash
        have hmem : a ∈ d.constPairs.map (·.name) ++ d.varLabels := by
          rcases List.mem_append.1 ha' with h | h
          · exact List.mem_append_right _ h
          · exact List.mem_append_left _ h
        exact hnoclash a hmem kv hkv hk

/-- … over whole histories: registrations (of library collectors) and unregistrations keep `RegOk` -/
inductive RegOp | register (c : Coll) | unregister (c : Coll)

def applyOp (r : Reg) : RegOp → Reg
  | .register c => (r.register c).1
  | .unregister c => (r.unregister c).1

theorem regOk_history (ops : List RegOp) (hl : ∀ op ∈ ops, ∀ c, op = .register c → LibColl c) :
    ∀ r, RegOk r → RegOk (ops.foldl applyOp r) := by
  induction ops with
  | nil => intro r h; exact h
  | cons op rest ih =>
    intro r h
    simp only [List.foldl_cons]
    refine ih (fun o ho c hc => hl o (List.mem_cons_of_mem _ ho) c hc) _ ?_
    cases op with
    | register c => exact regOk_register h c (hl _ (by simp) c rfl)
    | unregister c => exact regOk_unregister h c

end Prom.C09
