import Prom.Lemmas.C17Aux
import Prom.Lemmas.C17Buckets
import Prom.Lemmas.C17Vec

namespace Prom.C17
open Prom
/-! ### bucket validation -/

/-- **no_panic (buckets)** — `check_and_adjust_buckets` never panics, for any bucket list, provided
    the default list is non-empty (`Gen/Consts`: 11 elements). -/
theorem checkAndAdjustP_no_panic (defaults bs : List UInt64) (hd : defaults ≠ []) :
    (checkAndAdjustP defaults bs).isPanic = false := by
  unfold checkAndAdjustP
  simp only []
  generalize he : (if bs.isEmpty = true then defaults else bs) = e
  have hne : e ≠ [] := by
    rw [← he]
    split
    · exact hd
    · rename_i h; intro h'; rw [h'] at h; simp at h
  have hlen : 1 ≤ e.length := by
    cases e with
    | nil => exact absurd rfl hne
    | cons a t => simp
  simp only [subP, hlen, if_true, Outcome.bind]
  have hloop := bucketLoopP_no_panic e (e.length - 1) (by omega) e 0 (by simp)
  cases hb : bucketLoopP e (e.length - 1) e 0 with
  | panic => rw [hb] at hloop; simp [Outcome.isPanic] at hloop
  | err => rfl
  | ok u =>
    simp only []
    cases hg : e.getLast? with
    | none => rw [List.getLast?_eq_none_iff] at hg; exact absurd hg hne
    | some t => rfl

/-! ### bucket helper functions: `linear_buckets`, `exponential_buckets` -/

/-- **linear_buckets_err_iff** — `linear_buckets(start, width, count)` returns `Err` exactly when
    `count < 1` or `width <= 0.0` (IEEE comparison). `start` is never examined. Because `NaN <= 0.0`
    is false, a NaN `width` is *accepted* by the code (see `linear_buckets_nan_width_accepted`): the
    documented condition "width is zero or negative" is what is checked, not "width is positive". -/
theorem linear_buckets_err_iff (start width : UInt64) (count : Nat) :
    linearBuckets start width count = none ↔ count < 1 ∨ f64Le width f64Zero = true := by
  unfold linearBuckets
  by_cases hc : count < 1
  · simp [hc]
  · by_cases hw : f64Le width f64Zero = true
    · simp [hw]
    · simp [hc, hw]

/-- the same condition spelled out on the bit pattern: `Err` iff `count = 0`, or `width` is a number
    (not NaN) whose order key is `≤ 0` (a negative number, `-0.0` or `+0.0`; `-Inf` included) -/
theorem linear_buckets_err_iff_key (start width : UInt64) (count : Nat) :
    linearBuckets start width count = none ↔ count = 0 ∨ (f64IsNaN width = false ∧ f64Key width ≤ 0) := by
  rw [linear_buckets_err_iff, f64Le_zero_iff]
  constructor
  · rintro (h | h)
    · exact Or.inl (by omega)
    · exact Or.inr h
  · rintro (h | h)
    · exact Or.inl (by omega)
    · exact Or.inr h

/-- a NaN `width` with a positive `count` is accepted (`Ok`): `NaN <= 0.0` is false. Every bucket
    bound but possibly the first is then NaN; such a list is refused later by
    `check_and_adjust_buckets` (`bucketsOk`), not by this function. `+Inf` is accepted likewise. -/
theorem linear_buckets_nan_width_accepted (start width : UInt64) (count : Nat) (hc : 1 ≤ count)
    (hn : f64IsNaN width = true) : (linearBuckets start width count).isSome = true := by
  cases h : linearBuckets start width count with
  | some l => rfl
  | none =>
    rcases (linear_buckets_err_iff start width count).1 h with h | h
    · omega
    · rw [f64Le_nan_left width f64Zero hn] at h; cases h

/-- **linear_buckets_length** — on success the result has exactly `count` entries -/
theorem linear_buckets_length (start width : UInt64) (count : Nat) (l : List UInt64)
    (h : linearBuckets start width count = some l) : l.length = count := by
  unfold linearBuckets at h
  split at h
  · cases h
  · split at h
    · cases h
    · cases h
      simp only [List.length_map, List.length_range]

/-- on success entry `i` is `start + width * (i as f64)` -/
theorem linear_buckets_entry (start width : UInt64) (count : Nat) (l : List UInt64)
    (h : linearBuckets start width count = some l) (i : Nat) (hi : i < count) :
    l[i]? = some (f64Add start (f64Mul width (f64OfNat i))) := by
  unfold linearBuckets at h
  split at h
  · cases h
  · split at h
    · cases h
    · cases h
      simp [hi]

/-- **exponential_buckets_err_iff** — `exponential_buckets(start, factor, count)` returns `Err`
    exactly when `count < 1`, or `start <= 0.0`, or `factor <= 1.0` (IEEE comparisons). As for
    `linear_buckets`, a NaN `start` or `factor` fails neither comparison and is accepted
    (`exponential_buckets_nan_accepted`). -/
theorem exponential_buckets_err_iff (start factor : UInt64) (count : Nat) :
    exponentialBuckets start factor count = none ↔
      count < 1 ∨ f64Le start f64Zero = true ∨ f64Le factor f64One = true := by
  unfold exponentialBuckets
  by_cases hc : count < 1
  · simp [hc]
  · by_cases hs : f64Le start f64Zero = true
    · simp [hs]
    · by_cases hf : f64Le factor f64One = true
      · simp [hf]
      · simp [hc, hs, hf]

/-- NaN `start` and NaN `factor` are accepted (`Ok`) when the other arguments are valid -/
theorem exponential_buckets_nan_accepted (start factor : UInt64) (count : Nat) (hc : 1 ≤ count)
    (hs : f64IsNaN start = true ∨ f64Le start f64Zero = false)
    (hf : f64IsNaN factor = true ∨ f64Le factor f64One = false) :
    (exponentialBuckets start factor count).isSome = true := by
  cases h : exponentialBuckets start factor count with
  | some l => rfl
  | none =>
    rcases (exponential_buckets_err_iff start factor count).1 h with h | h | h
    · omega
    · rcases hs with hs | hs
      · rw [f64Le_nan_left start f64Zero hs] at h; cases h
      · rw [hs] at h; cases h
    · rcases hf with hf | hf
      · rw [f64Le_nan_left factor f64One hf] at h; cases h
      · rw [hf] at h; cases h

/-- **exponential_buckets_length** — on success the result has exactly `count` entries -/
theorem exponential_buckets_length (start factor : UInt64) (count : Nat) (l : List UInt64)
    (h : exponentialBuckets start factor count = some l) : l.length = count := by
  unfold exponentialBuckets at h
  split at h
  · cases h
  · split at h
    · cases h
    · split at h
      · cases h
      · cases h
        exact expLoop_length factor count start

/-- on success the first entry is `start` and every further entry is the previous one times
    `factor` -/
theorem exponential_buckets_entries (start factor : UInt64) (count : Nat) (l : List UInt64)
    (h : exponentialBuckets start factor count = some l) :
    l[0]? = some start ∧ ∀ i a, i + 1 < count → l[i]? = some a → l[i + 1]? = some (f64Mul a factor) := by
  unfold exponentialBuckets at h
  split at h
  · cases h
  · rename_i hc
    split at h
    · cases h
    · split at h
      · cases h
      · cases h
        constructor
        · cases count with
          | zero => omega
          | succ k => rfl
        · intro i a hi ha
          exact expLoop_step factor count start i a hi ha

/-- **no_panic (linear_buckets)** — for every `start`, `width` and every `count < 2^60`
    (`8 * count ≤ isize::MAX`, so the `Vec` capacity request does not overflow) the function returns
    `Ok` or `Err`, and these are exactly the `Some` / `None` of the sequential model -/
theorem linearBucketsP_eq (start width : UInt64) (count : Nat) (hb : count < 2 ^ 60) :
    linearBucketsP start width count = Outcome.ofOption (linearBuckets start width count) := by
  unfold linearBucketsP linearBuckets
  rw [vecWithCapacityP_ok count hb]
  split
  · rfl
  · split
    · rfl
    · rfl

theorem linearBucketsP_no_panic (start width : UInt64) (count : Nat) (hb : count < 2 ^ 60) :
    (linearBucketsP start width count).isPanic = false := by
  rw [linearBucketsP_eq start width count hb]
  cases linearBuckets start width count <;> rfl

/-- the bound is sharp: the only panic is the capacity overflow of an otherwise valid call -/
theorem linearBucketsP_panic_iff (start width : UInt64) (count : Nat) :
    (linearBucketsP start width count).isPanic = true ↔ 2 ^ 60 ≤ count ∧ f64Le width f64Zero = false := by
  by_cases hb : count < 2 ^ 60
  · rw [linearBucketsP_no_panic start width count hb]
    constructor
    · intro h; cases h
    · rintro ⟨h, _⟩; omega
  · have hb' : 2 ^ 60 ≤ count := by omega
    have hc : ¬ count < 1 := by omega
    unfold linearBucketsP
    rw [vecWithCapacityP_panic count hb', if_neg hc]
    cases hw : f64Le width f64Zero
    · simp [Outcome.bind, Outcome.isPanic, hb']
    · simp [Outcome.isPanic]

/-- **no_panic (exponential_buckets)** — likewise for `exponential_buckets` -/
theorem exponentialBucketsP_eq (start factor : UInt64) (count : Nat) (hb : count < 2 ^ 60) :
    exponentialBucketsP start factor count = Outcome.ofOption (exponentialBuckets start factor count) := by
  unfold exponentialBucketsP exponentialBuckets
  rw [vecWithCapacityP_ok count hb]
  split
  · rfl
  · split
    · rfl
    · split
      · rfl
      · rfl

theorem exponentialBucketsP_no_panic (start factor : UInt64) (count : Nat) (hb : count < 2 ^ 60) :
    (exponentialBucketsP start factor count).isPanic = false := by
  rw [exponentialBucketsP_eq start factor count hb]
  cases exponentialBuckets start factor count <;> rfl

theorem exponentialBucketsP_panic_iff (start factor : UInt64) (count : Nat) :
    (exponentialBucketsP start factor count).isPanic = true ↔
      2 ^ 60 ≤ count ∧ f64Le start f64Zero = false ∧ f64Le factor f64One = false := by
  by_cases hb : count < 2 ^ 60
  · rw [exponentialBucketsP_no_panic start factor count hb]
    constructor
    · intro h; cases h
    · rintro ⟨h, _⟩; omega
  · have hb' : 2 ^ 60 ≤ count := by omega
    have hc : ¬ count < 1 := by omega
    unfold exponentialBucketsP
    rw [vecWithCapacityP_panic count hb', if_neg hc]
    cases hs : f64Le start f64Zero <;> cases hf : f64Le factor f64One <;>
      simp [Outcome.bind, Outcome.isPanic, hb']

/-- invalid arguments are `Err` in the panic-explicit model for *every* `count` (the checks come
    before the allocation) -/
theorem linearBucketsP_err_iff (start width : UInt64) (count : Nat) :
    linearBucketsP start width count = .err ↔ count < 1 ∨ f64Le width f64Zero = true := by
  unfold linearBucketsP vecWithCapacityP
  by_cases hc : count < 1
  · simp [hc]
  · by_cases hw : f64Le width f64Zero = true
    · simp [hw]
    · rw [if_neg hc, if_neg hw]
      constructor
      · intro h
        by_cases hcap : 8 * count ≤ isizeMax
        · rw [if_pos hcap] at h; cases h
        · rw [if_neg hcap] at h; cases h
      · rintro (h | h)
        · exact absurd h hc
        · exact absurd h hw

theorem exponentialBucketsP_err_iff (start factor : UInt64) (count : Nat) :
    exponentialBucketsP start factor count = .err ↔
      count < 1 ∨ f64Le start f64Zero = true ∨ f64Le factor f64One = true := by
  unfold exponentialBucketsP vecWithCapacityP
  by_cases hc : count < 1
  · simp [hc]
  · by_cases hs : f64Le start f64Zero = true
    · simp [hs]
    · by_cases hf : f64Le factor f64One = true
      · simp [hf]
      · rw [if_neg hc, if_neg hs, if_neg hf]
        constructor
        · intro h
          by_cases hcap : 8 * count ≤ isizeMax
          · rw [if_pos hcap] at h; cases h
          · rw [if_neg hcap] at h; cases h
        · rintro (h | h | h)
          · exact absurd h hc
          · exact absurd h hs
          · exact absurd h hf

/-- non-vacuity: width NaN accepted, width -0.0 refused, count 0 refused; factor 1.0 refused -/
example : (linearBuckets f64One 0x7FF8000000000000 3).isSome = true := by decide
example : linearBuckets f64One 0x8000000000000000 3 = none := by decide
example : linearBuckets f64One f64One 0 = none := by decide
example : exponentialBuckets f64One f64One 3 = none := by decide
example : (exponentialBuckets f64One 0x4000000000000000 3).map List.length = some 3 := by decide

/-! ### label pairs -/

/-- **no_panic (make_label_pairs)** — the indexing `label_values[i]` is always in range: a wrong
    number of label values is an `Err`, never a panic. -/
theorem makeLabelPairsP_no_panic (d : Desc) (vals : List Str) : (makeLabelPairsP d vals).isPanic = false := by
  unfold makeLabelPairsP
  split
  · rfl
  · rename_i hlen
    have hlen' : d.varLabels.length = vals.length := by simpa using hlen
    split
    · rfl
    · split
      · rfl
      · have := pairLoopP_no_panic vals d.varLabels 0 (by omega)
        cases hp : pairLoopP vals d.varLabels 0 with
        | panic => rw [hp] at this; simp [Outcome.isPanic] at this
        | err => rfl
        | ok t => rfl

/-- wrong cardinality is exactly the error case -/
theorem makeLabelPairsP_err_iff_card (d : Desc) (vals : List Str) (h : d.varLabels.length ≠ vals.length) :
    makeLabelPairsP d vals = .err := by
  simp [makeLabelPairsP, h]

/-! ### `Desc::new`: `const_labels.get(name).cloned().unwrap()` -/

/-- **no_panic (Desc::new)** — the names collected by the first loop are keys of the const-label
    map, so the `unwrap` on the value lookup cannot fail -/
theorem desc_value_lookup_no_panic (cl : List (Str × Str)) (cn : List Str) (h : constNames cl [] = some cn) :
    (lookupAllP cl cn).isPanic = false := by
  apply lookupAllP_no_panic
  intro k hk
  have := (constNames_mem cl [] cn h k).1 hk
  simpa using this

/-! ### `escape_string`: the slice index is a char boundary -/

/-- the first special byte (all special bytes are ASCII) of a UTF-8 string sits at a character
    boundary, so `&v[0..first]` and `&v[first..]` never panic — whatever multi-byte characters
    precede it -/
theorem first_special_is_boundary (quote : Bool) : ∀ (cs : List Char) (i : Nat),
    (cs.flatMap String.utf8EncodeChar).findIdx? (isSpecial quote) = some i → isCharBoundary cs i = true := by
  intro cs
  induction cs with
  | nil => intro i h; simp at h
  | cons c r ih =>
    intro i h
    simp only [List.flatMap_cons] at h
    rw [List.findIdx?_append] at h
    cases hc : (String.utf8EncodeChar c).findIdx? (isSpecial quote) with
    | some j =>
      rw [hc] at h
      simp at h
      subst h
      -- a special byte inside `c`'s encoding: `c` is that ASCII character, so j = 0
      rw [List.findIdx?_eq_some_iff_getElem] at hc
      obtain ⟨hj, hsp, _⟩ := hc
      have hb : (String.utf8EncodeChar c)[j] ∈ String.utf8EncodeChar c := List.getElem_mem hj
      have hlt : (String.utf8EncodeChar c)[j] < 0x80 := by
        have : isSpecial quote (String.utf8EncodeChar c)[j] = true := hsp
        simp only [isSpecial, Bool.or_eq_true, Bool.and_eq_true, beq_iff_eq] at this
        rcases this with (h1 | h1) | ⟨_, h1⟩ <;> rw [h1] <;> decide
      have hsingle := (utf8_char_ascii c _ hb hlt).1
      have hj0 : j = 0 := by
        rw [hsingle] at hj
        simpa using hj
      subst hj0
      simp [isCharBoundary]
    | none =>
      rw [hc] at h
      simp only [Option.none_or, Option.map_eq_some_iff] at h
      obtain ⟨k, hk, rfl⟩ := h
      have := ih k hk
      simp only [isCharBoundary]
      simp [this]

theorem escapeSliceP_no_panic (cs : List Char) (quote : Bool) : (escapeSliceP cs quote).isPanic = false := by
  unfold escapeSliceP
  cases h : (cs.flatMap String.utf8EncodeChar).findIdx? (isSpecial quote) with
  | none => rfl
  | some i => simp only []; rw [first_special_is_boundary quote cs i h]; rfl

/-! ### encoders -/

/-- **no_panic (encoders)** — for every list of families of every metric type (UNTYPED included,
    since the F6 repair), with or without a failing writer, both encoders return Ok or Err -/
theorem encode_no_panic (k : EncKind) (wf : Bool) (fams : List Family) : (encodeOutcome k wf fams).isPanic = false := by
  induction fams with
  | nil => rfl
  | cons f r ih =>
    unfold encodeOutcome
    repeat (first | rfl | split)
    exact ih

/-- **refused_iff** — an encoder with a working writer refuses exactly when some family has no
    samples or no name (or, text only, is UNTYPED) -/
theorem encode_err_iff (k : EncKind) (fams : List Family) :
    encodeOutcome k false fams = .err ↔
      ∃ f ∈ fams, f.samples.isEmpty = true ∨ f.name.isEmpty = true ∨ (k = .text ∧ f.ty = .untyped) := by
  induction fams with
  | nil => simp [encodeOutcome]
  | cons f r ih =>
    unfold encodeOutcome
    by_cases h1 : f.samples.isEmpty = true
    · simp only [h1, if_true, true_iff]; exact ⟨f, by simp, Or.inl h1⟩
    · by_cases h2 : f.name.isEmpty = true
      · simp only [h1, h2, if_true, Bool.false_eq_true, if_false, true_iff]; exact ⟨f, by simp, Or.inr (Or.inl h2)⟩
      · by_cases h3 : k = EncKind.text ∧ f.ty = MType.untyped
        · rw [if_neg h1, if_neg h2, if_neg (by simp), if_pos h3]
          simp only [true_iff]
          exact ⟨f, by simp, Or.inr (Or.inr h3)⟩
        · simp only [h1, h2, h3, Bool.false_eq_true, if_false]
          rw [ih]
          constructor
          · rintro ⟨g, hg, hc⟩; exact ⟨g, by simp [hg], hc⟩
          · rintro ⟨g, hg, hc⟩
            rcases List.mem_cons.1 hg with rfl | hg
            · rcases hc with hc | hc | hc
              · exact absurd hc h1
              · exact absurd hc h2
              · exact absurd hc h3
            · exact ⟨g, hg, hc⟩

/-- non-vacuity -/
example : checkAndAdjustP [f64One] [f64One, 0x7FF8000000000000] = .err := by decide
example : (escapeSliceP "café\\menu".toList false).isPanic = false := escapeSliceP_no_panic _ _

end Prom.C17

namespace Prom.C17
open Prom
/-- generated-constant obligation: `DEFAULT_BUCKETS` (regenerated from src/histogram.rs) is
    non-empty — the hypothesis of `checkAndAdjustP_no_panic` — and itself an accepted list -/
theorem default_buckets_nonempty : Gen.defaultBuckets ≠ [] ∧ bucketsOk Gen.defaultBuckets = true := by
  decide
end Prom.C17

namespace Prom.C17
open Prom

/-- lookups never change the declared label names (nor whether building fails) -/
theorem afterLookups_names (v : MVec) (pre : List (List Str)) :
    (afterLookups v pre).names = v.names ∧ (afterLookups v pre).buildFails = v.buildFails := by
  induction pre generalizing v with
  | nil => exact ⟨rfl, rfl⟩
  | cons a t ih =>
    rw [afterLookups_cons]
    have h1 := ih (withLabelValues v a).1
    have h2 := wlv_names v a
    exact ⟨h1.1.trans h2.1, h1.2.trans h2.2⟩

/-- **lookup_ok_iff** — `get_metric_with_label_values` on a vector in ANY state (whatever children it
    already holds) whose metric builder does not fail: it returns Ok exactly when one value per
    declared label is given -/
theorem lookup_ok_iff (v : MVec) (hb : v.buildFails = false) (vals : List Str) :
    (∃ id, (withLabelValues v vals).2 = .ok id) ↔ vals.length = v.names.length := by
  constructor
  · rintro ⟨id, h⟩
    by_cases hl : vals.length = v.names.length
    · exact hl
    · unfold withLabelValues at h
      rw [hash_err v vals hl] at h
      simp at h
  · intro hl
    unfold withLabelValues
    rw [hash_ok v vals hl]
    simp only []
    unfold getOrCreate
    cases hlk : lookupKey v (vecKey vals) with
    | some id => exact ⟨id, rfl⟩
    | none =>
      simp only [hb]
      exact ⟨_, rfl⟩

/-- **illformed_lookup_after_any_history** — no history of earlier lookups (so no set of existing
    children, in particular not the child of the empty value) makes an ill-formed lookup succeed:
    it is refused with the cardinality error and the vector is left as it was -/
theorem illformed_lookup_after_any_history (v0 : MVec) (pre : List (List Str)) (vals : List Str)
    (h : vals.length ≠ v0.names.length) :
    withLabelValues (afterLookups v0 pre) vals =
      (afterLookups v0 pre, .error (.card v0.names.length vals.length)) := by
  have hn := (afterLookups_names v0 pre).1
  unfold withLabelValues
  rw [hash_err _ vals (by rw [hn]; exact h), hn]

/-- **remove_ok_iff** — `remove_label_values` on a vector in any state returns Ok exactly when it is
    well-formed and the key of the given values is present -/
theorem remove_ok_iff (v : MVec) (vals : List Str) :
    (removeLabelValues v vals).2 = .ok () ↔
      (vals.length = v.names.length ∧ (lookupKey v (vecKey vals)).isSome = true) := by
  unfold removeLabelValues
  by_cases hl : vals.length = v.names.length
  · rw [hash_ok v vals hl]
    simp only []
    unfold removeKey
    cases hlk : lookupKey v (vecKey vals) with
    | some id => simp [hl]
    | none => simp
  · rw [hash_err v vals hl]
    simp [hl]

/-- **remove_after_lookup_ok** — a well-formed removal of values that an earlier well-formed lookup
    created (builder not failing, no removal in between) succeeds -/
theorem remove_after_lookup_ok (v0 : MVec) (hb : v0.buildFails = false) (pre : List (List Str))
    (vals : List Str) (hm : vals ∈ pre) (hl : vals.length = v0.names.length) :
    (removeLabelValues (afterLookups v0 pre) vals).2 = .ok () := by
  rw [remove_ok_iff]
  exact ⟨by rw [(afterLookups_names v0 pre).1]; exact hl,
    (lookupKey_isSome_iff _ _).2 (afterLookups_present v0 hb pre vals hm hl)⟩

/-- **remove_fresh_err** — a vector without children refuses every removal -/
theorem remove_fresh_err (v : MVec) (hc : v.children = []) (vals : List Str) :
    ∃ e, (removeLabelValues v vals).2 = .error e := by
  unfold removeLabelValues
  by_cases hl : vals.length = v.names.length
  · rw [hash_ok v vals hl]
    simp only []
    unfold removeKey
    have : lookupKey v (vecKey vals) = none := by
      unfold lookupKey; rw [hc]; rfl
    rw [this]
    exact ⟨_, rfl⟩
  · rw [hash_err v vals hl]
    exact ⟨_, rfl⟩

end Prom.C17
