import Prom.Lemmas.C17Aux

namespace Prom.C17
open Prom
/-! ### bucket validation -/

/-- **no_panic (buckets)** — `check_and_adjust_buckets` never panics, for any bucket list, provided
    the default list is non-empty (`Gen/Consts`: 11 elements). -/
theorem checkAndAdjustP_no_panic (defaults bs : List UInt64) (hd : defaults ≠ []) :
    (checkAndAdjustP defaults bs).isPanic = false := by
  unfold checkAndAdjustP
  simp only []
  generalize he : (if bs.isEmpty = true then defaults else bs) = e
  have hne : e ≠ [] := by
    rw [← he]
    split
    · exact hd
    · rename_i h; intro h'; rw [h'] at h; simp at h
  have hlen : 1 ≤ e.length := by
    cases e with
    | nil => exact absurd rfl hne
    | cons a t => simp
  simp only [subP, hlen, if_true, Outcome.bind]
  have hloop := bucketLoopP_no_panic e (e.length - 1) (by omega) e 0 (by simp)
  cases hb : bucketLoopP e (e.length - 1) e 0 with
  | panic => rw [hb] at hloop; simp [Outcome.isPanic] at hloop
  | err => rfl
  | ok u =>
    simp only []
    cases hg : e.getLast? with
    | none => rw [List.getLast?_eq_none_iff] at hg; exact absurd hg hne
    | some t => rfl

/-! ### label pairs -/

/-- **no_panic (make_label_pairs)** — the indexing `label_values[i]` is always in range: a wrong
    number of label values is an `Err`, never a panic. -/
theorem makeLabelPairsP_no_panic (d : Desc) (vals : List Str) : (makeLabelPairsP d vals).isPanic = false := by
  unfold makeLabelPairsP
  split
  · rfl
  · rename_i hlen
    have hlen' : d.varLabels.length = vals.length := by simpa using hlen
    split
    · rfl
    · split
      · rfl
      · have := pairLoopP_no_panic vals d.varLabels 0 (by omega)
        cases hp : pairLoopP vals d.varLabels 0 with
        | panic => rw [hp] at this; simp [Outcome.isPanic] at this
        | err => rfl
        | ok t => rfl

/-- wrong cardinality is exactly the error case -/
theorem makeLabelPairsP_err_iff_card (d : Desc) (vals : List Str) (h : d.varLabels.length ≠ vals.length) :
    makeLabelPairsP d vals = .err := by
  simp [makeLabelPairsP, h]

/-! ### `Desc::new`: `const_labels.get(name).cloned().unwrap()` -/

/-- **no_panic (Desc::new)** — the names collected by the first loop are keys of the const-label
    map, so the `unwrap` on the value lookup cannot fail -/
theorem desc_value_lookup_no_panic (cl : List (Str × Str)) (cn : List Str) (h : constNames cl [] = some cn) :
    (lookupAllP cl cn).isPanic = false := by
  apply lookupAllP_no_panic
  intro k hk
  have := (constNames_mem cl [] cn h k).1 hk
  simpa using this

/-! ### `escape_string`: the slice index is a char boundary -/

/-- the first special byte (all special bytes are ASCII) of a UTF-8 string sits at a character
    boundary, so `&v[0..first]` and `&v[first..]` never panic — whatever multi-byte characters
    precede it -/
theorem first_special_is_boundary (quote : Bool) : ∀ (cs : List Char) (i : Nat),
    (cs.flatMap String.utf8EncodeChar).findIdx? (isSpecial quote) = some i → isCharBoundary cs i = true := by
  intro cs
  induction cs with
  | nil => intro i h; simp at h
  | cons c r ih =>
    intro i h
    simp only [List.flatMap_cons] at h
    rw [List.findIdx?_append] at h
    cases hc : (String.utf8EncodeChar c).findIdx? (isSpecial quote) with
    | some j =>
      rw [hc] at h
      simp at h
      subst h
      -- a special byte inside `c`'s encoding: `c` is that ASCII character, so j = 0
      rw [List.findIdx?_eq_some_iff_getElem] at hc
      obtain ⟨hj, hsp, _⟩ := hc
      have hb : (String.utf8EncodeChar c)[j] ∈ String.utf8EncodeChar c := List.getElem_mem hj
      have hlt : (String.utf8EncodeChar c)[j] < 0x80 := by
        have : isSpecial quote (String.utf8EncodeChar c)[j] = true := hsp
        simp only [isSpecial, Bool.or_eq_true, Bool.and_eq_true, beq_iff_eq] at this
        rcases this with (h1 | h1) | ⟨_, h1⟩ <;> rw [h1] <;> decide
      have hsingle := (utf8_char_ascii c _ hb hlt).1
      have hj0 : j = 0 := by
        rw [hsingle] at hj
        simpa using hj
      subst hj0
      simp [isCharBoundary]
    | none =>
      rw [hc] at h
      simp only [Option.none_or, Option.map_eq_some_iff] at h
      obtain ⟨k, hk, rfl⟩ := h
      have := ih k hk
      simp only [isCharBoundary]
      simp [this]

theorem escapeSliceP_no_panic (cs : List Char) (quote : Bool) : (escapeSliceP cs quote).isPanic = false := by
  unfold escapeSliceP
  cases h : (cs.flatMap String.utf8EncodeChar).findIdx? (isSpecial quote) with
  | none => rfl
  | some i => simp only []; rw [first_special_is_boundary quote cs i h]; rfl

/-! ### encoders -/

/-- **no_panic (encoders)** — for every list of families of every metric type (UNTYPED included,
    since the F6 repair), with or without a failing writer, both encoders return Ok or Err -/
theorem encode_no_panic (k : EncKind) (wf : Bool) (fams : List Family) : (encodeOutcome k wf fams).isPanic = false := by
  induction fams with
  | nil => rfl
  | cons f r ih =>
    unfold encodeOutcome
    repeat (first | rfl | split)
    exact ih

/-- **refused_iff** — an encoder with a working writer refuses exactly when some family has no
    samples or no name (or, text only, is UNTYPED) -/
theorem encode_err_iff (k : EncKind) (fams : List Family) :
    encodeOutcome k false fams = .err ↔
      ∃ f ∈ fams, f.samples.isEmpty = true ∨ f.name.isEmpty = true ∨ (k = .text ∧ f.ty = .untyped) := by
  induction fams with
  | nil => simp [encodeOutcome]
  | cons f r ih =>
    unfold encodeOutcome
    by_cases h1 : f.samples.isEmpty = true
    · simp only [h1, if_true, true_iff]; exact ⟨f, by simp, Or.inl h1⟩
    · by_cases h2 : f.name.isEmpty = true
      · simp only [h1, h2, if_true, Bool.false_eq_true, if_false, true_iff]; exact ⟨f, by simp, Or.inr (Or.inl h2)⟩
      · by_cases h3 : k = EncKind.text ∧ f.ty = MType.untyped
        · rw [if_neg h1, if_neg h2, if_neg (by simp), if_pos h3]
          simp only [true_iff]
          exact ⟨f, by simp, Or.inr (Or.inr h3)⟩
        · simp only [h1, h2, h3, Bool.false_eq_true, if_false]
          rw [ih]
          constructor
          · rintro ⟨g, hg, hc⟩; exact ⟨g, by simp [hg], hc⟩
          · rintro ⟨g, hg, hc⟩
            rcases List.mem_cons.1 hg with rfl | hg
            · rcases hc with hc | hc | hc
              · exact absurd hc h1
              · exact absurd hc h2
              · exact absurd hc h3
            · exact ⟨g, hg, hc⟩

/-- non-vacuity -/
example : checkAndAdjustP [f64One] [f64One, 0x7FF8000000000000] = .err := by decide
example : (escapeSliceP "café\\menu".toList false).isPanic = false := escapeSliceP_no_panic _ _

end Prom.C17

namespace Prom.C17
open Prom
/-- generated-constant obligation: `DEFAULT_BUCKETS` (regenerated from src/histogram.rs) is
    non-empty — the hypothesis of `checkAndAdjustP_no_panic` — and itself an accepted list -/
theorem default_buckets_nonempty : Gen.defaultBuckets ≠ [] ∧ bucketsOk Gen.defaultBuckets = true := by
  decide
end Prom.C17
