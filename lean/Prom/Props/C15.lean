import Prom.Lemmas.Desc
/-
C15 — Descriptor identity is structural (up to collisions of the 64-bit FNV hash, as the
property says: statements are about the *bytes fed to the hasher*).
-/
namespace Prom.C15
open Prom

/-- **id_bytes_inj** — the bytes fed to the id hasher are equal exactly when the fully-qualified
    names are equal and the const-label values, taken in label-name order, are equal.
    (Hypothesis: strings are UTF-8, hence free of 0xFF — `utf8_noFF`.) -/
theorem id_bytes_inj (fq fq' : Str) (vs vs' : List Str)
    (h1 : NoFF fq) (h2 : NoFF fq') (h3 : ∀ v ∈ vs, NoFF v) (h4 : ∀ v ∈ vs', NoFF v) :
    idBytes fq vs = idBytes fq' vs' ↔ fq = fq' ∧ vs = vs' := by
  unfold idBytes
  rw [sepEnc_inj_iff]
  · simp
  · intro x hx; rcases List.mem_cons.1 hx with rfl | hx; exact h1; exact h3 x hx
  · intro x hx; rcases List.mem_cons.1 hx with rfl | hx; exact h2; exact h4 x hx

/-- **dim_bytes_inj** — the bytes fed to the dimension hasher are equal exactly when the help
    texts are equal and the sorted name lists (`const` names and `$`-prefixed variable names)
    are equal. -/
theorem dim_bytes_inj (help help' : Str) (ns ns' : List Str)
    (h1 : NoFF help) (h2 : NoFF help') (h3 : ∀ v ∈ ns, NoFF v) (h4 : ∀ v ∈ ns', NoFF v) :
    dimBytes help ns = dimBytes help' ns' ↔ help = help' ∧ ns = ns' := by
  unfold dimBytes
  rw [sepEnc_inj_iff]
  · simp
  · intro x hx; rcases List.mem_cons.1 hx with rfl | hx; exact h1; exact h3 x hx
  · intro x hx; rcases List.mem_cons.1 hx with rfl | hx; exact h2; exact h4 x hx

/-- every string the library can be given is UTF-8, and UTF-8 has no 0xFF byte: the
    hypotheses above hold for all Rust strings. -/
theorem all_strings_noFF (cs : List Char) : NoFF (cs.flatMap String.utf8EncodeChar) := utf8_noFF cs

/-- **boundary_shift_distinct** — moving a character across the boundary between the name and the
    first value (or between two values) changes the hashed bytes. -/
theorem boundary_shift_distinct (a b : Str) (c : UInt8) (rest : List Str)
    (ha : NoFF a) (hb : NoFF b) (hc : c ≠ 0xFF) (hr : ∀ v ∈ rest, NoFF v) :
    idBytes (a ++ [c]) (b :: rest) ≠ idBytes a ((c :: b) :: rest) := by
  intro h
  have hac : NoFF (a ++ [c]) := by
    intro x hx; rcases List.mem_append.1 hx with hx | hx
    · exact ha x hx
    · simp at hx; subst hx; exact hc
  have hcb : NoFF (c :: b) := by
    intro x hx; rcases List.mem_cons.1 hx with rfl | hx
    · exact hc
    · exact hb x hx
  have := (id_bytes_inj _ _ _ _ hac ha
    (by intro v hv; rcases List.mem_cons.1 hv with rfl | hv; exact hb; exact hr v hv)
    (by intro v hv; rcases List.mem_cons.1 hv with rfl | hv; exact hcb; exact hr v hv)).1 h
  have := congrArg List.length this.1
  simp at this

/-- the sorted name set built by `Desc::new` is sorted, and contains exactly the const names
    and the `$`-prefixed variable names: it is a function of the two *sets* of names. -/
theorem names_are_the_sets (vl : List Str) (cl : List (Str × Str)) (cn names : List Str)
    (hc : constNames cl [] = some cn) (hv : varNames vl cn = some names) :
    ∀ x, x ∈ names ↔ x ∈ cl.map (·.1) ∨ x ∈ vl.map (dollar :: ·) := by
  intro x
  rw [varNames_mem vl cn names hv x, constNames_mem cl [] cn hc x]
  simp

/-- const names and variable names cannot be confused in the dimension signature: a valid label
    name never starts with `$`. -/
theorem const_var_disjoint {n : Str} (h : isValidLabelName n = true) (m : Str) : n ≠ dollar :: m :=
  valid_not_dollar h m

/-- the pinned code before the F1 fix concatenated without a separator — that encoding is not
    injective (kept as a regression witness for what the separator buys). -/
example : (strOfString "ab" ++ strOfString "c") = (strOfString "a" ++ strOfString "bc") := by
  decide +kernel
example : sepEnc sep [strOfString "ab", strOfString "c"] ≠ sepEnc sep [strOfString "a", strOfString "bc"] := by
  decide +kernel

end Prom.C15
