import Prom.Lemmas.Desc
import Prom.Gen.Consts
/-
C15 — Descriptor identity is structural (up to collisions of the 64-bit FNV hash, as the
property says: statements are about the *bytes fed to the hasher*).
-/
namespace Prom.C15
open Prom

/-- **id_bytes_inj** — the bytes fed to the id hasher are equal exactly when the fully-qualified
    names are equal and the const-label values, taken in label-name order, are equal.
    (Hypothesis: strings are UTF-8, hence free of 0xFF — `utf8_noFF`.) -/
theorem id_bytes_inj (fq fq' : Str) (vs vs' : List Str)
    (h1 : NoFF fq) (h2 : NoFF fq') (h3 : ∀ v ∈ vs, NoFF v) (h4 : ∀ v ∈ vs', NoFF v) :
    idBytes fq vs = idBytes fq' vs' ↔ fq = fq' ∧ vs = vs' := by
  unfold idBytes
  rw [sepEnc_inj_iff]
  · simp
  · intro x hx; rcases List.mem_cons.1 hx with rfl | hx; exact h1; exact h3 x hx
  · intro x hx; rcases List.mem_cons.1 hx with rfl | hx; exact h2; exact h4 x hx

/-- **dim_bytes_inj** — the bytes fed to the dimension hasher are equal exactly when the help
    texts are equal and the sorted name lists (`const` names and `$`-prefixed variable names)
    are equal. -/
theorem dim_bytes_inj (help help' : Str) (ns ns' : List Str)
    (h1 : NoFF help) (h2 : NoFF help') (h3 : ∀ v ∈ ns, NoFF v) (h4 : ∀ v ∈ ns', NoFF v) :
    dimBytes help ns = dimBytes help' ns' ↔ help = help' ∧ ns = ns' := by
  unfold dimBytes
  rw [sepEnc_inj_iff]
  · simp
  · intro x hx; rcases List.mem_cons.1 hx with rfl | hx; exact h1; exact h3 x hx
  · intro x hx; rcases List.mem_cons.1 hx with rfl | hx; exact h2; exact h4 x hx

/-- every string the library can be given is UTF-8, and UTF-8 has no 0xFF byte: the
    hypotheses above hold for all Rust strings. -/
theorem all_strings_noFF (cs : List Char) : NoFF (cs.flatMap String.utf8EncodeChar) := utf8_noFF cs

/-- **boundary_shift_distinct** — moving a character across the boundary between the name and the
    first value (or between two values) changes the hashed bytes. -/
theorem boundary_shift_distinct (a b : Str) (c : UInt8) (rest : List Str)
    (ha : NoFF a) (hb : NoFF b) (hc : c ≠ 0xFF) (hr : ∀ v ∈ rest, NoFF v) :
    idBytes (a ++ [c]) (b :: rest) ≠ idBytes a ((c :: b) :: rest) := by
  intro h
  have hac : NoFF (a ++ [c]) := by
    intro x hx; rcases List.mem_append.1 hx with hx | hx
    · exact ha x hx
    · simp at hx; subst hx; exact hc
  have hcb : NoFF (c :: b) := by
    intro x hx; rcases List.mem_cons.1 hx with rfl | hx
    · exact hc
    · exact hb x hx
  have := (id_bytes_inj _ _ _ _ hac ha
    (by intro v hv; rcases List.mem_cons.1 hv with rfl | hv; exact hb; exact hr v hv)
    (by intro v hv; rcases List.mem_cons.1 hv with rfl | hv; exact hcb; exact hr v hv)).1 h
  have := congrArg List.length this.1
  simp at this

/-- the sorted name set built by `Desc::new` is sorted, and contains exactly the const names
    and the `$`-prefixed variable names: it is a function of the two *sets* of names. -/
theorem names_are_the_sets (vl : List Str) (cl : List (Str × Str)) (cn names : List Str)
    (hc : constNames cl [] = some cn) (hv : varNames vl cn = some names) :
    ∀ x, x ∈ names ↔ x ∈ cl.map (·.1) ∨ x ∈ vl.map (dollar :: ·) := by
  intro x
  rw [varNames_mem vl cn names hv x, constNames_mem cl [] cn hc x]
  simp

/-- const names and variable names cannot be confused in the dimension signature: a valid label
    name never starts with `$`. -/
theorem const_var_disjoint {n : Str} (h : isValidLabelName n = true) (m : Str) : n ≠ dollar :: m :=
  valid_not_dollar h m

/-- the pinned code before the F1 fix concatenated without a separator — that encoding is not
    injective (kept as a regression witness for what the separator buys). -/
example : (strOfString "ab" ++ strOfString "c") = (strOfString "a" ++ strOfString "bc") := by
  decide +kernel
example : sepEnc sep [strOfString "ab", strOfString "c"] ≠ sepEnc sep [strOfString "a", strOfString "bc"] := by
  decide +kernel

end Prom.C15

namespace Prom.C15
open Prom

/-- **order_free (const labels)** — `Desc::new` returns the *same descriptor* (id, dimension hash,
    sorted const-label pairs, everything) for every iteration order of the const-label map: the
    result depends on neither the insertion order nor the hash seed of the `HashMap`. -/
theorem order_free_const (fq help : Str) (vl : List Str) (cl cl' : List (Str × Str)) (hp : cl.Perm cl') :
    Desc.new fq help vl cl = Desc.new fq help vl cl' := by
  unfold Desc.new
  by_cases hh : help.isEmpty = true
  · simp [hh]
  · simp only [hh, Bool.false_eq_true, if_false]
    by_cases hm : isValidMetricName fq = true
    · simp only [hm, Bool.not_true, Bool.false_eq_true, if_false]
      rw [← constNames_perm_invariant cl cl' hp]
      cases hc : constNames cl [] with
      | none => rfl
      | some cn =>
        simp only []
        have hsome := (constNames_isSome_iff cl []).1 (by rw [hc]; rfl)
        have hnd : (cl.map (·.1)).Nodup := hsome.2.1
        cases hv : varNames vl cn with
        | none => rfl
        | some names =>
          simp only []
          have e1 : cn.map (lookup cl) = cn.map (lookup cl') := by
            apply List.map_congr_left
            intro k _
            exact lookup_perm_invariant hp hnd k
          have e2 : stableSortBy lpLe (cl.map fun p => (⟨p.1, p.2⟩ : LabelPair)) = stableSortBy lpLe (cl'.map fun p => (⟨p.1, p.2⟩ : LabelPair)) := by
            apply stableSortBy_perm_eq (le := lpLe)
            · intro a b c; exact strLe_trans _ _ _
            · intro a b; exact strLe_total _ _
            · exact hp.map _
            · intro a b ha hb h1 h2
              obtain ⟨p, hp1, rfl⟩ := List.mem_map.1 ha
              obtain ⟨q, hq1, rfl⟩ := List.mem_map.1 hb
              have hn : p.1 = q.1 := strLe_antisymm _ _ h1 h2
              have : p = q := eq_of_nodup_map (·.1) hnd hp1 hq1 hn
              rw [this]
          rw [e1, e2]
    · simp [hm]

/-- **order_free (variable labels)** — acceptance, identity and dimension signature do not depend on
    the order in which the variable labels are listed (the descriptor keeps the given order only in
    its `variable_labels` field) -/
theorem order_free_vars (fq help : Str) (vl vl' : List Str) (cl : List (Str × Str)) (hp : vl.Perm vl') :
    (Desc.new fq help vl cl).map (fun d => (d.id, d.dimHash, d.constPairs)) =
    (Desc.new fq help vl' cl).map (fun d => (d.id, d.dimHash, d.constPairs)) := by
  unfold Desc.new
  by_cases hh : help.isEmpty = true
  · simp [hh]
  · simp only [hh, Bool.false_eq_true, if_false]
    by_cases hm : isValidMetricName fq = true
    · simp only [hm, Bool.not_true, Bool.false_eq_true, if_false]
      cases hc : constNames cl [] with
      | none => rfl
      | some cn =>
        simp only []
        have hs := (constNames_sorted_perm cl [] cn hc List.Pairwise.nil).1
        rw [← varNames_perm_invariant vl vl' cn hp hs]
        cases hv : varNames vl cn with
        | none => rfl
        | some names => rfl
    · simp [hm]


/-- **generated_separator** — the separator byte the source defines NOW (`SEPARATOR_BYTE`, found by
    `translate/consts.py` wherever under `src/` it lives) is the model's separator 0xFF - the one byte
    value the injectivity theorems above rely on never occurring in UTF-8 text. -/
theorem generated_separator : Gen.separatorByte = sep := by decide

end Prom.C15
