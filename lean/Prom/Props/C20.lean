import Prom.Model.Macros
import Prom.Gen.MacroArms
/-
C20 — Registration macros are faithful shorthands for the explicit calls.
`Gen.macroTable` is regenerated from src/macros.rs on every run; the theorems are re-checked against
what the macros say now. Arguments are placeholders, so the equalities hold for all argument values.
-/
namespace Prom.C20
open Prom.Macros

/-- **arms_expand_to_spec** — every arm of every exported macro of the regenerated table accepts a
    trailing comma and, fully expanded (nested invocations resolved by arity / marker tokens), equals
    the explicit constructor call registered in the named or the default registry and mapped to the
    registered handle (`.map(|()| handle)`: `Err` iff the registration is refused). -/
theorem arms_expand_to_spec : allFaithful Gen.macroTable = true := by decide +kernel

/-- `labels!` inserts every given pair, in order, into a fresh map; trailing comma optional -/
theorem labels_macro_ok : labelsOk Gen.macroTable = true := by decide +kernel

/-- **arity_dispatch_total** — the public arities of every exported macro are exactly the specified
    ones: every arm has a specification (checked inside `allFaithful`), and there are 23 public macros.
    Hidden helper macros (`#[doc(hidden)]`: `__register_*`) are not public forms; how many of them the
    source uses is an implementation detail (they only have to be expandable, which `arms_expand_to_spec`
    checks through the public forms that invoke them), so their number is not part of the statement. -/
theorem macro_count : (Gen.macroTable.filter (·.exported)).length = 23 := by
  decide +kernel

/-- example of what the theorem says for one arm: the 5-argument form of
    `register_histogram_vec_with_registry!` passes the buckets to the options and registers in the
    given registry -/
example : meq 16 (expand Gen.macroTable 12 (.call "register_histogram_vec_with_registry" [v 0, v 1, v 2, v 3, v 4]))
    (.registerIn (v 4) (.construct (.ident "HistogramVec") [.setBuckets (.newHistOpts (v 0) (v 1)) (v 3), v 2])) = true := by
  decide +kernel

/-- `meq` is sound: it only accepts equal terms (so the checked equalities are real equalities) -/
theorem meq_var_sound (a b : String) (h : meq 1 (.var a) (.var b) = true) : a = b := by
  simpa [meq] using h

end Prom.C20
