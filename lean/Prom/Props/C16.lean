import Prom.Lemmas.C16Aux

namespace Prom.C16
open Prom Prom.DM
/-- every metric operation commutes with the abstraction -/
theorem metric_step (m : PMetric) (op : MetricOp) : absMetric (m.apply op) = (absMetric m).apply op := by
  cases op with
  | setLabel ls => rfl
  | takeLabel => rfl
  | setCounterValue v => rfl
  | setGaugeValue v => rfl
  | setHistogram c s bs =>
    simp only [PMetric.apply, QMetric.apply, absMetric, absHist, Option.getD_some, abs_mkBuckets]
  | setTimestamp t => rfl

theorem build_agree (ops : List MetricOp) : absMetric (buildP ops) = buildQ ops := by
  suffices H : ∀ (m : PMetric), absMetric (ops.foldl PMetric.apply m) = ops.foldl QMetric.apply (absMetric m) from H {}
  induction ops with
  | nil => intro m; rfl
  | cons op r ih => intro m; simp only [List.foldl_cons]; rw [ih, metric_step]

/-- every family operation commutes with the abstraction -/
theorem family_step (f : PFamily) (op : FamilyOp) : absFamily (f.apply op) = (absFamily f).apply op := by
  cases op with
  | setName v => rfl
  | setHelp v => rfl
  | setType t => rfl
  | setMetric ms =>
    simp only [PFamily.apply, QFamily.apply, absFamily, List.map_map]
    congr 1
    apply List.map_congr_left
    intro ops _
    exact build_agree ops
  | pushMetric ops =>
    simp only [PFamily.apply, QFamily.apply, absFamily, List.map_append, List.map_cons, List.map_nil, build_agree]
  | takeMetric => rfl

/-- **render_agree** — for every sequence of data-model calls, starting from `default()`, the
    protobuf-backed family reads exactly as the plain family: name, help, type, and for every metric
    its labels, counter / gauge value, histogram count, sum and buckets, and timestamp. Hence
    `gather()`'s structure and every value the text encoder prints are identical in both builds. -/
theorem render_agree (ops : List FamilyOp) :
    absFamily (ops.foldl PFamily.apply {}) = ops.foldl QFamily.apply {} := by
  suffices H : ∀ (f : PFamily), absFamily (ops.foldl PFamily.apply f) = ops.foldl QFamily.apply (absFamily f) from H {}
  induction ops with
  | nil => intro f; rfl
  | cons op r ih => intro f; simp only [List.foldl_cons]; rw [ih, family_step]

/-- the defaults agree: an untouched family reads as name "", help "", type COUNTER, no metrics -/
theorem defaults_agree : absFamily {} = ({} : QFamily) := rfl

/-- non-vacuity: a counter family built the way `Value::collect` builds it -/
example : absFamily (([.setName [109], .setHelp [104], .setType .gauge, .setMetric [[.setLabel [⟨some [97], some [49]⟩], .setGaugeValue 5]]] : List FamilyOp).foldl PFamily.apply {})
    = ([.setName [109], .setHelp [104], .setType .gauge, .setMetric [[.setLabel [⟨some [97], some [49]⟩], .setGaugeValue 5]]] : List FamilyOp).foldl QFamily.apply {} :=
  render_agree _

/-- **timestamp_read_agrees** — the timestamp both builds read back from a metric built by the same
    calls is the same number (`gather`'s tie-break between samples of equal label values reads it
    through `timestamp_ms()`, which exists in both data models) -/
theorem timestamp_read_agrees (ops : List MetricOp) :
    (buildP ops).timestampMs.getD 0 = (buildQ ops).timestampMs := by
  have h := build_agree ops
  have h2 := congrArg QMetric.timestampMs h
  simpa [absMetric] using h2

/-- **timestamp_presence_not_observable** — a timestamp explicitly set to 0 and one never set read
    alike: the protobuf-backed metric keeps the difference (`Some 0` vs `None`), the plain one cannot,
    and the abstraction both builds are compared through identifies them. Code that consults the
    presence bit (`has_timestamp_ms`) therefore does not factor through the common reading and may
    make the builds differ — the two-build scenario exercises exactly this pair. -/
theorem timestamp_presence_not_observable (m : PMetric) (h : m.timestampMs = none) :
    absMetric (m.apply (.setTimestamp 0)) = absMetric m ∧
      (m.apply (.setTimestamp 0)).timestampMs ≠ m.timestampMs ∧
      ((absMetric m).apply (.setTimestamp 0)) = absMetric m := by
  refine ⟨?_, ?_, ?_⟩
  · simp [absMetric, PMetric.apply, h]
  · simp [PMetric.apply, h]
  · simp [absMetric, QMetric.apply, h]

end Prom.C16
