import Prom.Lemmas.C18Aux

namespace Prom.C18
open Prom
theorem record_contributes_one (t : Timer) (h : TimerOk t) (ha : t.alive = true) :
    let (t1, d1) := t.observe true
    let (t2, d2) := t1.dropIt
    d1 + d2 = 1 ∧ TimerOk t2 ∧ t2.alive = false := by
  obtain ⟨hb, ho⟩ := h
  have hobs := ho ha
  cases hk : t.kind <;> simp [Timer.observe, Timer.dropIt, hk, hb, TimerOk]

theorem discard_contributes_nothing (t : Timer) (h : TimerOk t) (ha : t.alive = true) :
    let (t1, d1) := t.observe false
    let (t2, d2) := t1.dropIt
    d1 + d2 = 0 ∧ TimerOk t2 ∧ t2.alive = false := by
  obtain ⟨hb, ho⟩ := h
  simp [Timer.observe, Timer.dropIt, hb, TimerOk]

theorem drop_contributes_one (t : Timer) (h : TimerOk t) (ha : t.alive = true) :
    (t.dropIt).2 = 1 ∧ TimerOk (t.dropIt).1 ∧ (t.dropIt).1.alive = false := by
  obtain ⟨hb, ho⟩ := h
  have hobs := ho ha
  cases hk : t.kind <;> simp [Timer.observe, Timer.dropIt, hk, hb, hobs, TimerOk]

theorem step_inv (w : TW) (op : TOp) (h : TInv w) : TInv (w.step op) := by
  obtain ⟨hs, ht⟩ := h
  cases op with
  | start k =>
    refine ⟨hs, ?_⟩
    intro t hm
    simp only [TW.step, List.mem_append, List.mem_singleton] at hm
    rcases hm with hm | rfl
    · exact ht t hm
    · exact ⟨rfl, fun _ => rfl⟩
  | closure => exact ⟨by simp only [TW.step]; omega, ht⟩
  | pobs => exact ⟨by simp only [TW.step]; omega, ht⟩
  | pflush => exact ⟨by simp only [TW.step]; omega, ht⟩
  | record i =>
    simp only [TW.step, TW.withTimer]
    cases hl : w.timers[i]? with
    | none => exact ⟨hs, ht⟩
    | some t =>
      simp only []
      by_cases ha : t.alive = true
      · simp only [ha, if_true]
        have := record_contributes_one t (ht t (List.mem_of_getElem? hl)) ha
        simp only [] at this
        refine ⟨by simp only []; omega, set_ok ht this.2.1⟩
      · simp only [ha]; exact ⟨hs, ht⟩
  | discard i =>
    simp only [TW.step, TW.withTimer]
    cases hl : w.timers[i]? with
    | none => exact ⟨hs, ht⟩
    | some t =>
      simp only []
      by_cases ha : t.alive = true
      · simp only [ha, if_true]
        have := discard_contributes_nothing t (ht t (List.mem_of_getElem? hl)) ha
        simp only [] at this
        refine ⟨by simp only [Bool.false_eq_true, if_false]; omega, set_ok ht this.2.1⟩
      · simp only [ha]; exact ⟨hs, ht⟩
  | drop i =>
    simp only [TW.step, TW.withTimer]
    cases hl : w.timers[i]? with
    | none => exact ⟨hs, ht⟩
    | some t =>
      simp only []
      by_cases ha : t.alive = true
      · simp only [ha, if_true]
        have := drop_contributes_one t (ht t (List.mem_of_getElem? hl)) ha
        refine ⟨by simp only []; omega, set_ok ht this.2.1⟩
      · simp only [ha]; exact ⟨hs, ht⟩

/-- **timer_contribution** — over any history over any number of shared and local timers: the
    histogram holds exactly one observation per timer ended by record / observe_duration / plain
    drop, none for discarded or still-running timers, and one per `observe_closure_duration`
    (`direct` = plain observations made on the parent local histogram, `parent` = those not yet flushed). -/
theorem timer_contribution (ops : List TOp) :
    let w := ops.foldl TW.step {}
    w.shared + w.parent = w.ended + w.closures + w.direct := by
  suffices H : ∀ w, TInv w → TInv (ops.foldl TW.step w) from
    (H {} ⟨rfl, by intro t ht; cases ht⟩).1
  induction ops with
  | nil => intro w h; exact h
  | cons op r ih => intro w h; exact ih _ (step_inv w op h)

/-- a timer can end only once: any stop/drop of an ended timer changes nothing -/
theorem ended_timer_inert (w : TW) (i : Nat) (t : Timer) (hl : w.timers[i]? = some t) (ha : t.alive = false) :
    w.step (.record i) = w ∧ w.step (.discard i) = w ∧ w.step (.drop i) = w := by
  simp [TW.step, TW.withTimer, hl, ha]

theorem parent_untouched (w : TW) (op : TOp) (h1 : op ≠ .pobs) (h2 : op ≠ .pflush) : (w.step op).parent = w.parent := by
  cases op with
  | start k => rfl
  | closure => rfl
  | pobs => exact absurd rfl h1
  | pflush => exact absurd rfl h2
  | record i => exact withTimer_parent _ _ _ _
  | discard i => exact withTimer_parent _ _ _ _
  | drop i => exact withTimer_parent _ _ _ _

/-- non-vacuity: two shared timers (one recorded, one discarded), a local timer dropped, a closure -/
example : (([.start .shared, .start .shared, .start .local, .record 0, .discard 1, .drop 2, .closure, .drop 0, .pobs, .start .local, .drop 3, .pflush] : List TOp).foldl TW.step {}).shared = 5 := by
  decide

end Prom.C18
