import Prom.Lemmas.C18Aux

namespace Prom.C18
open Prom
/-- a live timer (shared or local) stopped with record and then dropped delivers exactly one
    observation in total (`d1` at the record, `d2` at the drop) and ends well-formed -/
theorem record_contributes_one (t : Timer) (h : TimerOk t) (ha : t.alive = true) :
    let (t1, d1) := t.observe true
    let (t2, d2) := t1.dropIt
    d1 + d2 = 1 ∧ TimerOk t2 ∧ t2.alive = false := by
  obtain ⟨hb, ho⟩ := h
  have hobs := ho ha
  cases hk : t.kind <;> simp [Timer.observe, Timer.dropIt, hk, hb, TimerOk]

/-- a live timer stopped with discard and then dropped delivers nothing and ends well-formed -/
theorem discard_contributes_nothing (t : Timer) (h : TimerOk t) (ha : t.alive = true) :
    let (t1, d1) := t.observe false
    let (t2, d2) := t1.dropIt
    d1 + d2 = 0 ∧ TimerOk t2 ∧ t2.alive = false := by
  obtain ⟨hb, ho⟩ := h
  simp [Timer.observe, Timer.dropIt, hb, TimerOk]

/-- a live timer that is simply dropped delivers exactly one observation and ends well-formed -/
theorem drop_contributes_one (t : Timer) (h : TimerOk t) (ha : t.alive = true) :
    (t.dropIt).2 = 1 ∧ TimerOk (t.dropIt).1 ∧ (t.dropIt).1.alive = false := by
  obtain ⟨hb, ho⟩ := h
  have hobs := ho ha
  cases hk : t.kind <;> simp [Timer.observe, Timer.dropIt, hk, hb, hobs, TimerOk]

/-- every operation preserves the invariant `TInv` (the count equation and `TimerOk` of every timer) -/
theorem step_inv (w : TW) (op : TOp) (h : TInv w) : TInv (w.step op) := by
  obtain ⟨hs, ht⟩ := h
  cases op with
  | start k =>
    refine ⟨hs, ?_⟩
    intro t hm
    simp only [TW.step, List.mem_append, List.mem_singleton] at hm
    rcases hm with hm | rfl
    · exact ht t hm
    · exact ⟨rfl, fun _ => rfl⟩
  | closure => exact ⟨by simp only [TW.step]; omega, ht⟩
  | pobs => exact ⟨by simp only [TW.step]; omega, ht⟩
  | pflush => exact ⟨by simp only [TW.step]; omega, ht⟩
  | record i =>
    simp only [TW.step, TW.withTimer]
    cases hl : w.timers[i]? with
    | none => exact ⟨hs, ht⟩
    | some t =>
      simp only []
      by_cases ha : t.alive = true
      · simp only [ha, if_true]
        have := record_contributes_one t (ht t (List.mem_of_getElem? hl)) ha
        simp only [] at this
        refine ⟨by simp only []; omega, set_ok ht this.2.1⟩
      · simp only [ha]; exact ⟨hs, ht⟩
  | discard i =>
    simp only [TW.step, TW.withTimer]
    cases hl : w.timers[i]? with
    | none => exact ⟨hs, ht⟩
    | some t =>
      simp only []
      by_cases ha : t.alive = true
      · simp only [ha, if_true]
        have := discard_contributes_nothing t (ht t (List.mem_of_getElem? hl)) ha
        simp only [] at this
        refine ⟨by simp only [Bool.false_eq_true, if_false]; omega, set_ok ht this.2.1⟩
      · simp only [ha]; exact ⟨hs, ht⟩
  | drop i =>
    simp only [TW.step, TW.withTimer]
    cases hl : w.timers[i]? with
    | none => exact ⟨hs, ht⟩
    | some t =>
      simp only []
      by_cases ha : t.alive = true
      · simp only [ha, if_true]
        have := drop_contributes_one t (ht t (List.mem_of_getElem? hl)) ha
        refine ⟨by simp only []; omega, set_ok ht this.2.1⟩
      · simp only [ha]; exact ⟨hs, ht⟩

/-- **timer_contribution** — over any history over any number of shared and local timers: the
    histogram holds exactly one observation per timer ended by record / observe_duration / plain
    drop, none for discarded or still-running timers, and one per `observe_closure_duration`
    (`direct` = plain observations made on the parent local histogram, `parent` = those not yet flushed). -/
theorem timer_contribution (ops : List TOp) :
    let w := ops.foldl TW.step {}
    w.shared + w.parent = w.ended + w.closures + w.direct := by
  suffices H : ∀ w, TInv w → TInv (ops.foldl TW.step w) from
    (H {} ⟨rfl, by intro t ht; cases ht⟩).1
  induction ops with
  | nil => intro w h; exact h
  | cons op r ih => intro w h; exact ih _ (step_inv w op h)

/-- a timer can end only once: any stop/drop of an ended timer changes nothing -/
theorem ended_timer_inert (w : TW) (i : Nat) (t : Timer) (hl : w.timers[i]? = some t) (ha : t.alive = false) :
    w.step (.record i) = w ∧ w.step (.discard i) = w ∧ w.step (.drop i) = w := by
  simp [TW.step, TW.withTimer, hl, ha]

/-- no timer operation (nor a closure) changes the parent local histogram -/
theorem parent_untouched (w : TW) (op : TOp) (h1 : op ≠ .pobs) (h2 : op ≠ .pflush) : (w.step op).parent = w.parent := by
  cases op with
  | start k => rfl
  | closure => rfl
  | pobs => exact absurd rfl h1
  | pflush => exact absurd rfl h2
  | record i => exact withTimer_parent _ _ _ _
  | discard i => exact withTimer_parent _ _ _ _
  | drop i => exact withTimer_parent _ _ _ _

/-- every reachable world satisfies the invariant; in particular every timer of a reachable world
    is `TimerOk` (nothing buffered; not yet observed while alive), the hypothesis of the per-timer
    theorems below -/
theorem reachable_inv (ops : List TOp) : TInv (ops.foldl TW.step {}) := by
  suffices H : ∀ w, TInv w → TInv (ops.foldl TW.step w) from
    H {} ⟨rfl, by intro t ht; cases ht⟩
  induction ops with
  | nil => intro w h; exact h
  | cons op r ih => intro w h; exact ih _ (step_inv w op h)

/-- **closure_contributes_one** — `observe_closure_duration` adds exactly one observation to the
    shared histogram; it creates, ends and changes no timer, and touches neither the parent local
    histogram nor the other counters of the world (only the ghost count of closures).
    (The closure's return value is not part of this model: only the number of observations is.) -/
theorem closure_contributes_one (w : TW) :
    (w.step .closure).shared = w.shared + 1 ∧
    (w.step .closure).timers = w.timers ∧
    (w.step .closure).parent = w.parent ∧
    (w.step .closure).ended = w.ended ∧
    (w.step .closure).direct = w.direct ∧
    (w.step .closure).closures = w.closures + 1 :=
  ⟨rfl, rfl, rfl, rfl, rfl, rfl⟩

/-- for a LOCAL timer the recording itself delivers nothing to the shared histogram: the
    observation is buffered in the timer's private clone (`buf`), and it is the drop of the timer
    (which drops, hence flushes, that clone) that delivers exactly that one observation -/
theorem local_record_buffers_then_drop_flushes (t : Timer) (h : TimerOk t) (hk : t.kind = .local) :
    (t.observe true).2 = 0 ∧ (t.observe true).1.buf = 1 ∧
    ((t.observe true).1.dropIt).2 = 1 ∧ ((t.observe true).1.dropIt).1.buf = 0 ∧
    ((t.observe true).1.dropIt).1.alive = false := by
  obtain ⟨hb, _⟩ := h
  simp [Timer.observe, Timer.dropIt, hk, hb]

/-- **local_timer_reaches_shared** — a live LOCAL timer that is stopped with record
    (`observe_duration` / `stop_and_record`: the model's `.record i` is the record followed by the
    drop of the consumed timer) increases the shared histogram by exactly one and leaves the parent
    local histogram unchanged; a live local timer that is only dropped (`.drop i`) likewise.
    Afterwards the timer is ended with nothing buffered, and no other timer changed. -/
theorem local_timer_reaches_shared (w : TW) (i : Nat) (t : Timer) (hl : w.timers[i]? = some t)
    (hk : t.kind = .local) (ha : t.alive = true) (h : TimerOk t) :
    ((w.step (.record i)).shared = w.shared + 1 ∧ (w.step (.record i)).parent = w.parent ∧
      (w.step (.record i)).timers = w.timers.set i { t with observed := true, buf := 0, alive := false }) ∧
    ((w.step (.drop i)).shared = w.shared + 1 ∧ (w.step (.drop i)).parent = w.parent ∧
      (w.step (.drop i)).timers = w.timers.set i { t with observed := true, buf := 0, alive := false }) := by
  obtain ⟨hb, ho⟩ := h
  have hobs := ho ha
  simp [TW.step, TW.withTimer, hl, ha, Timer.observe, Timer.dropIt, hk, hb, hobs]

/-- the same for the timers of any reachable world (no well-formedness hypothesis needed) -/
theorem local_timer_reaches_shared_reachable (ops : List TOp) (i : Nat) (t : Timer)
    (hl : (ops.foldl TW.step {}).timers[i]? = some t) (hk : t.kind = .local) (ha : t.alive = true) :
    let w := ops.foldl TW.step {}
    ((w.step (.record i)).shared = w.shared + 1 ∧ (w.step (.record i)).parent = w.parent) ∧
    ((w.step (.drop i)).shared = w.shared + 1 ∧ (w.step (.drop i)).parent = w.parent) := by
  intro w
  have hok : TimerOk t := (reachable_inv ops).2 t (List.mem_of_getElem? hl)
  obtain ⟨⟨a, b, _⟩, ⟨c, d, _⟩⟩ := local_timer_reaches_shared w i t hl hk ha hok
  exact ⟨⟨a, b⟩, ⟨c, d⟩⟩

/-- **discarded_then_dropped_contributes_nothing** — a live timer of either kind stopped with
    `stop_and_discard` (the model's `.discard i` = observe without recording, then the drop of the
    consumed timer) adds nothing to the shared histogram, leaves the parent unchanged and is not
    counted as ended; the timer is then ended with nothing buffered, so dropping it (again), or any
    later stop, changes nothing at all. -/
theorem discarded_then_dropped_contributes_nothing (w : TW) (i : Nat) (t : Timer)
    (hl : w.timers[i]? = some t) (ha : t.alive = true) (h : TimerOk t) :
    (w.step (.discard i)).shared = w.shared ∧ (w.step (.discard i)).parent = w.parent ∧
    (w.step (.discard i)).ended = w.ended ∧
    (w.step (.discard i)).timers = w.timers.set i { t with observed := true, buf := 0, alive := false } ∧
    (w.step (.discard i)).step (.drop i) = w.step (.discard i) ∧
    (w.step (.discard i)).step (.record i) = w.step (.discard i) := by
  obtain ⟨hb, _⟩ := h
  have hlt : i < w.timers.length := by
    rcases Nat.lt_or_ge i w.timers.length with h' | h'
    · exact h'
    · rw [List.getElem?_eq_none_iff.2 h'] at hl; cases hl
  have hstep : w.step (.discard i) =
      { w with timers := w.timers.set i { t with observed := true, buf := 0, alive := false } } := by
    simp [TW.step, TW.withTimer, hl, ha, Timer.observe, Timer.dropIt, hb]
  have hl' : (w.step (.discard i)).timers[i]? = some { t with observed := true, buf := 0, alive := false } := by
    rw [hstep]; simp [hlt]
  have hin := ended_timer_inert (w.step (.discard i)) i _ hl' rfl
  refine ⟨by rw [hstep], by rw [hstep], by rw [hstep], by rw [hstep], hin.2.2, hin.1⟩

/-- at the level of one timer: observing without recording and then dropping delivers nothing,
    for a shared and for a local timer alike — the drop does not record because the timer is
    already marked observed, and there is nothing buffered to flush -/
theorem discard_then_drop_delivers_nothing (t : Timer) (h : TimerOk t) :
    (t.observe false).2 = 0 ∧ ((t.observe false).1.dropIt).2 = 0 ∧
    ((t.observe false).1.dropIt).1.alive = false := by
  obtain ⟨hb, _⟩ := h
  simp [Timer.observe, Timer.dropIt, hb]

/-- non-vacuity: two shared timers (one recorded, one discarded), a local timer dropped, a closure -/
example : (([.start .shared, .start .shared, .start .local, .record 0, .discard 1, .drop 2, .closure, .drop 0, .pobs, .start .local, .drop 3, .pflush] : List TOp).foldl TW.step {}).shared = 5 := by
  decide

/-- non-vacuity for the local-timer theorems: a local timer recorded (index 0), one only dropped
    (1), one discarded and dropped again (2), a closure: three observations, parent untouched -/
example : (([.start .local, .start .local, .start .local, .record 0, .drop 1, .discard 2, .drop 2, .closure] : List TOp).foldl TW.step {}).shared = 3
    ∧ (([.start .local, .start .local, .start .local, .record 0, .drop 1, .discard 2, .drop 2, .closure] : List TOp).foldl TW.step {}).parent = 0 := by
  decide

end Prom.C18
