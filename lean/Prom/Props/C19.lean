import Prom.Model.StaticMetric
import Prom.Lemmas.C19Flush
/-
C19 — static-metric accessors address exactly the declared label values.
For ALL declarations (any number of labels and values) and all orders of the backing vector's names.
Aliases (two field names with one value) address one child (`alias_same_child`); the generated
`flush()` of the local / auto-flush flavours delivers every update made through every field path,
aliases included (`flush_delivers`, `flush_idempotent`; model `Prom/Model/StaticFlush.lean`), and a
flush that skipped alias fields would not (`flush_skipping_aliases_loses`).
-/
namespace Prom.C19
open Prom Prom.SM

/-- the value a field denotes at a level -/
def valueOf (l : LabelDef) (f : Str) : Option Str := (l.values.find? (·.1 == f)).map (·.2)

/-- **path_resolves** — the field path `f1.….fn` denotes exactly the child whose label map is
    `{key_i ↦ value_i(f_i)}`, in declaration order after the enclosing values; an undeclared field
    or a path of the wrong length denotes nothing -/
theorem path_resolves : ∀ (d : Decl) (prev : List (Str × Str)) (path : List Str) (m : List (Str × Str)),
    resolve d prev path = some m ↔
      ∃ vs : List Str, d.length = path.length ∧ vs.length = d.length ∧
        (∀ i (h : i < d.length) (hp : i < path.length) (hv : i < vs.length), valueOf d[i] path[i] = some vs[i]) ∧
        m = prev ++ (d.map (·.key)).zip vs := by
  intro d
  induction d with
  | nil =>
    intro prev path m
    cases path with
    | nil =>
      simp only [resolve, Option.some.injEq]
      constructor
      · intro h; exact ⟨[], rfl, rfl, by intro i h; simp at h, by simp [h]⟩
      · rintro ⟨vs, _, hl, _, hm⟩
        have : vs = [] := List.eq_nil_of_length_eq_zero hl
        subst this; simp at hm; exact hm.symm
    | cons f fs =>
      simp only [resolve]
      constructor
      · intro h; cases h
      · rintro ⟨vs, hl, _⟩; simp at hl
  | cons l ls ih =>
    intro prev path m
    cases path with
    | nil =>
      simp only [resolve]
      constructor
      · intro h; cases h
      · rintro ⟨vs, hl, _⟩; simp at hl
    | cons f fs =>
      simp only [resolve]
      cases hf : l.values.find? (·.1 == f) with
      | none =>
        simp only []
        constructor
        · intro h; cases h
        · rintro ⟨vs, hl, hvl, hall, _⟩
          have := hall 0 (by simp) (by simp) (by rw [hvl]; simp)
          simp [valueOf, hf] at this
      | some p =>
        obtain ⟨pf, pv⟩ := p
        simp only []
        rw [ih]
        constructor
        · rintro ⟨vs, hl, hvl, hall, hm⟩
          refine ⟨pv :: vs, by simp [hl], by simp [hvl], ?_, ?_⟩
          · intro i hi hp hv
            cases i with
            | zero => simp [valueOf, hf]
            | succ i =>
              simp only [List.getElem_cons_succ]
              exact hall i (by simpa using hi) (by simpa using hp) (by simpa using hv)
          · simp [hm, List.append_assoc]
        · rintro ⟨vs, hl, hvl, hall, hm⟩
          cases vs with
          | nil => simp at hvl
          | cons v0 vs =>
            have h0 := hall 0 (by simp) (by simp) (by simp)
            simp [valueOf, hf] at h0
            subst h0
            refine ⟨vs, by simpa using hl, by simpa using hvl, ?_, ?_⟩
            · intro i hi hp hv
              have := hall (i + 1) (by simp; omega) (by simp; omega) (by simp; omega)
              simpa using this
            · simp [hm, List.append_assoc]

/-- **try_get_some_iff_declared** — `try_get(s)` is `Some` exactly for a declared value string, and
    then it is a field carrying that value -/
theorem try_get_some_iff_declared (l : LabelDef) (s : Str) :
    (tryGetField l s).isSome = true ↔ s ∈ l.values.map (·.2) := by
  unfold tryGetField
  rw [Option.isSome_map, List.find?_isSome]
  constructor
  · rintro ⟨p, hp, he⟩; exact List.mem_map.2 ⟨p, hp, by simpa using he⟩
  · intro h; obtain ⟨p, hp, he⟩ := List.mem_map.1 h; exact ⟨p, hp, by simp [he]⟩

theorem try_get_field_has_value (l : LabelDef) (s f : Str) (h : tryGetField l s = some f) :
    ∃ p ∈ l.values, p.1 = f ∧ p.2 = s := by
  unfold tryGetField at h
  cases hf : l.values.find? (·.2 == s) with
  | none => rw [hf] at h; cases h
  | some p =>
    rw [hf] at h
    simp at h
    have hm := List.mem_of_find?_eq_some hf
    have hp := List.find?_some hf
    exact ⟨p, hm, h, by simpa using hp⟩

/-- **get_enum_eq_field** — `get(variant)` is the field of that name -/
theorem get_enum_eq_field (l : LabelDef) (variant f : Str) (h : getField l variant = some f) : f = variant := by
  unfold getField at h
  cases hf : l.values.find? (·.1 == variant) with
  | none => rw [hf] at h; cases h
  | some p =>
    rw [hf] at h
    simp at h
    have hp := List.find?_some hf
    simp at hp
    rw [← h, hp]

/-- the child a label map denotes does not depend on the order in which the map lists its entries
    (the vector looks every declared name up), as long as keys are unique -/
theorem child_independent_of_map_order (backing : List Str) (m m' : List (Str × Str))
    (h : ∀ n ∈ backing, (m.find? (·.1 == n)).map (·.2) = (m'.find? (·.1 == n)).map (·.2)) :
    childValues backing m = childValues backing m' := by
  unfold childValues
  induction backing with
  | nil => rfl
  | cons a t ih =>
    simp only [List.mapM_cons]
    rw [h a (by simp), ih (fun n hn => h n (by simp [hn]))]

/-- **delegator_address** — the sum of the recorded field offsets is the address of the nested leaf
    in the inline thread-local struct -/
theorem delegator_address (base : Nat) (offsets : List Nat) :
    delegatorAddress base offsets = leafAddress base offsets := by
  induction offsets generalizing base with
  | nil => simp [delegatorAddress, leafAddress]
  | cons o r ih =>
    have := ih (base + o)
    simp only [delegatorAddress, leafAddress, List.sum_cons] at this ⊢
    omega

/-- non-vacuity: a 3-label declaration with a renamed value; the path post.v2.foo -/
def d3 : Decl := [⟨[109], [([112], [112]), ([103], [103])]⟩, ⟨[118], [([49], [72, 49]), ([50], [72, 50])]⟩, ⟨[112], [([102], [102])]⟩]
example : resolve d3 [] [[112], [50], [102]] = some [([109], [112]), ([118], [72, 50]), ([112], [102])] := by decide

/-! ### aliases: several field names carrying one value -/

/-- one level: two field names with the same declared value (or both undeclared) can be exchanged at
    the head of a path without changing what the path resolves to -/
theorem resolve_head_alias (l : LabelDef) (ls : Decl) (prev : List (Str × Str)) (f g : Str) (fs : List Str)
    (h : valueOf l f = valueOf l g) :
    resolve (l :: ls) prev (f :: fs) = resolve (l :: ls) prev (g :: fs) := by
  simp only [resolve]
  unfold valueOf at h
  cases hf : l.values.find? (·.1 == f) with
  | none =>
    cases hg : l.values.find? (·.1 == g) with
    | none => rfl
    | some b => rw [hf, hg] at h; simp at h
  | some a =>
    cases hg : l.values.find? (·.1 == g) with
    | none => rw [hf, hg] at h; simp at h
    | some b =>
      obtain ⟨af, av⟩ := a
      obtain ⟨bf, bv⟩ := b
      rw [hf, hg] at h
      simp only [Option.map_some, Option.some.injEq] at h
      subst h
      rfl

/-- **alias_same_child** — two field paths that differ only in field names that map to equal values
    (level by level `valueOf d[i] p[i] = valueOf d[i] q[i]`; the field names themselves may all differ)
    resolve to the same label map — the same `Option`: either both denote nothing or both denote the
    same child -/
theorem alias_same_child : ∀ (d : Decl) (prev : List (Str × Str)) (p q : List Str),
    p.length = q.length →
    (∀ i (hd : i < d.length) (hp : i < p.length) (hq : i < q.length), valueOf d[i] p[i] = valueOf d[i] q[i]) →
    resolve d prev p = resolve d prev q := by
  intro d
  induction d with
  | nil =>
    intro prev p q hlen _
    cases p with
    | nil =>
      cases q with
      | nil => rfl
      | cons g gs => simp at hlen
    | cons f fs =>
      cases q with
      | nil => simp at hlen
      | cons g gs => simp [resolve]
  | cons l ls ih =>
    intro prev p q hlen h
    cases p with
    | nil =>
      cases q with
      | nil => rfl
      | cons g gs => simp at hlen
    | cons f fs =>
      cases q with
      | nil => simp at hlen
      | cons g gs =>
        have h0 : valueOf l f = valueOf l g := h 0 (by simp) (by simp) (by simp)
        rw [resolve_head_alias l ls prev f g fs h0]
        simp only [resolve]
        cases hg : l.values.find? (·.1 == g) with
        | none => rfl
        | some b =>
          obtain ⟨bf, bv⟩ := b
          refine ih _ fs gs (by simpa using hlen) ?_
          intro i hd hp hq
          have := h (i + 1) (by simp; omega) (by simp; omega) (by simp; omega)
          simpa using this

/-- hence the same child of the backing vector, whatever the order of the vector's label names -/
theorem alias_same_child_values (backing : List Str) (d : Decl) (prev : List (Str × Str)) (p q : List Str)
    (hlen : p.length = q.length)
    (h : ∀ i (hd : i < d.length) (hp : i < p.length) (hq : i < q.length), valueOf d[i] p[i] = valueOf d[i] q[i]) :
    (resolve d prev p).bind (childValues backing) = (resolve d prev q).bind (childValues backing) := by
  rw [alias_same_child d prev p q hlen h]

/-- the usual case spelled out: under ONE label `l` (anywhere in the declaration) two fields `f`, `g`
    declared with the same value — the paths `a.f.b` and `a.g.b` address the same child -/
theorem alias_one_label (pre : Decl) (l : LabelDef) (post : Decl) (prev : List (Str × Str))
    (a : List Str) (f g : Str) (b : List Str) (ha : a.length = pre.length)
    (h : valueOf l f = valueOf l g) :
    resolve (pre ++ l :: post) prev (a ++ f :: b) = resolve (pre ++ l :: post) prev (a ++ g :: b) := by
  induction pre generalizing prev a with
  | nil =>
    have : a = [] := List.eq_nil_of_length_eq_zero ha
    subst this
    exact resolve_head_alias l post prev f g b h
  | cons x pre ih =>
    cases a with
    | nil => simp at ha
    | cons y a =>
      simp only [List.cons_append, resolve]
      cases hy : x.values.find? (·.1 == y) with
      | none => rfl
      | some c =>
        obtain ⟨cf, cv⟩ := c
        exact ih _ a (by simpa using ha)

/-- in the generated local struct tree the two alias paths are DIFFERENT leaves (own pending amounts)
    created from the SAME child -/
theorem alias_leaves_same_child (d : Decl) (p q : List Str) (hlen : p.length = q.length)
    (h : ∀ i (hd : i < d.length) (hp : i < p.length) (hq : i < q.length), valueOf d[i] p[i] = valueOf d[i] q[i]) :
    denotes (buildLeaves d []) p = denotes (buildLeaves d []) q := by
  rw [denotes_buildLeaves, denotes_buildLeaves, alias_same_child d [] p q hlen h]

/-! ### flush of the local / auto-flush flavours -/

/-- **leaf_child_eq_resolve** — the leaf a field path reaches in the tree built by `from` holds the
    local metric of exactly the child `resolve` computes; undeclared paths reach nothing -/
theorem leaf_child_eq_resolve (d : Decl) (p : List Str) :
    denotes (buildLeaves d []) p = resolve d [] p := denotes_buildLeaves d [] p

/-- an `inc` through a path stays in the leaf: the shared vector is untouched until a flush -/
theorem inc_keeps_store (t : LocalTree) (p : List Str) (n : Nat) : (t.incBy p n).store = t.store := rfl

/-- **conservation** — at every moment (any interleaving of `inc`s through any paths and `flush`es),
    for every child: its value plus the pending amounts of all the leaves over it (aliases included)
    is its initial value plus everything `inc`ed through paths that denote it -/
theorem conservation (d : Decl) (st0 : Child → Nat) (ops : List TOp) (c : Child) :
    ((LocalTree.init d st0).run ops).store c + pendingFor ((LocalTree.init d st0).run ops).leaves c
      = st0 c + delivered d c ops := by
  have := (run_conserves d ops (LocalTree.init d st0) c (fun p => denotes_buildLeaves d [] p)).2
  rw [this]
  simp only [LocalTree.init, pendingFor_zero _ c (buildLeaves_pending d [])]
  omega

/-- **flush_delivers** — for any declaration and any sequence of operations (`inc`s through any field
    paths, with intermediate flushes allowed) followed by one `flush()`: every child's value is its
    initial value plus the amounts `inc`ed through the field paths that denote it (`delivered`: the
    paths `p` with `resolve d [] p = some c` — all aliases count), and every leaf's pending amount
    is zero -/
theorem flush_delivers (d : Decl) (st0 : Child → Nat) (ops : List TOp) :
    (∀ c, (((LocalTree.init d st0).run ops).flush).store c = st0 c + delivered d c ops) ∧
    (∀ lf ∈ (((LocalTree.init d st0).run ops).flush).leaves, lf.pending = 0) := by
  refine ⟨fun c => ?_, ?_⟩
  · simp only [LocalTree.flush, flushStore_apply]
    exact conservation d st0 ops c
  · exact zeroed_pending _

theorem delivered_incs (d : Decl) (c : Child) (ps : List (List Str)) :
    delivered d c (ps.map fun p => TOp.inc p 1) = ps.countP (fun p => decide (resolve d [] p = some c)) := by
  induction ps with
  | nil => rfl
  | cons p r ih =>
    simp only [List.map_cons, delivered, ih, List.countP_cons, decide_eq_true_eq]
    omega

/-- **flush_delivers_count** — the form of the property text: after `inc`s through the paths `ps`
    (in that order, any paths) and one `flush()`, starting from a fresh vector, the value of every child
    is the NUMBER of `inc`s made through paths that denote it, and nothing is pending -/
theorem flush_delivers_count (d : Decl) (ps : List (List Str)) :
    (∀ c, (((LocalTree.init d (fun _ => 0)).run (ps.map fun p => TOp.inc p 1)).flush).store c
        = ps.countP (fun p => decide (resolve d [] p = some c))) ∧
    (∀ lf ∈ (((LocalTree.init d (fun _ => 0)).run (ps.map fun p => TOp.inc p 1)).flush).leaves, lf.pending = 0) := by
  obtain ⟨h1, h2⟩ := flush_delivers d (fun _ => 0) (ps.map fun p => TOp.inc p 1)
  refine ⟨fun c => ?_, h2⟩
  rw [h1 c, delivered_incs]
  omega

/-- **flush_idempotent** — a second `flush()` changes nothing (neither the vector nor the tree) -/
theorem flush_idempotent (t : LocalTree) : t.flush.flush = t.flush := by
  show LocalTree.mk _ _ = LocalTree.mk _ _
  congr 1
  · funext c
    simp only [LocalTree.flush]
    rw [flushStore_apply, pendingFor_zero _ c (zeroed_pending _)]
    rfl
  · simp only [LocalTree.flush, List.map_map]
    rfl

/-- label `k { a: "x", b: "x" }`: fields `a` and `b` are aliases of the child `{k ↦ x}` -/
def dAlias : Decl := [⟨[107], [([97], [120]), ([98], [120])]⟩]

/-- **flush_skipping_aliases_loses** — a generated flush that visited only the first field per distinct
    value (enough to reach every CHILD) would lose updates: with `k { a: "x", b: "x" }`, one `inc`
    through the alias `b` and a flush, the child `{k ↦ x}` (which `b` denotes) still reads 0 and the
    update sits in leaf `b` for ever, while the real `flush()` delivers it -/
theorem flush_skipping_aliases_loses :
    resolve dAlias [] [[98]] = some [([107], [120])] ∧
    (((LocalTree.init dAlias (fun _ => 0)).inc [[98]]).flushSkippingAliases dAlias).store [([107], [120])] = 0 ∧
    pendingFor (((LocalTree.init dAlias (fun _ => 0)).inc [[98]]).flushSkippingAliases dAlias).leaves [([107], [120])] = 1 ∧
    (((LocalTree.init dAlias (fun _ => 0)).inc [[98]]).flush).store [([107], [120])] = 1 := by
  decide +kernel

/-- non-vacuity: 2 labels, aliases at the first level; three `inc`s reach `{m ↦ p, v ↦ H1}` through the
    two alias paths, one reaches `{m ↦ p, v ↦ H2}` -/
def d2 : Decl := [⟨[109], [([112], [112]), ([113], [112])]⟩, ⟨[118], [([49], [72, 49]), ([50], [72, 50])]⟩]
example :
    let t := ((LocalTree.init d2 (fun _ => 0)).run
      [.inc [[112], [49]] 1, .inc [[113], [49]] 1, .flush, .inc [[113], [49]] 1, .inc [[112], [50]] 1]).flush
    t.store [([109], [112]), ([118], [72, 49])] = 3 ∧ t.store [([109], [112]), ([118], [72, 50])] = 1 ∧
    t.leaves.length = 4 := by
  decide +kernel

end Prom.C19
