import Prom.Model.StaticMetric
/-
C19 — static-metric accessors address exactly the declared label values.
For ALL declarations (any number of labels and values) and all orders of the backing vector's names.
-/
namespace Prom.C19
open Prom Prom.SM

/-- the value a field denotes at a level -/
def valueOf (l : LabelDef) (f : Str) : Option Str := (l.values.find? (·.1 == f)).map (·.2)

/-- **path_resolves** — the field path `f1.….fn` denotes exactly the child whose label map is
    `{key_i ↦ value_i(f_i)}`, in declaration order after the enclosing values; an undeclared field
    or a path of the wrong length denotes nothing -/
theorem path_resolves : ∀ (d : Decl) (prev : List (Str × Str)) (path : List Str) (m : List (Str × Str)),
    resolve d prev path = some m ↔
      ∃ vs : List Str, d.length = path.length ∧ vs.length = d.length ∧
        (∀ i (h : i < d.length) (hp : i < path.length) (hv : i < vs.length), valueOf d[i] path[i] = some vs[i]) ∧
        m = prev ++ (d.map (·.key)).zip vs := by
  intro d
  induction d with
  | nil =>
    intro prev path m
    cases path with
    | nil =>
      simp only [resolve, Option.some.injEq]
      constructor
      · intro h; exact ⟨[], rfl, rfl, by intro i h; simp at h, by simp [h]⟩
      · rintro ⟨vs, _, hl, _, hm⟩
        have : vs = [] := List.eq_nil_of_length_eq_zero hl
        subst this; simp at hm; exact hm.symm
    | cons f fs =>
      simp only [resolve]
      constructor
      · intro h; cases h
      · rintro ⟨vs, hl, _⟩; simp at hl
  | cons l ls ih =>
    intro prev path m
    cases path with
    | nil =>
      simp only [resolve]
      constructor
      · intro h; cases h
      · rintro ⟨vs, hl, _⟩; simp at hl
    | cons f fs =>
      simp only [resolve]
      cases hf : l.values.find? (·.1 == f) with
      | none =>
        simp only []
        constructor
        · intro h; cases h
        · rintro ⟨vs, hl, hvl, hall, _⟩
          have := hall 0 (by simp) (by simp) (by rw [hvl]; simp)
          simp [valueOf, hf] at this
      | some p =>
        obtain ⟨pf, pv⟩ := p
        simp only []
        rw [ih]
        constructor
        · rintro ⟨vs, hl, hvl, hall, hm⟩
          refine ⟨pv :: vs, by simp [hl], by simp [hvl], ?_, ?_⟩
          · intro i hi hp hv
            cases i with
            | zero => simp [valueOf, hf]
            | succ i =>
              simp only [List.getElem_cons_succ]
              exact hall i (by simpa using hi) (by simpa using hp) (by simpa using hv)
          · simp [hm, List.append_assoc]
        · rintro ⟨vs, hl, hvl, hall, hm⟩
          cases vs with
          | nil => simp at hvl
          | cons v0 vs =>
            have h0 := hall 0 (by simp) (by simp) (by simp)
            simp [valueOf, hf] at h0
            subst h0
            refine ⟨vs, by simpa using hl, by simpa using hvl, ?_, ?_⟩
            · intro i hi hp hv
              have := hall (i + 1) (by simp; omega) (by simp; omega) (by simp; omega)
              simpa using this
            · simp [hm, List.append_assoc]

/-- **try_get_some_iff_declared** — `try_get(s)` is `Some` exactly for a declared value string, and
    then it is a field carrying that value -/
theorem try_get_some_iff_declared (l : LabelDef) (s : Str) :
    (tryGetField l s).isSome = true ↔ s ∈ l.values.map (·.2) := by
  unfold tryGetField
  rw [Option.isSome_map, List.find?_isSome]
  constructor
  · rintro ⟨p, hp, he⟩; exact List.mem_map.2 ⟨p, hp, by simpa using he⟩
  · intro h; obtain ⟨p, hp, he⟩ := List.mem_map.1 h; exact ⟨p, hp, by simp [he]⟩

theorem try_get_field_has_value (l : LabelDef) (s f : Str) (h : tryGetField l s = some f) :
    ∃ p ∈ l.values, p.1 = f ∧ p.2 = s := by
  unfold tryGetField at h
  cases hf : l.values.find? (·.2 == s) with
  | none => rw [hf] at h; cases h
  | some p =>
    rw [hf] at h
    simp at h
    have hm := List.mem_of_find?_eq_some hf
    have hp := List.find?_some hf
    exact ⟨p, hm, h, by simpa using hp⟩

/-- **get_enum_eq_field** — `get(variant)` is the field of that name -/
theorem get_enum_eq_field (l : LabelDef) (variant f : Str) (h : getField l variant = some f) : f = variant := by
  unfold getField at h
  cases hf : l.values.find? (·.1 == variant) with
  | none => rw [hf] at h; cases h
  | some p =>
    rw [hf] at h
    simp at h
    have hp := List.find?_some hf
    simp at hp
    rw [← h, hp]

/-- the child a label map denotes does not depend on the order in which the map lists its entries
    (the vector looks every declared name up), as long as keys are unique -/
theorem child_independent_of_map_order (backing : List Str) (m m' : List (Str × Str))
    (h : ∀ n ∈ backing, (m.find? (·.1 == n)).map (·.2) = (m'.find? (·.1 == n)).map (·.2)) :
    childValues backing m = childValues backing m' := by
  unfold childValues
  induction backing with
  | nil => rfl
  | cons a t ih =>
    simp only [List.mapM_cons]
    rw [h a (by simp), ih (fun n hn => h n (by simp [hn]))]

/-- **delegator_address** — the sum of the recorded field offsets is the address of the nested leaf
    in the inline thread-local struct -/
theorem delegator_address (base : Nat) (offsets : List Nat) :
    delegatorAddress base offsets = leafAddress base offsets := by
  induction offsets generalizing base with
  | nil => simp [delegatorAddress, leafAddress]
  | cons o r ih =>
    have := ih (base + o)
    simp only [delegatorAddress, leafAddress, List.sum_cons] at this ⊢
    omega

/-- non-vacuity: a 3-label declaration with a renamed value; the path post.v2.foo -/
def d3 : Decl := [⟨[109], [([112], [112]), ([103], [103])]⟩, ⟨[118], [([49], [72, 49]), ([50], [72, 50])]⟩, ⟨[112], [([102], [102])]⟩]
example : resolve d3 [] [[112], [50], [102]] = some [([109], [112]), ([118], [72, 50]), ([112], [102])] := by decide

end Prom.C19
