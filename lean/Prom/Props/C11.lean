import Prom.Props.C01
/-
C11 — Gauge operations are atomic. Same step machine as C01 (`Conc.aStep`), with `set`, `add`,
`sub`, `inc`, `dec`; `sub d` on a float gauge is `add (-d)`, on an integer gauge one `fetch_sub`.
-/
namespace Prom.C11
open Prom Prom.Conc

/-- **set_not_torn** — a `set`/`reset` is one store of one 64-bit pattern: after the accepted step the
    cell holds exactly the written value and the call is complete -/
theorem set_not_torn (s s' : ASt) (e : Ev) (th : Th APc) (op : String) (hn : opName op = "set")
    (hth : s.ths[e.tid]? = some th) (hpc : th.pc = some (.start op)) (h : aStep s e = .ok s') :
    s'.mem = e.a ∧ e.k = "S" := by
  unfold aStep at h
  simp only [hth, hpc] at h
  split at h
  · cases h
  · have h1 : (opName op == "get") = false := by rw [hn]; decide
    simp only [h1, Bool.false_eq_true, if_false, hn, beq_self_eq_true, Bool.true_or, if_true] at h
    repeat' split at h
    all_goals first
      | (simp only [Except.ok.injEq] at h; subst h; simp_all)
      | cases h

/-- **sub_undoes_add (integers)** — on the integer flavours the cell is updated by wrapping
    `fetch_add` / `fetch_sub`, and `x + d - d = x` for every 64-bit value: no clamping, no second
    step, even at the ends of the range -/
theorem sub_undoes_add_int (x d : UInt64) : x + d - d = x := by
  rw [UInt64.add_sub_cancel]

/-- the float delta of `sub d` is the negation of the delta of `add d` (sign-bit flip), so `sub`
    applies `+ (-d)` through the same compare-exchange loop as `add` -/
theorem sub_is_add_neg (a : String) (hs : opName ("sub:" ++ a) = "sub") (ha : opName ("add:" ++ a) = "add")
    (ea : opArg ("sub:" ++ a) = opArg ("add:" ++ a)) :
    floatDelta ("sub:" ++ a) = (floatDelta ("add:" ++ a)).map f64NegOp := by
  simp [floatDelta, hs, ha, ea]

/-- every committed write of a gauge is visible as the cell value (shared with C01) -/
theorem gauge_lin_inv (items : List Item) (s s' : ASt) (n : Nat) (hi : C01.LogInv s)
    (h : runItems aItem s items n = .ok s') : C01.LogInv s' :=
  C01.lin_inv items s s' n hi h

end Prom.C11
