import Prom.Props.C01
import Std.Data.String.ToInt
/-
C11 — Gauge operations are atomic. Same step machine as C01 (`Conc.aEv` / `Conc.aStep`), with `set`,
`add`, `sub`, `inc`, `dec`; `sub d` on a float gauge is `add (-d)` through the same compare-exchange
loop, on an integer gauge one `fetch_sub` (or a compare-exchange loop with wrapping subtraction); a `set` is
one store or one swap.
-/
namespace Prom.C11
open Prom Prom.Conc Prom.C01

/-- **gauge_linearizable** — every returned value and the final value of a gauge are explained by
    executing the calls one at a time, in the order of their commit steps (each a step of its own
    call, hence consistent with real time), against the sequential specification `specApply`
    (`set`, `add`, `sub`, `inc`, `dec`, `get`) -/
theorem gauge_linearizable {float : Bool} {prog : List (List String)} {s : ASt}
    (h : AReach (aInit float false prog) s) : specRun s.float 0 s.lin = some s.mem :=
  cell_linearizable h

/-- … and each call takes effect exactly once: concurrent add / sub / inc / dec are never lost -/
theorem gauge_exactly_once {float : Bool} {prog : List (List String)} {s : ASt}
    (h : AReach (aInit float false prog) s) (t : Nat) (th : Th APc) (hth : s.ths[t]? = some th) (i : Nat) :
    commits s.lin t i =
      if i < th.idx then (if skipOp (th.ops.getD i "") then 0 else 1)
      else if i = th.idx ∧ th.retv.isSome ∧ skipOp (th.ops.getD i "") = false then 1 else 0 :=
  exactly_once h t th hth i

/-- **gauge_real_time_order** — the commit order of a gauge (`set`, `add`, `sub`, `inc`, `dec`, `get`;
    float or integer) is consistent with real time. Take any state `s` of an accepted run and any
    continuation to `s'`. A call (`t`, `i`) that has RETURNED in `s` and a call (`t'`, `i'`) that in
    `s` has not started (or is in progress but has not taken effect yet): wherever the two appear in
    the later commit log - the order `gauge_linearizable` executes the calls in -, the first is before
    the second. So a `get` that begins after a `set` / `add` has returned is explained with that
    update before it, and an update that begins after a `get` has returned is not seen by it. -/
theorem gauge_real_time_order {float : Bool} {prog : List (List String)} {s s' : ASt}
    (h : AReach (aInit float false prog) s) (h' : AReach s s')
    {t t' : Nat} {th th' : Th APc} (hth : s.ths[t]? = some th) (hth' : s.ths[t']? = some th')
    {i i' : Nat} (hret : i < th.idx) (hnot : th'.idx < i' ∨ (i' = th'.idx ∧ th'.retv = none))
    {p q : Nat} {x y : LinEv} (hx : s'.lin[p]? = some x) (hy : s'.lin[q]? = some y)
    (hxt : x.tid = t ∧ x.idx = i) (hyt : y.tid = t' ∧ y.idx = i') : p < q :=
  real_time_commit_order h h' hth hth' hret hnot hx hy hxt hyt

/-- **set_not_torn** — a `set` is one atomic write of one 64-bit pattern: the accepted event is a single
    store, or a single swap (`set` written as `swap` with the result ignored; the swap read exactly the
    current value of the cell), whose operand is the whole new value; the cell holds exactly that value
    afterwards, and the call is complete with that one step. (Before the machine accepted the swap the first
    conjunct read `e.k = "S"`.) -/
theorem set_not_torn {float : Bool} {mem : UInt64} {op : String} {e : Ev} {mem' : UInt64} {nx : APc ⊕ String}
    (hn : opName op = "set") (h : aEv float mem op .start e = .ok (mem', nx)) :
    (e.k = "S" ∨ (e.k = "W" ∧ e.res = mem)) ∧ mem' = e.a ∧ nx = .inr "" := by
  unfold aEv at h
  simp only at h
  split at h
  · cases h
  · unfold aEvStart at h
    simp only at h
    rw [hn] at h
    have h1 : ("set" == "get") = false := by decide
    have h2 : ("set" == "set" || "set" == "reset") = true := by decide
    simp only [h1, h2, Bool.false_eq_true, if_false, if_true] at h
    rw [guard_ok] at h
    obtain ⟨hg, h⟩ := h
    simp only [Bool.and_eq_true, Bool.or_eq_true, beq_iff_eq] at hg
    cases h
    exact ⟨hg.1.1, hg.2.symm, rfl⟩

/-- a `reset` likewise: one store or one swap (which read the current value) of the whole zero pattern -/
theorem reset_not_torn {float : Bool} {mem : UInt64} {op : String} {e : Ev} {mem' : UInt64} {nx : APc ⊕ String}
    (hn : opName op = "reset") (h : aEv float mem op .start e = .ok (mem', nx)) :
    (e.k = "S" ∨ (e.k = "W" ∧ e.res = mem)) ∧ mem' = e.a ∧ nx = .inr "" := by
  unfold aEv at h
  simp only at h
  split at h
  · cases h
  · unfold aEvStart at h
    simp only at h
    rw [hn] at h
    have h1 : ("reset" == "get") = false := by decide
    have h2 : ("reset" == "set" || "reset" == "reset") = true := by decide
    simp only [h1, h2, Bool.false_eq_true, if_false, if_true] at h
    rw [guard_ok] at h
    obtain ⟨hg, h⟩ := h
    simp only [Bool.and_eq_true, Bool.or_eq_true, beq_iff_eq] at hg
    cases h
    exact ⟨hg.1.1, hg.2.symm, rfl⟩

theorem splitOn_set5 : "set:5".splitOn ":" = ["set", "5"] := by split_on_lit
theorem opName_set5 : opName "set:5" = "set" := by simp [opName, splitOn_set5]
theorem opArg_set5 : opArg "set:5" = "5" := by simp [opArg, splitOn_set5]
/-- `String.toInt?` does not reduce; it goes through `Nat.toNat?_repr` -/
theorem parseIntArg_5 : parseIntArg "5" = 5 := by
  have r5 : Nat.repr 5 = "5" := by decide +kernel
  have hn : "5".toNat? = some 5 := by rw [← r5]; exact Nat.toNat?_repr 5
  have hi : "5".toInt? = some 5 := String.toInt?_eq_some_iff.2 (Or.inl ⟨5, hn, rfl⟩)
  simp [parseIntArg, hi]
theorem u64OfInt_five : u64OfInt 5 = 5 := by decide +kernel
theorem hexStr_five : hexStr 5 = "5" := by decide +kernel

/-- an integer gauge. Thread 0: `inc` (one `fetch_add`), then `set(5)` written as a SWAP (operand `5`, it
    reads the old value `1`, which the caller ignores), then `reset` written as a swap (operand `0`, reads
    `5`); thread 1 `get`s between the two swaps and reads `5` -/
def setSwapTrace : List Item :=
  [.call 0 "0" "inc", .ev ⟨0, "A", "v0", "Relaxed", 1, 0, 0, true⟩, .ret 0 "0" "",
   .call 0 "1" "set:5", .call 1 "0" "get",
   .ev ⟨0, "W", "v0", "Relaxed", 5, 0, 1, true⟩, .ret 0 "1" "",
   .ev ⟨1, "L", "v0", "Relaxed", 0, 0, 5, true⟩, .ret 1 "0" "5",
   .call 0 "2" "reset", .ev ⟨0, "W", "v0", "SeqCst", 0, 0, 5, true⟩, .ret 0 "2" ""]

/-- **set_as_swap_accepted** — `set` / `reset` written as a `swap` whose result is ignored is accepted:
    `setSwapTrace` is an accepted run of the integer gauge machine; the commit log is
    `inc, set:5, get (= 5), reset`, each call committed exactly once at its one step, and the cell ends at `0`.
    The plain store stays accepted (`reset_allows_decrease_run`). -/
theorem set_as_swap_accepted :
    ∃ s, runItems aItem (aInit false false [["inc", "set:5", "reset"], ["get"]]) setSwapTrace 0 = .ok s ∧
      AReach (aInit false false [["inc", "set:5", "reset"], ["get"]]) s ∧
      s.lin = [⟨0, 0, "inc", ""⟩, ⟨0, 1, "set:5", ""⟩, ⟨1, 0, "get", "5"⟩, ⟨0, 2, "reset", ""⟩] ∧
      s.mem = 0 ∧ allDone s.ths = true := by
  have r0 : Nat.repr 0 = "0" := by decide +kernel
  have r1 : Nat.repr 1 = "1" := by decide +kernel
  have r2 : Nat.repr 2 = "2" := by decide +kernel
  have og : ordGe "Relaxed" "Relaxed" = true := by decide +kernel
  have os : ordGe "SeqCst" "Relaxed" = true := by decide +kernel
  have h : ∃ s, runItems aItem (aInit false false [["inc", "set:5", "reset"], ["get"]]) setSwapTrace 0 = .ok s ∧
      s.lin = [⟨0, 0, "inc", ""⟩, ⟨0, 1, "set:5", ""⟩, ⟨1, 0, "get", "5"⟩, ⟨0, 2, "reset", ""⟩] ∧
      s.mem = 0 ∧ allDone s.ths = true := by
    simp [runItems, setSwapTrace, aItem, aStep, aEv, aEvStart, Conc.guard, aInit, openCall, closeCall, r0, r1, r2,
      opName_inc, opName_get, opName_reset, opName_set5, opArg_set5, parseIntArg_5, u64OfInt_zero, u64OfInt_one,
      u64OfInt_five, og, os, isSubOp, intDelta, hexStr_five, allDone]
  obtain ⟨s, hr, hl, hm, hd⟩ := h
  exact ⟨s, hr, runItems_reach hr, hl, hm, hd⟩

/-- the swap is checked: `setSwapTrace` with the first swap reporting a wrong old value (`0`; the cell holds
    `1`) is rejected at that event (item 5) -/
theorem set_as_swap_wrong_old_value_rejected :
    ∃ m, runItems aItem (aInit false false [["inc", "set:5", "reset"], ["get"]])
        (setSwapTrace.take 5 ++ [.ev ⟨0, "W", "v0", "Relaxed", 5, 0, 0, true⟩]) 0 = .error m ∧ m.startsWith "diverge@5: set:" = true := by
  have r0 : Nat.repr 0 = "0" := by decide +kernel
  have r1 : Nat.repr 1 = "1" := by decide +kernel
  have r5 : Nat.repr 5 = "5" := by decide +kernel
  have og : ordGe "Relaxed" "Relaxed" = true := by decide +kernel
  simp [runItems, setSwapTrace, aItem, aStep, aEv, aEvStart, Conc.guard, aInit, openCall, closeCall, r0, r1, r5,
    opName_inc, opName_get, opName_set5, opArg_set5, parseIntArg_5, u64OfInt_one,
    u64OfInt_five, og, isSubOp, intDelta, hexStr_five, hexStr_one]
  decide +kernel

/-- **sub_undoes_add (integers)** — on the integer flavours the cell is updated by wrapping
    `fetch_add` / `fetch_sub`, and `x + d - d = x` for every 64-bit value: no clamping, no second
    step, even at the ends of the range -/
theorem sub_undoes_add_int (x d : UInt64) : x + d - d = x := by
  rw [UInt64.add_sub_cancel]

/-- on the integer gauge, `add d` followed by `sub d` in the sequential specification restores the value -/
theorem spec_sub_undoes_add_int (v : UInt64) (a : String)
    (hadd : opName ("add:" ++ a) = "add") (hsub : opName ("sub:" ++ a) = "sub")
    (ea : opArg ("sub:" ++ a) = opArg ("add:" ++ a)) :
    ∃ v1, specApply false v ("add:" ++ a) = some (v1, "") ∧ specApply false v1 ("sub:" ++ a) = some (v, "") := by
  refine ⟨v + intDelta ("add:" ++ a), ?_, ?_⟩
  · simp [specApply, hadd, isSubOp]
  · have : intDelta ("sub:" ++ a) = intDelta ("add:" ++ a) := by simp [intDelta, hadd, hsub, ea]
    simp [specApply, hsub, isSubOp, this, UInt64.add_sub_cancel]

/-- the float delta of `sub d` is the negation of the delta of `add d` (sign-bit flip), so `sub`
    applies `+ (-d)` through the same compare-exchange loop as `add` -/
theorem sub_is_add_neg (a : String) (hs : opName ("sub:" ++ a) = "sub") (ha : opName ("add:" ++ a) = "add")
    (ea : opArg ("sub:" ++ a) = opArg ("add:" ++ a)) :
    floatDelta ("sub:" ++ a) = (floatDelta ("add:" ++ a)).map f64NegOp := by
  simp [floatDelta, hs, ha, ea]

end Prom.C11
