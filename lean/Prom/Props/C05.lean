import Prom.Lemmas.Vec
/-
C05 — A metric vector keeps exactly one child per distinct label-value tuple.

The code keys children by the 64-bit FNV-1a hash of the separator-terminated values. The
theorems separate the two ingredients: the *encoding* fed to the hash is injective on UTF-8
tuples (proved, `enc_injective`), and the hash itself is not injective (`C05_full_false`, a
concrete collision — known finding K1). `C05_partial` is the property under the explicit
hypothesis that the hash does not collide on the two tuples.
-/
namespace Prom.C05
open Prom

/-- **enc_injective** — tuples of UTF-8 strings feed different bytes to the hasher unless they are
    equal position by position (in particular tuples that differ only in where one value ends
    and the next begins, and tuples with empty values). -/
theorem enc_injective (vs ws : List Str) (hv : ∀ x ∈ vs, NoFF x) (hw : ∀ x ∈ ws, NoFF x) :
    vecEnc vs = vecEnc ws ↔ vs = ws :=
  sepEnc_inj_iff sep vs ws hv hw

/-- **same_child_iff_key** — two successive get-or-create requests return the same child exactly
    when their keys are equal. -/
theorem same_child_iff_key {v v1 v2 : MVec} (hi : VecInv v) {k k' : UInt64} {vals vals' : List Str}
    {a b : Nat} (h1 : getOrCreate v k vals = (v1, .ok a)) (h2 : getOrCreate v1 k' vals' = (v2, .ok b)) :
    a = b ↔ k = k' := by
  have hi1 := getOrCreate_inv hi h1
  unfold getOrCreate at h1
  cases hl : lookupKey v k with
  | some id =>
    rw [hl] at h1
    simp at h1
    obtain ⟨rfl, rfl⟩ := h1
    have hmem := afind_some (by rw [← lookupKey_eq]; exact hl)
    unfold getOrCreate at h2
    cases hl2 : lookupKey v k' with
    | some id' =>
      rw [hl2] at h2; simp at h2
      obtain ⟨_, rfl⟩ := h2
      have hmem2 := afind_some (by rw [← lookupKey_eq]; exact hl2)
      constructor
      · intro e
        subst e
        -- same id ⇒ same entry (ids are pairwise distinct)
        have := eq_of_nodup_map (·.2) hi.ids hmem hmem2 rfl
        exact (Prod.mk.inj this).1
      · intro e
        subst e
        rw [hl] at hl2
        exact Option.some.inj hl2
    | none =>
      rw [hl2] at h2
      simp only [] at h2
      split at h2
      · simp at h2
      · simp at h2
        obtain ⟨_, rfl⟩ := h2
        have hr := hi.range _ hmem
        simp only [] at hr
        constructor
        · intro e; omega
        · intro e
          subst e
          rw [hl] at hl2; cases hl2
  | none =>
    rw [hl] at h1
    simp only [] at h1
    split at h1
    · simp at h1
    · rename_i hbf
      simp at h1
      obtain ⟨rfl, rfl⟩ := h1
      have hnone : afind v.children k = none := by rw [← lookupKey_eq]; exact hl
      unfold getOrCreate at h2
      have hl2 := afind_append_new (k' := k') (id := v.store.length) hnone
      simp only [lookupKey_eq, hl2] at h2
      by_cases e : k' = k
      · subst e
        simp at h2
        simp [h2.2]
      · simp only [e, if_false] at h2
        cases hf : afind v.children k' with
        | some id' =>
          rw [hf] at h2; simp at h2
          obtain ⟨_, rfl⟩ := h2
          have hr := hi.range _ (afind_some hf)
          simp only [] at hr
          constructor
          · intro e2; omega
          · intro e2; exact absurd e2.symm e
        | none =>
          rw [hf] at h2
          simp only [hbf, Bool.false_eq_true, if_false] at h2
          simp at h2
          constructor
          · intro e2; omega
          · intro e2; exact absurd e2.symm e

/-- the hash does not distinguish the two tuples although their encodings differ -/
def Collide (vs ws : List Str) : Prop := vecKey vs = vecKey ws ∧ vecEnc vs ≠ vecEnc ws

/-- **C05_partial** — for UTF-8 tuples on which FNV-1a does not collide: equal keys (hence, by
    `same_child_iff_key`, the same child) exactly when the tuples are equal position by position. -/
theorem C05_partial (vs ws : List Str) (hv : ∀ x ∈ vs, NoFF x) (hw : ∀ x ∈ ws, NoFF x)
    (hc : ¬ Collide vs ws) : vecKey vs = vecKey ws ↔ vs = ws := by
  constructor
  · intro hk
    by_cases he : vecEnc vs = vecEnc ws
    · exact (enc_injective vs ws hv hw).1 he
    · exact absurd ⟨hk, he⟩ hc
  · intro e; rw [e]

/-- **C05_full_false** — the statement without the no-collision hypothesis is false of any 64-bit
    key: these two distinct one-element tuples get the same key (known finding K1; replayed on
    the real code by the `vec` corpus). -/
theorem C05_full_false :
    vecKey [strOfString "77kepQFQ8Kl"] = vecKey [strOfString "!0IC=VloaY"] ∧
    [strOfString "77kepQFQ8Kl"] ≠ [strOfString "!0IC=VloaY"] := by
  constructor
  · decide +kernel
  · decide +kernel

/-- **wrong_shape_creates_nothing** — a request with the wrong number of values is an error and the
    vector is unchanged; so is a map request with the wrong number of entries or a missing name. -/
theorem wrong_cardinality_creates_nothing (v : MVec) (vals : List Str) (h : vals.length ≠ v.names.length) :
    withLabelValues v vals = (v, .error (.card v.names.length vals.length)) := by
  simp [withLabelValues, hashLabelValues, h]

theorem wrong_map_creates_nothing (v : MVec) (m : List (Str × Str))
    (h : m.length ≠ v.names.length ∨ labelValuesOfMap v.names m = none) :
    ∃ e, withMap v m = (v, .error e) := by
  unfold withMap hashLabels
  by_cases hl : m.length = v.names.length
  · rcases h with h | h
    · exact absurd hl h
    · simp [hl, h]
  · simp [hl]

theorem wrong_remove_changes_nothing (v : MVec) (vals : List Str) (h : vals.length ≠ v.names.length) :
    removeLabelValues v vals = (v, .error (.card v.names.length vals.length)) := by
  simp [removeLabelValues, hashLabelValues, h]

/-- **child_labels** — a newly created child starts from zero and exposes the requested values
    under the declared names together with the const labels, sorted by label name. -/
theorem new_child_zero_and_labelled {v v' : MVec} {k : UInt64} {vals : List Str} {id : Nat}
    (hn : lookupKey v k = none) (h : getOrCreate v k vals = (v', .ok id)) :
    v'.store[id]? = some ⟨childLabels v vals, 0⟩ := by
  unfold getOrCreate at h
  rw [hn] at h
  simp only [] at h
  split at h
  · simp at h
  · simp at h
    obtain ⟨rfl, rfl⟩ := h
    simp

theorem child_labels_perm (v : MVec) (vals : List Str) (hne : v.names ≠ []) :
    (childLabels v vals).Perm ((v.names.zip vals).map (fun p => ⟨p.1, p.2⟩) ++ v.consts) := by
  unfold childLabels
  have h1 : (v.names.length + v.consts.length == 0) = false := by
    cases hnm : v.names with
    | nil => exact absurd hnm hne
    | cons a t => simp
  have h2 : v.names.isEmpty = false := by cases hnm : v.names <;> simp_all
  simp only [h1, h2, Bool.false_eq_true, if_false]
  exact stableSortBy_perm _ _

theorem lpLe_trans (a b c : LabelPair) (h1 : lpLe a b = true) (h2 : lpLe b c = true) : lpLe a c = true :=
  strLe_trans _ _ _ h1 h2
theorem lpLe_total (a b : LabelPair) : lpLe a b = true ∨ lpLe b a = true := strLe_total _ _

theorem child_labels_sorted (v : MVec) (vals : List Str) (hne : v.names ≠ []) :
    (childLabels v vals).Pairwise (fun a b => strLe a.name b.name = true) := by
  unfold childLabels
  have h1 : (v.names.length + v.consts.length == 0) = false := by
    cases hnm : v.names with
    | nil => exact absurd hnm hne
    | cons a t => simp
  have h2 : v.names.isEmpty = false := by cases hnm : v.names <;> simp_all
  simp only [h1, h2, Bool.false_eq_true, if_false]
  exact stableSortBy_pairwise lpLe_trans lpLe_total _

/-- **map_form_order_free** — the map form only reads the map through lookups of the *declared*
    names: two maps that agree on every declared name resolve to the same values and key. -/
theorem map_form_order_free (names : List Str) (m m' : List (Str × Str))
    (h : ∀ n ∈ names, mapGet m n = mapGet m' n) :
    labelValuesOfMap names m = labelValuesOfMap names m' := by
  unfold labelValuesOfMap
  induction names with
  | nil => rfl
  | cons a t ih =>
    simp only [List.mapM_cons]
    rw [h a (by simp), ih (fun n hn => h n (by simp [hn]))]

def okIs (r : Except VErr Nat) (n : Nat) : Bool := match r with | .ok m => m == n | .error _ => false
def v0 : MVec := { names := [strOfString "l1", strOfString "l2"], consts := [], buildFails := false, children := [], store := [] }

/-- non-vacuity: a reachable two-label vector in which the split-shifted tuples are two children -/
example :
    okIs (withLabelValues v0 [strOfString "ab", strOfString "c"]).2 0 = true ∧
    okIs (withLabelValues (withLabelValues v0 [strOfString "ab", strOfString "c"]).1 [strOfString "a", strOfString "bc"]).2 1 = true := by
  decide +kernel

end Prom.C05
