import Prom.Lemmas.RegistryInv
import Prom.Lemmas.C06Conc
import Prom.Lemmas.C06RealTime
import Prom.Lemmas.C06Err

namespace Prom.C06
open Prom
/-- **register_fail_noop** — a refused registration returns the registry *unchanged*
    (false of the pinned code before the F3 repair, which recorded dimension hashes inside the loop). -/
theorem register_fail_noop (r : Reg) (c : Coll) (e : RErr) (h : (r.register c).2 = .error e) :
    (r.register c).1 = r := by
  unfold Reg.register at *
  cases hl : regLoop r c.descs [] [] 0 with
  | error e' => simp
  | ok t =>
    obtain ⟨ids, nd, cid⟩ := t
    rw [hl] at h
    simp only [] at h ⊢
    split
    · rfl
    · rename_i hc
      simp [hc] at h

/-- **unregister_fail_noop** -/
theorem unregister_fail_noop (r : Reg) (c : Coll) (e : RErr) (h : (r.unregister c).2 = .error e) :
    (r.unregister c).1 = r := by
  unfold Reg.unregister at *
  simp only [] at h ⊢
  split
  · rename_i hc; simp [hc] at h
  · rfl

/-- **register_ok_sound** — an admitted collector had no descriptor id in use, agreed with every
    recorded dimension hash of its names, clashed with no common label, and had pairwise distinct
    descriptors. -/
theorem register_ok_sound (r : Reg) (c : Coll) (h : (r.register c).2 = .ok ()) :
    (∀ d ∈ c.descs, clashesCommon r.labels d = false ∧ r.descIds.contains d.id = false ∧
        ∀ hh, dimLookup r.dimHashes d.fqName = some hh → hh = d.dimHash) ∧
    (c.descs.map (·.id)).Nodup := by
  unfold Reg.register at h
  cases hl : regLoop r c.descs [] [] 0 with
  | error e => rw [hl] at h; simp at h
  | ok t =>
    obtain ⟨ids, nd, cid⟩ := t
    obtain ⟨h1, h2, h3, _⟩ := regLoop_ok r _ _ _ _ _ _ _ hl
    refine ⟨h1, ?_⟩
    have := h3 List.nodup_nil
    simpa [h2] using this

/-- **register_ok_complete** — the converse: a collector all of whose descriptors pass the three
    checks (id not in use, recorded dimension hash of the name agrees, no common-label clash), whose
    descriptors are pairwise distinct and agree among themselves on the dimension hash of a shared
    name, and whose collector id is free, IS admitted — registration refuses nothing else. -/
theorem register_ok_complete (r : Reg) (c : Coll)
    (hok : ∀ d ∈ c.descs, DescOk r d) (hnd : (c.descs.map (·.id)).Nodup) (hself : SelfConsistent c.descs)
    (hfree : r.collectors.any (·.1 == (c.descs.map (·.id)).foldl (· + ·) (0 : UInt64)) = false) :
    (r.register c).2 = .ok () := by
  obtain ⟨res, hres⟩ := regLoop_complete r c.descs [] [] 0 hok (by simpa using hnd)
    (by intro d _ h hl; simp [dimLookup] at hl) hself
  obtain ⟨ids, nd, cid⟩ := res
  obtain ⟨_, _, _, hcid⟩ := regLoop_ok r _ _ _ _ _ _ _ hres
  unfold Reg.register
  rw [hres]
  simp only []
  rw [hcid, hfree]
  simp

/-- **register_ok_iff** — admission, exactly: a registration succeeds iff every descriptor passes
    the three registry-level checks, the collector's descriptors are pairwise distinct and agree among
    themselves on the signature of a shared name, and the collector (its id) is not registered. -/
theorem register_ok_iff (r : Reg) (c : Coll) :
    (r.register c).2 = .ok () ↔
      (∀ d ∈ c.descs, DescOk r d) ∧ (c.descs.map (·.id)).Nodup ∧ SelfConsistent c.descs ∧
      r.collectors.any (·.1 == cidOf (c.descs.map (·.id))) = false := by
  constructor
  · intro h
    obtain ⟨h1, h2⟩ := register_ok_sound r c h
    obtain ⟨_, h3, h4⟩ := register_ok_state r c h
    exact ⟨h1, h2, h4, h3⟩
  · rintro ⟨h1, h2, h3, h4⟩
    exact register_ok_complete r c h1 h2 h3 h4

/-- **admission_exact** — over ANY history of register / unregister calls (successful or refused)
    starting from an empty registry: the next registration succeeds exactly when no descriptor of the
    collector has the id of a descriptor of a *currently registered* collector, none disagrees in
    its help/label-name signature with a descriptor *ever successfully registered* under the same
    name (`ever` grows only on success and survives unregister), none repeats a common label, the
    collector's own descriptors are distinct and mutually consistent, and the collector is not
    registered. (`WellKeyedHist`: each unregister call names its collector by its descriptors, not by
    a colliding wrapping sum of ids.) -/
theorem admission_exact (labels : Option (List (Str × Str))) (pref : Option Str) (ops : List ROp)
    (hwk : WellKeyedHist ({ labels := labels, pref := pref }, []) ops) (c : Coll) :
    let s := ops.foldl stepR (({ labels := labels, pref := pref } : Reg), ([] : List Desc))
    (s.1.register c).2 = .ok () ↔
      (∀ d ∈ c.descs, clashesCommon labels d = false ∧ d.id ∉ curIds s.1 ∧
        ∀ e ∈ s.2, e.fqName = d.fqName → e.dimHash = d.dimHash) ∧
      (c.descs.map (·.id)).Nodup ∧ SelfConsistent c.descs ∧
      s.1.collectors.any (·.1 == cidOf (c.descs.map (·.id))) = false := by
  intro s
  have inv : RegInv s.1 s.2 := regInv_history ops _ (regInv_init labels pref) hwk
  have hl : s.1.labels = labels := by
    show (ops.foldl stepR _).1.labels = labels
    clear inv hwk
    generalize hs0 : (({ labels := labels, pref := pref } : Reg), ([] : List Desc)) = s0
    have h0 : s0.1.labels = labels := by rw [← hs0]
    clear hs0
    induction ops generalizing s0 with
    | nil => exact h0
    | cons op t ih =>
      simp only [List.foldl_cons]
      apply ih
      cases op with
      | reg c =>
        show (s0.1.register c).1.labels = labels
        unfold Reg.register
        split
        · exact h0
        · split <;> exact h0
      | unreg c =>
        show (s0.1.unregister c).1.labels = labels
        unfold Reg.unregister
        simp only []
        split <;> exact h0
  rw [register_ok_iff]
  constructor
  · rintro ⟨h1, h2, h3, h4⟩
    refine ⟨fun d hd => ?_, h2, h3, h4⟩
    have := (descOk_iff inv d).1 (h1 d hd)
    rw [hl] at this
    exact this
  · rintro ⟨h1, h2, h3, h4⟩
    refine ⟨fun d hd => (descOk_iff inv d).2 ?_, h2, h3, h4⟩
    rw [hl]
    exact h1 d hd

/-- re-registering a registered single-descriptor collector (or any collector whose descriptor id
    is in use) fails with `AlreadyReg` -/
theorem register_same_single_alreadyReg (r : Reg) (d : Desc) (fams : List Family)
    (hc : clashesCommon r.labels d = false) (hid : r.descIds.contains d.id = true) :
    (r.register ⟨[d], fams⟩).2 = .error .alreadyReg := by
  have : regLoop r [d] [] [] 0 = .error .alreadyReg := by
    unfold regLoop
    rw [if_neg (by rw [hc]; simp), if_pos hid]
  unfold Reg.register
  simp only [this]

/-! ### which error a refused registration returns -/

/-- **register_err_kind** — the error of the descriptor loop is decided by the FIRST offending
    descriptor in the collector's own order: if the loop fails with `e`, the descriptors split as
    `pre ++ d :: post` where the loop accepted every descriptor of `pre` (staging their ids `ids'` and
    signatures `nd'`) and refused `d`; `e` is `AlreadyReg` exactly when `d` clashes with no common label
    and its id is in use, and `Msg` exactly in the other refusal cases: a common-label clash, or - id
    not in use - a dimension hash that disagrees with the recorded signature of the name, or (none
    recorded) with the staged one, or an id repeated inside the collector. (A clash with a common label
    hides an id in use: the label check comes first.) -/
theorem register_err_kind (r : Reg) (ds : List Desc) (ids : List UInt64) (nd : List (Str × UInt64)) (cid : UInt64)
    (e : RErr) (h : regLoop r ds ids nd cid = .error e) :
    ∃ pre d post ids' nd' cid', ds = pre ++ d :: post ∧
      regLoop r pre ids nd cid = .ok (ids', nd', cid') ∧
      ids' = ids ++ pre.map (·.id) ∧ nd' = (pre.map descKv).foldl ins nd ∧
      (∀ x ∈ pre, DescOk r x) ∧
      (e = .alreadyReg ↔ clashesCommon r.labels d = false ∧ r.descIds.contains d.id = true) ∧
      (e = .msg ↔ clashesCommon r.labels d = true ∨
        (r.descIds.contains d.id = false ∧
          ((∃ h, dimLookup r.dimHashes d.fqName = some h ∧ h ≠ d.dimHash) ∨
           (dimLookup r.dimHashes d.fqName = none ∧ ∃ h, dimLookup nd' d.fqName = some h ∧ h ≠ d.dimHash) ∨
           d.id ∈ ids'))) := by
  obtain ⟨pre, d, post, ⟨ids', nd', cid'⟩, hsplit, hok, hx⟩ := (regLoop_err_iff r ds ids nd cid e).1 h
  obtain ⟨h1, h2, _, _⟩ := regLoop_ok r _ _ _ _ _ _ _ hok
  have h3 := regLoop_nd r _ _ _ _ _ hok
  refine ⟨pre, d, post, ids', nd', cid', hsplit, hok, h2, h3, h1, ?_, ?_⟩
  · constructor
    · intro he
      subst he
      rcases (descRefusal_eq_some_iff r ids' nd' d _).1 hx with ⟨_, hc, hi⟩ | ⟨he, _⟩
      · exact ⟨hc, hi⟩
      · cases he
    · rintro ⟨hc, hi⟩
      rcases (descRefusal_eq_some_iff r ids' nd' d e).1 hx with ⟨he, _, _⟩ | ⟨_, hc' | ⟨hi', _⟩⟩
      · exact he
      · rw [hc] at hc'; cases hc'
      · rw [hi] at hi'; cases hi'
  · have hmem : ids'.contains d.id = true ↔ d.id ∈ ids' := by simp
    rw [← hmem]
    constructor
    · intro he
      subst he
      rcases (descRefusal_eq_some_iff r ids' nd' d _).1 hx with ⟨he, _⟩ | ⟨_, hm⟩
      · cases he
      · exact hm
    · intro hm
      rcases (descRefusal_eq_some_iff r ids' nd' d e).1 hx with ⟨_, hc, hi⟩ | ⟨he, _⟩
      · rcases hm with hc' | ⟨hi', _⟩
        · rw [hc] at hc'; cases hc'
        · rw [hi] at hi'; cases hi'
      · exact he

/-- **register_err_kind_iff** — the same as an equivalence (so the split is the only way to fail, and
    each refusal reason does produce its error): the loop fails with `e` iff the descriptors split as
    `pre ++ d :: post`, the loop accepts `pre`, and `d` is refused with `e` against what `pre` staged. -/
theorem register_err_kind_iff (r : Reg) (ds : List Desc) (ids : List UInt64) (nd : List (Str × UInt64)) (cid : UInt64)
    (e : RErr) :
    regLoop r ds ids nd cid = .error e ↔
    ∃ pre d post ids' nd' cid', ds = pre ++ d :: post ∧ regLoop r pre ids nd cid = .ok (ids', nd', cid') ∧
      ((e = .alreadyReg ∧ clashesCommon r.labels d = false ∧ r.descIds.contains d.id = true) ∨
       (e = .msg ∧ (clashesCommon r.labels d = true ∨
        (r.descIds.contains d.id = false ∧
          ((∃ h, dimLookup r.dimHashes d.fqName = some h ∧ h ≠ d.dimHash) ∨
           (dimLookup r.dimHashes d.fqName = none ∧ ∃ h, dimLookup nd' d.fqName = some h ∧ h ≠ d.dimHash) ∨
           ids'.contains d.id = true))))) := by
  rw [regLoop_err_iff]
  constructor
  · rintro ⟨pre, d, post, ⟨ids', nd', cid'⟩, hsplit, hok, hx⟩
    exact ⟨pre, d, post, ids', nd', cid', hsplit, hok, (descRefusal_eq_some_iff r ids' nd' d e).1 hx⟩
  · rintro ⟨pre, d, post, ids', nd', cid', hsplit, hok, hx⟩
    exact ⟨pre, d, post, (ids', nd', cid'), hsplit, hok, (descRefusal_eq_some_iff r ids' nd' d e).2 hx⟩

/-- **register_err_first** — `register`, in terms of the descriptors only: the call fails with `e`
    exactly when EITHER the collector's descriptors split as `pre ++ d :: post` with `pre` accepted
    (`Accepted`: each passes the three registry-level checks, ids pairwise distinct, shared names share
    the signature) and `d` - the first offender - refused with `e` (`RefusedWith`: `AlreadyReg` iff no
    common-label clash and id in use; `Msg` for a label clash, a signature disagreeing with the recorded
    one or with an earlier descriptor of the collector, or an id an earlier descriptor has), OR all
    descriptors are accepted, the collector id is taken and `e` is `AlreadyReg`. -/
theorem register_err_first (r : Reg) (c : Coll) (e : RErr) :
    (r.register c).2 = .error e ↔
      (∃ pre d post, c.descs = pre ++ d :: post ∧ Accepted r pre ∧ RefusedWith r pre d e) ∨
      (e = .alreadyReg ∧ Accepted r c.descs ∧
        r.collectors.any (·.1 == cidOf (c.descs.map (·.id))) = true) := by
  unfold Reg.register
  cases hl : regLoop r c.descs [] [] 0 with
  | error e' =>
    simp only [Except.error.injEq]
    constructor
    · intro he
      subst he
      obtain ⟨pre, d, post, res, hsplit, hok, hx⟩ := (regLoop_err_iff r _ _ _ _ _).1 hl
      exact Or.inl ⟨pre, d, post, hsplit, (accepted_iff r pre).1 ⟨res, hok⟩, (refusedWith_iff r pre res hok d e').1 hx⟩
    · rintro (⟨pre, d, post, hsplit, hacc, href⟩ | ⟨_, hacc, _⟩)
      · obtain ⟨res, hok⟩ := (accepted_iff r pre).2 hacc
        have := (regLoop_err_iff r c.descs [] [] 0 e).2 ⟨pre, d, post, res, hsplit, hok, (refusedWith_iff r pre res hok d e).2 href⟩
        rw [hl] at this
        exact Except.error.inj this
      · obtain ⟨res, hok⟩ := (accepted_iff r c.descs).2 hacc
        rw [hl] at hok; cases hok
  | ok t =>
    obtain ⟨ids, nd, cid⟩ := t
    obtain ⟨_, _, _, hcid⟩ := regLoop_ok r _ _ _ _ _ _ _ hl
    have hcid : cid = cidOf (c.descs.map (·.id)) := hcid
    have hacc : Accepted r c.descs := (accepted_iff r c.descs).1 ⟨_, hl⟩
    simp only []
    constructor
    · intro h
      split at h
      · next hany =>
        simp only [Except.error.injEq] at h
        exact Or.inr ⟨h.symm, hacc, by rw [← hcid]; exact hany⟩
      · cases h
    · rintro (⟨pre, d, post, hsplit, hacc', href⟩ | ⟨he, _, hany⟩)
      · obtain ⟨res, hok⟩ := (accepted_iff r pre).2 hacc'
        have := (regLoop_err_iff r c.descs [] [] 0 e).2 ⟨pre, d, post, res, hsplit, hok, (refusedWith_iff r pre res hok d e).2 href⟩
        rw [hl] at this; cases this
      · rw [← hcid] at hany
        rw [if_pos hany, he]

/-- **register_alreadyReg_iff** — `register` answers `AlreadyReg` exactly when the descriptor loop
    fails with `AlreadyReg` (its first offending descriptor clashes with no common label and has an id
    in use - an equal descriptor is registered) or the loop succeeds and the collector id is taken (the
    same collector is registered). -/
theorem register_alreadyReg_iff (r : Reg) (c : Coll) :
    (r.register c).2 = .error .alreadyReg ↔
      regLoop r c.descs [] [] 0 = .error .alreadyReg ∨
      ∃ ids nd cid, regLoop r c.descs [] [] 0 = .ok (ids, nd, cid) ∧ r.collectors.any (·.1 == cid) = true := by
  unfold Reg.register
  cases hl : regLoop r c.descs [] [] 0 with
  | error e' =>
    simp only [Except.error.injEq, reduceCtorEq, false_and, exists_false, or_false]
  | ok t =>
    obtain ⟨ids, nd, cid⟩ := t
    simp only [reduceCtorEq, false_or, Except.ok.injEq, Prod.mk.injEq]
    constructor
    · intro h
      split at h
      · next hany => exact ⟨ids, nd, cid, ⟨rfl, rfl, rfl⟩, hany⟩
      · cases h
    · rintro ⟨ids', nd', cid', ⟨rfl, rfl, rfl⟩, hany⟩
      rw [if_pos hany]

/-- `register_alreadyReg_iff` on the descriptors: `AlreadyReg` iff the first descriptor that is not
    accepted clashes with no common label and has an id in use, or all are accepted and the collector
    id (the wrapping sum of the descriptor ids) is taken -/
theorem register_alreadyReg_first (r : Reg) (c : Coll) :
    (r.register c).2 = .error .alreadyReg ↔
      (∃ pre d post, c.descs = pre ++ d :: post ∧ Accepted r pre ∧
        clashesCommon r.labels d = false ∧ r.descIds.contains d.id = true) ∨
      (Accepted r c.descs ∧ r.collectors.any (·.1 == cidOf (c.descs.map (·.id))) = true) := by
  rw [register_err_first]
  unfold RefusedWith
  simp only [reduceCtorEq, false_and, or_false, true_and]

/-- **unregister_ok_iff** — succeeds exactly when a collector with that collector id is registered -/
theorem unregister_ok_iff (r : Reg) (c : Coll) :
    (r.unregister c).2 = .ok () ↔
      r.collectors.any (·.1 == (distinctIds c.descs []).foldl (· + ·) (0 : UInt64)) = true := by
  unfold Reg.unregister
  simp only []
  split <;> simp_all

/-- after a successful unregister the collector id is free again and the ids are released -/
theorem unregister_frees (r : Reg) (c : Coll) (h : (r.unregister c).2 = .ok ()) :
    (r.unregister c).1.collectors.any (·.1 == (distinctIds c.descs []).foldl (· + ·) (0 : UInt64)) = false ∧
    ∀ i ∈ distinctIds c.descs [], (r.unregister c).1.descIds.contains i = false := by
  have hc := (unregister_ok_iff r c).1 h
  unfold Reg.unregister
  simp only [hc, if_true]
  constructor
  · simp [List.any_filter]
  · intro i hi
    simp
    intro _
    exact hi

/-- **unregister_then_register_again** — a collector that was admitted and then unregistered is
    admitted again: unregister releases exactly its ids and its collector id, and the recorded
    signatures of its names are its own. -/
theorem unregister_then_register_again (r : Reg) (c : Coll) (h : (r.register c).2 = .ok ()) :
    ((r.register c).1.unregister c).2 = .ok () ∧
    (((r.register c).1.unregister c).1.register c).2 = .ok () := by
  obtain ⟨hst, hfree, hself⟩ := register_ok_state r c h
  obtain ⟨hok, hnd⟩ := register_ok_sound r c h
  have hdi : distinctIds c.descs [] = c.descs.map (·.id) := by
    have := distinctIds_of_nodup c.descs [] (by simpa using hnd)
    simpa using this
  have hun : ((r.register c).1.unregister c).2 = .ok () := by
    rw [unregister_ok_iff, hdi, hst]
    simp
  refine ⟨hun, ?_⟩
  obtain ⟨hf1, hf2⟩ := unregister_frees _ c hun
  rw [register_ok_iff]
  refine ⟨?_, hnd, hself, ?_⟩
  · intro d hd
    refine ⟨?_, ?_, ?_⟩
    · have : ((r.register c).1.unregister c).1.labels = r.labels := by
        rw [hst]; unfold Reg.unregister; simp only []; split <;> rfl
      rw [this]; exact (hok d hd).1
    · apply hf2
      rw [hdi]; exact List.mem_map.2 ⟨d, hd, rfl⟩
    · intro hh hlk
      have hdim : ((r.register c).1.unregister c).1.dimHashes = (r.register c).1.dimHashes := by
        unfold Reg.unregister; simp only []; split <;> rfl
      rw [hdim, hst] at hlk
      simp only at hlk
      rw [dims_after r.dimHashes c.descs hself d.fqName] at hlk
      cases hf : c.descs.find? (·.fqName == d.fqName) with
      | some d' =>
        rw [hf] at hlk
        have hd' := List.mem_of_find?_eq_some hf
        have hn : d'.fqName = d.fqName := by simpa using List.find?_some hf
        rw [← Option.some.inj hlk]
        exact hself d' hd' d hd hn
      | none =>
        have := List.find?_eq_none.1 hf d hd
        simp at this
  · rw [hdi] at hf1; exact hf1

/-- after a successful unregister the collector's families are no longer collected: gather runs over
    the remaining collectors only -/
theorem gather_after_unregister (r : Reg) (c : Coll) (h : (r.unregister c).2 = .ok ()) :
    (r.unregister c).1.gather =
      gatherFams r.pref r.labels ((r.collectors.filter (·.1 != cidOf (distinctIds c.descs []))).flatMap (·.2.fams)) := by
  have hc := (unregister_ok_iff r c).1 h
  unfold Reg.unregister Reg.gather
  simp only [hc, if_true]

/-- non-vacuity / F3 regression: a two-descriptor collector refused at its second descriptor leaves
    the registry exactly as it was, so a later registration under the first name with another help
    text is admitted. -/
def dA : Desc := ⟨strOfString "m", strOfString "h", [], [], 1, 10⟩
def dB : Desc := ⟨strOfString "m2", strOfString "h", [], [], 2, 20⟩
def dA' : Desc := ⟨strOfString "m", strOfString "other", [⟨strOfString "z", strOfString "1"⟩], [], 3, 11⟩
def r1 : Reg := (({} : Reg).register ⟨[dB], []⟩).1
def isErr (x : Except RErr Unit) (e : RErr) : Bool := match x with | .error e' => e' == e | .ok _ => false
def isOk (x : Except RErr Unit) : Bool := match x with | .ok _ => true | .error _ => false
example : isErr (r1.register ⟨[dA, dB], []⟩).2 .alreadyReg = true ∧
    isOk ((r1.register ⟨[dA, dB], []⟩).1.register ⟨[dA'], []⟩).2 = true := by decide +kernel

/-- non-vacuity of the error kinds: over a registry with common label `z` holding `dB` (id 2), the
    collector `[dA, dB]` is refused `AlreadyReg` at its second descriptor; `[dA, dA'']` (same name,
    other signature) and `[dA, dA]` (id repeated) are refused `Msg` at theirs; `[dA', dB]` is refused
    `Msg` although `dB`'s id is in use, because `dA'` (label `z`) comes first; registering `[dB]`
    again answers `AlreadyReg` (id in use). The other way to `AlreadyReg`: over a registry
    holding the collector `[dA, dB]` (ids 1 and 2, collector id 3), the one-descriptor collector `[dC]`
    with the unused id 3 passes the loop and is refused because its collector id 3 is taken. -/
def dA'' : Desc := ⟨strOfString "m", strOfString "other", [], [], 4, 11⟩
def dC : Desc := ⟨strOfString "m3", strOfString "h", [], [], 3, 30⟩
def r12 : Reg := (({} : Reg).register ⟨[dA, dB], []⟩).1
def loopOk (x : Except RErr (List UInt64 × List (Str × UInt64) × UInt64)) : Bool := match x with | .ok _ => true | .error _ => false
def rz : Reg := (({ labels := some [(strOfString "z", strOfString "0")] } : Reg).register ⟨[dB], []⟩).1
example : isErr (rz.register ⟨[dA, dB], []⟩).2 .alreadyReg = true ∧
    isErr (rz.register ⟨[dA, dA''], []⟩).2 .msg = true ∧
    isErr (rz.register ⟨[dA, dA], []⟩).2 .msg = true ∧
    isErr (rz.register ⟨[dA', dB], []⟩).2 .msg = true ∧
    isErr (rz.register ⟨[dB], []⟩).2 .alreadyReg = true ∧
    loopOk (regLoop r12 [dC] [] [] 0) = true ∧ isErr (r12.register ⟨[dC], []⟩).2 .alreadyReg = true := by decide +kernel

/-- non-vacuity of `admission_exact`: a history with a refused multi-descriptor registration and an
    unregister meets `WellKeyedHist` -/
example : WellKeyedHist (({} : Reg), []) [.reg ⟨[dB], []⟩, .reg ⟨[dA, dA'], []⟩, .unreg ⟨[dB], []⟩, .reg ⟨[dA], []⟩] := by
  refine ⟨?_, trivial⟩
  intro p hp hc
  revert p
  decide +kernel


/-! ### calls from several threads -/

/-- states reachable by the replay machine of one registry used from any number of threads (each
    `register` / `unregister` one critical section under the write lock, each `gather` one under the
    read lock; an `unregister` may first look its collector up under the read lock and end there when
    it is not registered - `unregister_precheck_accepted`), for any interleaving -/
inductive RReach (colls : List Coll) (prog : List (List String)) : RM.St → Prop
  | init : RReach colls prog (RM.init colls prog)
  | step {s s' it} : RReach colls prog s → RM.item s it = .ok s' → RReach colls prog s'

/-- **registry_linearizable** — for every accepted run: the registry is exactly what the sequential
    model (`Reg.register` / `Reg.unregister` / `Reg.gather`, to which `register_ok_iff`,
    `register_fail_noop` and `admission_exact` apply) yields when the committed calls are executed one
    at a time in commit order, and every call returned what the model returns at its place. Each call
    commits at a lock acquisition - a step of the call itself: its write lock (`register`,
    `unregister`), its read lock (`gather`; a pre-checked `unregister` whose collector is not registered:
    a refused unregister changes nothing, `registry_changes_only_under_write_lock`), or the write lock
    that follows a pre-check that found the collector, where it is looked up AGAIN -, so the order is
    consistent with real time: calls racing on one name are admitted exactly as if they had come one
    after the other. -/
theorem registry_linearizable {colls : List Coll} {prog : List (List String)} {s : RM.St}
    (h : RReach colls prog s) : s.colls = colls ∧ specRunR colls {} s.lin = some s.reg := by
  induction h with
  | init => exact ⟨rfl, by simp [RM.init, specRunR]⟩
  | step _ hs ih =>
    obtain ⟨hc, hl⟩ := ih
    cases rItem_trans hs with
    | frame hc' hr hl' => exact ⟨hc'.trans hc, by rw [hr, hl']; exact hl⟩
    | eff t i op hc' hr hl' =>
      refine ⟨hc'.trans hc, ?_⟩
      rw [hr, hl']
      simp only [RM.rEff, specRunR_append, hl, Option.bind_some, specRunR, hc, if_true]


/-! ### the commit order is consistent with real time -/

/-- the states of accepted runs are the continuations (`RRun`) of the initial state -/
theorem rReach_iff_rRun {colls : List Coll} {prog : List (List String)} {s : RM.St} :
    RReach colls prog s ↔ RRun (RM.init colls prog) s := by
  constructor
  · intro h
    induction h with
    | init => exact .init
    | step _ hs ih => exact .step ih hs
  · intro h
    induction h with
    | init => exact .init
    | step _ hs ih => exact .step ih hs

/-- **registry_commits_within_call** — every entry of the commit log was appended by a step of its
    own call, between that call's call mark and its return mark: an accepted item that changes the
    log is an EVENT (the lock acquisition) of a thread whose call is open (`pc ≠ none`: the call mark
    has been accepted, the return mark has not), it appends exactly one entry `x`, and `x` carries
    this thread and the index of that open call (which the step does not close: `idx` unchanged).
    Call marks, return marks and the unlock events leave the log as it is. -/
theorem registry_commits_within_call {s s' : RM.St} {it : Conc.Item} (h : RM.item s it = .ok s') :
    s'.lin = s.lin ∨
    ∃ e th x, it = .ev e ∧ s.ths[e.tid]? = some th ∧ th.pc.isSome = true ∧
      s'.lin = s.lin ++ [x] ∧ x.tid = e.tid ∧ x.idx = th.idx ∧
      ∃ th', s'.ths[e.tid]? = some th' ∧ th'.idx = th.idx ∧ th'.ops = th.ops :=
  rItem_commit_within_call h

/-- **registry_log_invariant** (the invariant behind the real-time theorem) — in every state of an
    accepted run every entry `e` of the commit log belongs to an existing thread, and either to a call
    that has returned (`e.idx <` the thread's call index) or to the thread's current call, which is
    then open or has just completed (`pc.isSome || retv.isSome`): nothing is ever logged for a call
    that has not started -/
theorem registry_log_invariant {colls : List Coll} {prog : List (List String)} {s : RM.St}
    (h : RReach colls prog s) :
    ∀ e ∈ s.lin, ∃ th, s.ths[e.tid]? = some th ∧
      (e.idx < th.idx ∨ (e.idx = th.idx ∧ (th.pc.isSome || th.retv.isSome) = true)) :=
  rRun_inv (rReach_iff_rRun.1 h)

/-- **registry_returned_call_is_final** — once a call `(t, i)` has returned (state `s`), no later
    step commits anything for it: in every continuation `s'`, all its log entries lie inside the log
    of `s` (which is a prefix of the log of `s'`) -/
theorem registry_returned_call_is_final {s s' : RM.St} (h' : RRun s s') {t i : Nat} {th : Conc.Th RM.RPc}
    (hth : s.ths[t]? = some th) (hret : i < th.idx) {p : Nat} {x : RM.RLin}
    (hx : s'.lin[p]? = some x) (hxt : x.tid = t ∧ x.idx = i) : p < s.lin.length ∧ s.lin <+: s'.lin :=
  ⟨rRun_returned_pos h' hth hret hx hxt, rRun_lin_prefix h'⟩

/-- **registry_real_time_order** — the commit order of the registry machine is consistent with real
    time. Take any state `s` of an accepted run and any continuation to `s'`. A call (`t`, `i`)
    (`register` / `unregister` / `gather`) that has RETURNED in `s` (`i <` the call index of thread
    `t`) and a call (`t'`, `i'`) that in `s` has not STARTED - thread `t'` has not reached it yet
    (`idx < i'`), or it is the next call of `t'` and `t'` is idle (no call open, none waiting for its
    return mark): wherever the two appear in the later commit log, the first is before the second.
    So a `gather` that begins after a `register` has returned sees it, and one that returned before
    the `register` began does not. -/
theorem registry_real_time_order {colls : List Coll} {prog : List (List String)} {s s' : RM.St}
    (h : RReach colls prog s) (h' : RRun s s')
    {t t' : Nat} {th th' : Conc.Th RM.RPc} (hth : s.ths[t]? = some th) (hth' : s.ths[t']? = some th')
    {i i' : Nat} (hret : i < th.idx)
    (hnot : th'.idx < i' ∨ (i' = th'.idx ∧ th'.pc = none ∧ th'.retv = none))
    {p q : Nat} {x y : RM.RLin} (hx : s'.lin[p]? = some x) (hy : s'.lin[q]? = some y)
    (hxt : x.tid = t ∧ x.idx = i) (hyt : y.tid = t' ∧ y.idx = i') : p < q :=
  rRun_real_time h' hth hret (rRun_no_entry_not_started (rReach_iff_rRun.1 h) hth' hnot) hx hy hxt hyt

/-- the same for a call (`t'`, `i'`) that may have started but for which nothing has been committed
    yet in `s` (it has not acquired the lock) -/
theorem registry_real_time_order_uncommitted {s s' : RM.St} (h' : RRun s s')
    {t t' : Nat} {th : Conc.Th RM.RPc} (hth : s.ths[t]? = some th)
    {i i' : Nat} (hret : i < th.idx) (hno : ∀ e ∈ s.lin, ¬ (e.tid = t' ∧ e.idx = i'))
    {p q : Nat} {x y : RM.RLin} (hx : s'.lin[p]? = some x) (hy : s'.lin[q]? = some y)
    (hxt : x.tid = t ∧ x.idx = i) (hyt : y.tid = t' ∧ y.idx = i') : p < q :=
  rRun_real_time h' hth hret hno hx hy hxt hyt

/-! ### the pre-checked unregister: a read-locked lookup before the write-locked section -/

/-- **registry_changes_only_under_write_lock** — an accepted event that is not a write-lock
    acquisition leaves the registry exactly as it is. In particular the read lock of a pre-checked
    `unregister` - which COMMITS the unregister when the collector is not registered - changes nothing:
    what it commits is a refused unregister (`unregister_fail_noop`). -/
theorem registry_changes_only_under_write_lock {s s' : RM.St} {e : Conc.Ev} (h : RM.step s e = .ok s')
    (hk : e.k ≠ "X") : s'.reg = s.reg :=
  rStep_reg_unchanged h hk

/-- **unregister_precheck_commit_is_noop** — the pre-check `RM.unregFails` under the read lock is the
    specification's own answer (`true` iff `specApply … (.unregister i)` on the current registry does
    not answer "ok"), and whenever it is `true` performing that unregister returns the registry
    unchanged - so committing it under the READ lock is sound. -/
theorem unregister_precheck_commit_is_noop (colls : List Coll) (r : Reg) (i : Nat) :
    (RM.unregFails colls r i = true ↔ (RM.specApply colls r (.unregister i)).2 ≠ "ok") ∧
    (RM.unregFails colls r i = true → (RM.specApply colls r (.unregister i)).1 = r) :=
  ⟨unregFails_iff colls r i, unregFails_noop colls r i⟩

/-- the collector of the example runs, the registry holding it, and the registry after its removal -/
def cA : Coll := ⟨[dA], []⟩
def rA : Reg := (({} : Reg).register cA).1
def rB : Reg := (rA.unregister cA).1

/-- closed facts about the model on these: `cA` is admitted to the empty registry, cannot be
    unregistered from it, can be unregistered from `rA`, and not a second time -/
theorem cA_facts : isOk (({} : Reg).register cA).2 = true ∧ isErr (({} : Reg).unregister cA).2 .msg = true ∧
    isOk (rA.unregister cA).2 = true ∧ isErr (rB.unregister cA).2 .msg = true ∧ rB.collectors.isEmpty = true := by
  decide +kernel

theorem isOk_eq {x : Except RErr Unit} (h : isOk x = true) : x = .ok () := by
  cases x with
  | ok u => rfl
  | error e => simp [isOk] at h

theorem isErr_eq {x : Except RErr Unit} {e : RErr} (h : isErr x e = true) : x = .error e := by
  cases x with
  | ok u => simp [isErr] at h
  | error e' =>
    simp only [isErr] at h
    cases e <;> cases e' <;> first | rfl | exact absurd h (by decide)

/-- the specification on the example: register / unregister of collector 0 over `{}`, `rA`, `rB` -/
theorem specApply_reg_cA : RM.specApply [cA] {} (.register 0) = (rA, "ok") := by
  have : ({} : Reg).register cA = (rA, .ok ()) := Prod.ext rfl (isOk_eq cA_facts.1)
  simp [RM.specApply, this]
theorem specApply_unreg_empty : RM.specApply [cA] {} (.unregister 0) = ({}, "err:Msg") := by
  have h := isErr_eq cA_facts.2.1
  have : ({} : Reg).unregister cA = ({}, .error .msg) := Prod.ext (unregister_fail_noop _ _ _ h) h
  simp [RM.specApply, this, RM.showErr]
theorem specApply_unreg_rA : RM.specApply [cA] rA (.unregister 0) = (rB, "ok") := by
  have : rA.unregister cA = (rB, .ok ()) := Prod.ext rfl (isOk_eq cA_facts.2.2.1)
  simp [RM.specApply, this]
theorem specApply_unreg_rB : RM.specApply [cA] rB (.unregister 0) = (rB, "err:Msg") := by
  have h := isErr_eq cA_facts.2.2.2.1
  have : rB.unregister cA = (rB, .error .msg) := Prod.ext (unregister_fail_noop _ _ _ h) h
  simp [RM.specApply, this, RM.showErr]
/-- the pre-check on the example: fails on `{}` and `rB`, finds the collector in `rA` -/
theorem unregFails_empty : RM.unregFails [cA] {} 0 = true := by
  rw [unregFails_iff, specApply_unreg_empty]; decide
theorem unregFails_rA : RM.unregFails [cA] rA 0 = false := by
  have := unregFails_iff [cA] rA 0
  rw [specApply_unreg_rA] at this
  simpa using this
theorem unregFails_rB : RM.unregFails [cA] rB 0 = true := by
  rw [unregFails_iff, specApply_unreg_rB]; decide

open Prom.Conc in
/-- **unregister_precheck_accepted** — the machine accepts an `unregister` that first looks its
    collector up under the READ lock, and both outcomes of that lookup are reachable (collectors
    `[cA]`; the traces are in `Lemmas/C06RealTime.lean`):
    (1) `unregAbsentTrace`: the collector is not registered; the call commits `.unregister 0` with
        result "err:Msg" at its read lock, completes at the read unlock and returns "err:Msg" - the
        whole run contains no write lock; the program is finished (`allDone`), the lock is free, the
        log is that one entry, the registry is the empty one it started as;
    (2) `unregPresentTrace`: the collector is registered; after the read-locked section (the first 7
        items) NOTHING has been committed for the unregister (the log is the `register` alone, the
        registry still `rA`) and the thread expects the write lock (`unrNeedW`); the write-locked section
        then commits `.unregister 0` with result "ok", the call returns "ok", the collector is gone;
    (3) `unregGapTrace`: as (2), but another thread's (pre-checked, successful) `unregister` of the same
        collector runs between thread 0's read-locked lookup and its write-locked section: thread 0's
        unregister commits AFTER it, with result "err:Msg", and returns "err:Msg".
    All three end states are `RReach`able, so `registry_linearizable`, `registry_real_time_order`,
    `registry_log_invariant` … apply to them. -/
theorem unregister_precheck_accepted :
    (∃ s, runItems RM.item (RM.init [cA] [["unreg:0"]]) unregAbsentTrace 0 = .ok s ∧
      RReach [cA] [["unreg:0"]] s ∧ allDone s.ths = true ∧
      s.lin = [⟨0, 0, .unregister 0, "err:Msg"⟩] ∧ s.reg = {} ∧ s.lockW = none ∧ s.lockR = []) ∧
    (∃ s1 s, runItems RM.item (RM.init [cA] [["reg:0", "unreg:0"]]) (unregPresentTrace.take 7) 0 = .ok s1 ∧
      s1.lin = [⟨0, 0, .register 0, "ok"⟩] ∧ s1.reg = rA ∧
      s1.ths.map (·.pc) = [some (.unrNeedW 0)] ∧ s1.lockW = none ∧ s1.lockR = [] ∧
      runItems RM.item (RM.init [cA] [["reg:0", "unreg:0"]]) unregPresentTrace 0 = .ok s ∧
      RReach [cA] [["reg:0", "unreg:0"]] s ∧ allDone s.ths = true ∧
      s.lin = [⟨0, 0, .register 0, "ok"⟩, ⟨0, 1, .unregister 0, "ok"⟩] ∧ s.reg = rB ∧
      s.reg.collectors.isEmpty = true ∧ s.lockW = none ∧ s.lockR = []) ∧
    (∃ s, runItems RM.item (RM.init [cA] [["reg:0", "unreg:0"], ["unreg:0"]]) unregGapTrace 0 = .ok s ∧
      RReach [cA] [["reg:0", "unreg:0"], ["unreg:0"]] s ∧ allDone s.ths = true ∧
      s.lin = [⟨0, 0, .register 0, "ok"⟩, ⟨1, 0, .unregister 0, "ok"⟩, ⟨0, 1, .unregister 0, "err:Msg"⟩] ∧
      s.reg = rB ∧ s.lockW = none ∧ s.lockR = []) := by
  have reach : ∀ {prog tr s}, runItems RM.item (RM.init [cA] prog) tr 0 = .ok s → RReach [cA] prog s :=
    fun hr => rReach_iff_rRun.2 (runItems_rRun hr)
  refine ⟨?_, ?_, ?_⟩
  · have h : ∃ s, runItems RM.item (RM.init [cA] [["unreg:0"]]) unregAbsentTrace 0 = .ok s ∧
        allDone s.ths = true ∧
        s.lin = [⟨0, 0, .unregister 0, "err:Msg"⟩] ∧ s.reg = {} ∧ s.lockW = none ∧ s.lockR = [] := by
      simp [runItems, unregAbsentTrace, RM.init, RM.item, RM.step, RM.rEff, Conc.guard, openCall, closeCall, allDone,
        repr_0, parseOp_unreg_0, unregFails_empty, specApply_unreg_empty]
    obtain ⟨s, hr, h1⟩ := h
    exact ⟨s, hr, reach hr, h1⟩
  · have h : ∃ s1 s, runItems RM.item (RM.init [cA] [["reg:0", "unreg:0"]]) (unregPresentTrace.take 7) 0 = .ok s1 ∧
        s1.lin = [⟨0, 0, .register 0, "ok"⟩] ∧ s1.reg = rA ∧
        s1.ths.map (·.pc) = [some (.unrNeedW 0)] ∧ s1.lockW = none ∧ s1.lockR = [] ∧
        runItems RM.item (RM.init [cA] [["reg:0", "unreg:0"]]) unregPresentTrace 0 = .ok s ∧
        allDone s.ths = true ∧
        s.lin = [⟨0, 0, .register 0, "ok"⟩, ⟨0, 1, .unregister 0, "ok"⟩] ∧ s.reg = rB ∧
        s.reg.collectors.isEmpty = true ∧ s.lockW = none ∧ s.lockR = [] := by
      simp [runItems, unregPresentTrace, RM.init, RM.item, RM.step, RM.rEff, Conc.guard, openCall, closeCall, allDone,
        repr_0, repr_1, parseOp_unreg_0, parseOp_reg_0, unregFails_rA, specApply_reg_cA, specApply_unreg_rA]
      exact List.isEmpty_iff.1 cA_facts.2.2.2.2
    obtain ⟨s1, s, h1, h2, h3, h4, h5, h6, hr, h7⟩ := h
    exact ⟨s1, s, h1, h2, h3, h4, h5, h6, hr, reach hr, h7⟩
  · have h : ∃ s, runItems RM.item (RM.init [cA] [["reg:0", "unreg:0"], ["unreg:0"]]) unregGapTrace 0 = .ok s ∧
        allDone s.ths = true ∧
        s.lin = [⟨0, 0, .register 0, "ok"⟩, ⟨1, 0, .unregister 0, "ok"⟩, ⟨0, 1, .unregister 0, "err:Msg"⟩] ∧
        s.reg = rB ∧ s.lockW = none ∧ s.lockR = [] := by
      simp [runItems, unregGapTrace, RM.init, RM.item, RM.step, RM.rEff, Conc.guard, openCall, closeCall, allDone,
        repr_0, repr_1, parseOp_unreg_0, parseOp_reg_0, unregFails_rA, specApply_reg_cA, specApply_unreg_rA,
        specApply_unreg_rB]
    obtain ⟨s, hr, h1⟩ := h
    exact ⟨s, hr, reach hr, h1⟩

end Prom.C06
