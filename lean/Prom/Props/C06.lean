import Prom.Lemmas.RegistryInv
import Prom.Lemmas.C06Conc

namespace Prom.C06
open Prom
/-- **register_fail_noop** — a refused registration returns the registry *unchanged*
    (false of the pinned code before the F3 repair, which recorded dimension hashes inside the loop). -/
theorem register_fail_noop (r : Reg) (c : Coll) (e : RErr) (h : (r.register c).2 = .error e) :
    (r.register c).1 = r := by
  unfold Reg.register at *
  cases hl : regLoop r c.descs [] [] 0 with
  | error e' => simp
  | ok t =>
    obtain ⟨ids, nd, cid⟩ := t
    rw [hl] at h
    simp only [] at h ⊢
    split
    · rfl
    · rename_i hc
      simp [hc] at h

/-- **unregister_fail_noop** -/
theorem unregister_fail_noop (r : Reg) (c : Coll) (e : RErr) (h : (r.unregister c).2 = .error e) :
    (r.unregister c).1 = r := by
  unfold Reg.unregister at *
  simp only [] at h ⊢
  split
  · rename_i hc; simp [hc] at h
  · rfl

/-- **register_ok_sound** — an admitted collector had no descriptor id in use, agreed with every
    recorded dimension hash of its names, clashed with no common label, and had pairwise distinct
    descriptors. -/
theorem register_ok_sound (r : Reg) (c : Coll) (h : (r.register c).2 = .ok ()) :
    (∀ d ∈ c.descs, clashesCommon r.labels d = false ∧ r.descIds.contains d.id = false ∧
        ∀ hh, dimLookup r.dimHashes d.fqName = some hh → hh = d.dimHash) ∧
    (c.descs.map (·.id)).Nodup := by
  unfold Reg.register at h
  cases hl : regLoop r c.descs [] [] 0 with
  | error e => rw [hl] at h; simp at h
  | ok t =>
    obtain ⟨ids, nd, cid⟩ := t
    obtain ⟨h1, h2, h3, _⟩ := regLoop_ok r _ _ _ _ _ _ _ hl
    refine ⟨h1, ?_⟩
    have := h3 List.nodup_nil
    simpa [h2] using this

/-- **register_ok_complete** — the converse: a collector all of whose descriptors pass the three
    checks (id not in use, recorded dimension hash of the name agrees, no common-label clash), whose
    descriptors are pairwise distinct and agree among themselves on the dimension hash of a shared
    name, and whose collector id is free, IS admitted — registration refuses nothing else. -/
theorem register_ok_complete (r : Reg) (c : Coll)
    (hok : ∀ d ∈ c.descs, DescOk r d) (hnd : (c.descs.map (·.id)).Nodup) (hself : SelfConsistent c.descs)
    (hfree : r.collectors.any (·.1 == (c.descs.map (·.id)).foldl (· + ·) (0 : UInt64)) = false) :
    (r.register c).2 = .ok () := by
  obtain ⟨res, hres⟩ := regLoop_complete r c.descs [] [] 0 hok (by simpa using hnd)
    (by intro d _ h hl; simp [dimLookup] at hl) hself
  obtain ⟨ids, nd, cid⟩ := res
  obtain ⟨_, _, _, hcid⟩ := regLoop_ok r _ _ _ _ _ _ _ hres
  unfold Reg.register
  rw [hres]
  simp only []
  rw [hcid, hfree]
  simp

/-- **register_ok_iff** — admission, exactly: a registration succeeds iff every descriptor passes
    the three registry-level checks, the collector's descriptors are pairwise distinct and agree among
    themselves on the signature of a shared name, and the collector (its id) is not registered. -/
theorem register_ok_iff (r : Reg) (c : Coll) :
    (r.register c).2 = .ok () ↔
      (∀ d ∈ c.descs, DescOk r d) ∧ (c.descs.map (·.id)).Nodup ∧ SelfConsistent c.descs ∧
      r.collectors.any (·.1 == cidOf (c.descs.map (·.id))) = false := by
  constructor
  · intro h
    obtain ⟨h1, h2⟩ := register_ok_sound r c h
    obtain ⟨_, h3, h4⟩ := register_ok_state r c h
    exact ⟨h1, h2, h4, h3⟩
  · rintro ⟨h1, h2, h3, h4⟩
    exact register_ok_complete r c h1 h2 h3 h4

/-- **admission_exact** — over ANY history of register / unregister calls (successful or refused)
    starting from an empty registry: the next registration succeeds exactly when no descriptor of the
    collector has the id of a descriptor of a *currently registered* collector, none disagrees in
    its help/label-name signature with a descriptor *ever successfully registered* under the same
    name (`ever` grows only on success and survives unregister), none repeats a common label, the
    collector's own descriptors are distinct and mutually consistent, and the collector is not
    registered. (`WellKeyedHist`: each unregister call names its collector by its descriptors, not by
    a colliding wrapping sum of ids.) -/
theorem admission_exact (labels : Option (List (Str × Str))) (pref : Option Str) (ops : List ROp)
    (hwk : WellKeyedHist ({ labels := labels, pref := pref }, []) ops) (c : Coll) :
    let s := ops.foldl stepR (({ labels := labels, pref := pref } : Reg), ([] : List Desc))
    (s.1.register c).2 = .ok () ↔
      (∀ d ∈ c.descs, clashesCommon labels d = false ∧ d.id ∉ curIds s.1 ∧
        ∀ e ∈ s.2, e.fqName = d.fqName → e.dimHash = d.dimHash) ∧
      (c.descs.map (·.id)).Nodup ∧ SelfConsistent c.descs ∧
      s.1.collectors.any (·.1 == cidOf (c.descs.map (·.id))) = false := by
  intro s
  have inv : RegInv s.1 s.2 := regInv_history ops _ (regInv_init labels pref) hwk
  have hl : s.1.labels = labels := by
    show (ops.foldl stepR _).1.labels = labels
    clear inv hwk
    generalize hs0 : (({ labels := labels, pref := pref } : Reg), ([] : List Desc)) = s0
    have h0 : s0.1.labels = labels := by rw [← hs0]
    clear hs0
    induction ops generalizing s0 with
    | nil => exact h0
    | cons op t ih =>
      simp only [List.foldl_cons]
      apply ih
      cases op with
      | reg c =>
        show (s0.1.register c).1.labels = labels
        unfold Reg.register
        split
        · exact h0
        · split <;> exact h0
      | unreg c =>
        show (s0.1.unregister c).1.labels = labels
        unfold Reg.unregister
        simp only []
        split <;> exact h0
  rw [register_ok_iff]
  constructor
  · rintro ⟨h1, h2, h3, h4⟩
    refine ⟨fun d hd => ?_, h2, h3, h4⟩
    have := (descOk_iff inv d).1 (h1 d hd)
    rw [hl] at this
    exact this
  · rintro ⟨h1, h2, h3, h4⟩
    refine ⟨fun d hd => (descOk_iff inv d).2 ?_, h2, h3, h4⟩
    rw [hl]
    exact h1 d hd

/-- re-registering a registered single-descriptor collector (or any collector whose descriptor id
    is in use) fails with `AlreadyReg` -/
theorem register_same_single_alreadyReg (r : Reg) (d : Desc) (fams : List Family)
    (hc : clashesCommon r.labels d = false) (hid : r.descIds.contains d.id = true) :
    (r.register ⟨[d], fams⟩).2 = .error .alreadyReg := by
  have : regLoop r [d] [] [] 0 = .error .alreadyReg := by
    unfold regLoop
    rw [if_neg (by rw [hc]; simp), if_pos hid]
  unfold Reg.register
  simp only [this]

/-- **unregister_ok_iff** — succeeds exactly when a collector with that collector id is registered -/
theorem unregister_ok_iff (r : Reg) (c : Coll) :
    (r.unregister c).2 = .ok () ↔
      r.collectors.any (·.1 == (distinctIds c.descs []).foldl (· + ·) (0 : UInt64)) = true := by
  unfold Reg.unregister
  simp only []
  split <;> simp_all

/-- after a successful unregister the collector id is free again and the ids are released -/
theorem unregister_frees (r : Reg) (c : Coll) (h : (r.unregister c).2 = .ok ()) :
    (r.unregister c).1.collectors.any (·.1 == (distinctIds c.descs []).foldl (· + ·) (0 : UInt64)) = false ∧
    ∀ i ∈ distinctIds c.descs [], (r.unregister c).1.descIds.contains i = false := by
  have hc := (unregister_ok_iff r c).1 h
  unfold Reg.unregister
  simp only [hc, if_true]
  constructor
  · simp [List.any_filter]
  · intro i hi
    simp
    intro _
    exact hi

/-- **unregister_then_register_again** — a collector that was admitted and then unregistered is
    admitted again: unregister releases exactly its ids and its collector id, and the recorded
    signatures of its names are its own. -/
theorem unregister_then_register_again (r : Reg) (c : Coll) (h : (r.register c).2 = .ok ()) :
    ((r.register c).1.unregister c).2 = .ok () ∧
    (((r.register c).1.unregister c).1.register c).2 = .ok () := by
  obtain ⟨hst, hfree, hself⟩ := register_ok_state r c h
  obtain ⟨hok, hnd⟩ := register_ok_sound r c h
  have hdi : distinctIds c.descs [] = c.descs.map (·.id) := by
    have := distinctIds_of_nodup c.descs [] (by simpa using hnd)
    simpa using this
  have hun : ((r.register c).1.unregister c).2 = .ok () := by
    rw [unregister_ok_iff, hdi, hst]
    simp
  refine ⟨hun, ?_⟩
  obtain ⟨hf1, hf2⟩ := unregister_frees _ c hun
  rw [register_ok_iff]
  refine ⟨?_, hnd, hself, ?_⟩
  · intro d hd
    refine ⟨?_, ?_, ?_⟩
    · have : ((r.register c).1.unregister c).1.labels = r.labels := by
        rw [hst]; unfold Reg.unregister; simp only []; split <;> rfl
      rw [this]; exact (hok d hd).1
    · apply hf2
      rw [hdi]; exact List.mem_map.2 ⟨d, hd, rfl⟩
    · intro hh hlk
      have hdim : ((r.register c).1.unregister c).1.dimHashes = (r.register c).1.dimHashes := by
        unfold Reg.unregister; simp only []; split <;> rfl
      rw [hdim, hst] at hlk
      simp only at hlk
      rw [dims_after r.dimHashes c.descs hself d.fqName] at hlk
      cases hf : c.descs.find? (·.fqName == d.fqName) with
      | some d' =>
        rw [hf] at hlk
        have hd' := List.mem_of_find?_eq_some hf
        have hn : d'.fqName = d.fqName := by simpa using List.find?_some hf
        rw [← Option.some.inj hlk]
        exact hself d' hd' d hd hn
      | none =>
        have := List.find?_eq_none.1 hf d hd
        simp at this
  · rw [hdi] at hf1; exact hf1

/-- after a successful unregister the collector's families are no longer collected: gather runs over
    the remaining collectors only -/
theorem gather_after_unregister (r : Reg) (c : Coll) (h : (r.unregister c).2 = .ok ()) :
    (r.unregister c).1.gather =
      gatherFams r.pref r.labels ((r.collectors.filter (·.1 != cidOf (distinctIds c.descs []))).flatMap (·.2.fams)) := by
  have hc := (unregister_ok_iff r c).1 h
  unfold Reg.unregister Reg.gather
  simp only [hc, if_true]

/-- non-vacuity / F3 regression: a two-descriptor collector refused at its second descriptor leaves
    the registry exactly as it was, so a later registration under the first name with another help
    text is admitted. -/
def dA : Desc := ⟨strOfString "m", strOfString "h", [], [], 1, 10⟩
def dB : Desc := ⟨strOfString "m2", strOfString "h", [], [], 2, 20⟩
def dA' : Desc := ⟨strOfString "m", strOfString "other", [⟨strOfString "z", strOfString "1"⟩], [], 3, 11⟩
def r1 : Reg := (({} : Reg).register ⟨[dB], []⟩).1
def isErr (x : Except RErr Unit) (e : RErr) : Bool := match x with | .error e' => e' == e | .ok _ => false
def isOk (x : Except RErr Unit) : Bool := match x with | .ok _ => true | .error _ => false
example : isErr (r1.register ⟨[dA, dB], []⟩).2 .alreadyReg = true ∧
    isOk ((r1.register ⟨[dA, dB], []⟩).1.register ⟨[dA'], []⟩).2 = true := by decide +kernel

/-- non-vacuity of `admission_exact`: a history with a refused multi-descriptor registration and an
    unregister meets `WellKeyedHist` -/
example : WellKeyedHist (({} : Reg), []) [.reg ⟨[dB], []⟩, .reg ⟨[dA, dA'], []⟩, .unreg ⟨[dB], []⟩, .reg ⟨[dA], []⟩] := by
  refine ⟨?_, trivial⟩
  intro p hp hc
  revert p
  decide +kernel


/-! ### calls from several threads -/

/-- states reachable by the replay machine of one registry used from any number of threads (each
    `register` / `unregister` one critical section under the write lock, each `gather` one under the
    read lock), for any interleaving -/
inductive RReach (colls : List Coll) (prog : List (List String)) : RM.St → Prop
  | init : RReach colls prog (RM.init colls prog)
  | step {s s' it} : RReach colls prog s → RM.item s it = .ok s' → RReach colls prog s'

/-- **registry_linearizable** — for every accepted run: the registry is exactly what the sequential
    model (`Reg.register` / `Reg.unregister` / `Reg.gather`, to which `register_ok_iff`,
    `register_fail_noop` and `admission_exact` apply) yields when the committed calls are executed one
    at a time in commit order, and every call returned what the model returns at its place. Each call
    commits at its lock acquisition - a step of the call itself -, so the order is consistent with real
    time: calls racing on one name are admitted exactly as if they had come one after the other. -/
theorem registry_linearizable {colls : List Coll} {prog : List (List String)} {s : RM.St}
    (h : RReach colls prog s) : s.colls = colls ∧ specRunR colls {} s.lin = some s.reg := by
  induction h with
  | init => exact ⟨rfl, by simp [RM.init, specRunR]⟩
  | step _ hs ih =>
    obtain ⟨hc, hl⟩ := ih
    cases rItem_trans hs with
    | frame hc' hr hl' => exact ⟨hc'.trans hc, by rw [hr, hl']; exact hl⟩
    | eff t op hc' hr hl' =>
      refine ⟨hc'.trans hc, ?_⟩
      rw [hr, hl']
      simp only [RM.rEff, specRunR_append, hl, Option.bind_some, specRunR, hc, if_true]

end Prom.C06
