import Prom.Lemmas.RegistryHist

namespace Prom.C06
open Prom
/-- **register_fail_noop** — a refused registration returns the registry *unchanged*
    (false of the pinned code before the F3 repair, which recorded dimension hashes inside the loop). -/
theorem register_fail_noop (r : Reg) (c : Coll) (e : RErr) (h : (r.register c).2 = .error e) :
    (r.register c).1 = r := by
  unfold Reg.register at *
  cases hl : regLoop r c.descs [] [] 0 with
  | error e' => simp
  | ok t =>
    obtain ⟨ids, nd, cid⟩ := t
    rw [hl] at h
    simp only [] at h ⊢
    split
    · rfl
    · rename_i hc
      simp [hc] at h

/-- **unregister_fail_noop** -/
theorem unregister_fail_noop (r : Reg) (c : Coll) (e : RErr) (h : (r.unregister c).2 = .error e) :
    (r.unregister c).1 = r := by
  unfold Reg.unregister at *
  simp only [] at h ⊢
  split
  · rename_i hc; simp [hc] at h
  · rfl

/-- **register_ok_sound** — an admitted collector had no descriptor id in use, agreed with every
    recorded dimension hash of its names, clashed with no common label, and had pairwise distinct
    descriptors. -/
theorem register_ok_sound (r : Reg) (c : Coll) (h : (r.register c).2 = .ok ()) :
    (∀ d ∈ c.descs, clashesCommon r.labels d = false ∧ r.descIds.contains d.id = false ∧
        ∀ hh, dimLookup r.dimHashes d.fqName = some hh → hh = d.dimHash) ∧
    (c.descs.map (·.id)).Nodup := by
  unfold Reg.register at h
  cases hl : regLoop r c.descs [] [] 0 with
  | error e => rw [hl] at h; simp at h
  | ok t =>
    obtain ⟨ids, nd, cid⟩ := t
    obtain ⟨h1, h2, h3, _⟩ := regLoop_ok r _ _ _ _ _ _ _ hl
    refine ⟨h1, ?_⟩
    have := h3 List.nodup_nil
    simpa [h2] using this

/-- **register_ok_complete** — the converse: a collector all of whose descriptors pass the three
    checks (id not in use, recorded dimension hash of the name agrees, no common-label clash), whose
    descriptors are pairwise distinct and agree among themselves on the dimension hash of a shared
    name, and whose collector id is free, IS admitted — registration refuses nothing else. -/
theorem register_ok_complete (r : Reg) (c : Coll)
    (hok : ∀ d ∈ c.descs, DescOk r d) (hnd : (c.descs.map (·.id)).Nodup) (hself : SelfConsistent c.descs)
    (hfree : r.collectors.any (·.1 == (c.descs.map (·.id)).foldl (· + ·) (0 : UInt64)) = false) :
    (r.register c).2 = .ok () := by
  obtain ⟨res, hres⟩ := regLoop_complete r c.descs [] [] 0 hok (by simpa using hnd)
    (by intro d _ h hl; simp [dimLookup] at hl) hself
  obtain ⟨ids, nd, cid⟩ := res
  obtain ⟨_, _, _, hcid⟩ := regLoop_ok r _ _ _ _ _ _ _ hres
  unfold Reg.register
  rw [hres]
  simp only []
  rw [hcid, hfree]
  simp

/-- re-registering a registered single-descriptor collector (or any collector whose descriptor id
    is in use) fails with `AlreadyReg` -/
theorem register_same_single_alreadyReg (r : Reg) (d : Desc) (fams : List Family)
    (hc : clashesCommon r.labels d = false) (hid : r.descIds.contains d.id = true) :
    (r.register ⟨[d], fams⟩).2 = .error .alreadyReg := by
  have : regLoop r [d] [] [] 0 = .error .alreadyReg := by
    unfold regLoop
    rw [if_neg (by rw [hc]; simp), if_pos hid]
  unfold Reg.register
  simp only [this]

/-- **unregister_ok_iff** — succeeds exactly when a collector with that collector id is registered -/
theorem unregister_ok_iff (r : Reg) (c : Coll) :
    (r.unregister c).2 = .ok () ↔
      r.collectors.any (·.1 == (distinctIds c.descs []).foldl (· + ·) (0 : UInt64)) = true := by
  unfold Reg.unregister
  simp only []
  split <;> simp_all

/-- after a successful unregister the collector id is free again and the ids are released -/
theorem unregister_frees (r : Reg) (c : Coll) (h : (r.unregister c).2 = .ok ()) :
    (r.unregister c).1.collectors.any (·.1 == (distinctIds c.descs []).foldl (· + ·) (0 : UInt64)) = false ∧
    ∀ i ∈ distinctIds c.descs [], (r.unregister c).1.descIds.contains i = false := by
  have hc := (unregister_ok_iff r c).1 h
  unfold Reg.unregister
  simp only [hc, if_true]
  constructor
  · simp [List.any_filter]
  · intro i hi
    simp
    intro _
    exact hi

/-- non-vacuity / F3 regression: a two-descriptor collector refused at its second descriptor leaves
    the registry exactly as it was, so a later registration under the first name with another help
    text is admitted. -/
def dA : Desc := ⟨strOfString "m", strOfString "h", [], [], 1, 10⟩
def dB : Desc := ⟨strOfString "m2", strOfString "h", [], [], 2, 20⟩
def dA' : Desc := ⟨strOfString "m", strOfString "other", [⟨strOfString "z", strOfString "1"⟩], [], 3, 11⟩
def r1 : Reg := (({} : Reg).register ⟨[dB], []⟩).1
def isErr (x : Except RErr Unit) (e : RErr) : Bool := match x with | .error e' => e' == e | .ok _ => false
def isOk (x : Except RErr Unit) : Bool := match x with | .ok _ => true | .error _ => false
example : isErr (r1.register ⟨[dA, dB], []⟩).2 .alreadyReg = true ∧
    isOk ((r1.register ⟨[dA, dB], []⟩).1.register ⟨[dA'], []⟩).2 = true := by decide +kernel

end Prom.C06
