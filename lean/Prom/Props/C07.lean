import Prom.Lemmas.GatherDet
import Prom.Props.C06

namespace Prom.C07
open Prom
/-- **families_sorted_strict** — one family per name, in strictly increasing name order, for every
    iteration order of the collectors -/
theorem merged_names_strict (collected : List Family) :
    ((merged collected).map (·.name)).Pairwise (· < ·) :=
  merged_sorted_aux collected [] (by simp)

theorem families_sorted_strict (pref : Option Str) (labels : Option (List (Str × Str))) (collected : List Family) :
    ((gatherFams pref labels collected).map (·.name)).Pairwise (· < ·) := by
  have h := merged_names_strict collected
  rw [List.pairwise_map] at h
  unfold gatherFams
  rw [List.pairwise_map, List.pairwise_map]
  unfold merged at h
  refine h.imp ?_
  intro a b hab
  cases pref with
  | none => simpa [applyPrefix] using hab
  | some p =>
    simp only [applyPrefix]
    rw [List.append_assoc, List.append_assoc]
    exact List.append_left_lt (List.append_left_lt hab)

/-- **complete_exactly_once** — under each name, the merged family holds exactly the samples of all
    collected families of that name (each once; as a multiset — the order is fixed by the sort) -/
theorem complete_exactly_once (n : Str) (collected : List Family) :
    (samplesOf n (merged collected)).Perm (samplesOf n collected) := by
  have := merged_samples_aux n collected []
  simpa [merged, samplesOf] using this

/-- every output sample is a merged sample with the common labels appended, and sorting only permutes -/
theorem gather_family_samples (pref : Option Str) (labels : Option (List (Str × Str))) (collected : List Family)
    (f : Family) (hf : f ∈ gatherFams pref labels collected) :
    ∃ g ∈ merged collected, f.name = applyPrefix pref g.name ∧ f.help = g.help ∧ f.ty = g.ty ∧
      ∃ ss : List Sample, ss.Perm g.samples ∧ f.samples = ss.map fun s => { s with labels := s.labels ++ commonPairs labels } := by
  unfold gatherFams at hf
  simp only [List.mem_map] at hf
  obtain ⟨g, hg, rfl⟩ := hf
  exact ⟨g, hg, rfl, rfl, rfl, stableSortBy sampleLe g.samples, stableSortBy_perm _ _, rfl⟩

/-- **prefix_labels_everywhere** — the registry prefix is on every family name and the common labels
    (in name order, whatever the iteration order of the label map) end every sample's label list -/
theorem prefix_labels_everywhere (pref : Option Str) (labels : Option (List (Str × Str))) (collected : List Family)
    (f : Family) (hf : f ∈ gatherFams pref labels collected) :
    (∃ n, f.name = applyPrefix pref n) ∧ ∀ s ∈ f.samples, ∃ l, s.labels = l ++ commonPairs labels := by
  obtain ⟨g, _, hn, _, _, ss, _, hs⟩ := gather_family_samples pref labels collected f hf
  refine ⟨⟨g.name, hn⟩, ?_⟩
  intro s hs'
  rw [hs] at hs'
  obtain ⟨s0, _, rfl⟩ := List.mem_map.1 hs'
  exact ⟨s0.labels, rfl⟩

theorem no_empty_family (collected : List Family) : ∀ g ∈ merged collected, g.samples ≠ [] :=
  merged_nonempty_aux collected [] (by simp)

/-- the common labels are sorted by name for *every* order of the label map: this is what makes the
    output independent of the hash seed (false of the pinned code before the F5 repair) -/
theorem common_pairs_order_free (m m' : List (Str × Str)) (hp : m.Perm m')
    (hk : (m.map (·.1)).Nodup) : commonPairs (some m) = commonPairs (some m') := by
  unfold commonPairs
  simp only []
  apply stableSortBy_perm_eq (le := lpLe)
  · intro a b c; exact strLe_trans _ _ _
  · intro a b; exact strLe_total _ _
  · exact hp.map _
  · intro a b ha hb h1 h2
    obtain ⟨p, hp1, rfl⟩ := List.mem_map.1 ha
    obtain ⟨q, hq1, rfl⟩ := List.mem_map.1 hb
    have hn : p.1 = q.1 := strLe_antisymm _ _ h1 h2
    -- keys are unique, so equal names mean the same entry
    have : p = q := eq_of_nodup_map (·.1) hk hp1 hq1 hn
    rw [this]

/-- **samples_sorted** — within every gathered family the samples are in the order of the code's
    comparator (number of labels, then label values position by position, then timestamp), which is a
    total preorder (`sampleLe_trans`, `sampleLe_total`); the common labels are appended afterwards -/
theorem samples_sorted (pref : Option Str) (labels : Option (List (Str × Str))) (collected : List Family)
    (f : Family) (hf : f ∈ gatherFams pref labels collected) :
    ∃ ss : List Sample, ss.Pairwise (fun a b => sampleLe a b = true) ∧
      f.samples = ss.map fun s => { s with labels := s.labels ++ commonPairs labels } := by
  unfold gatherFams at hf
  simp only [List.mem_map] at hf
  obtain ⟨g, _, rfl⟩ := hf
  exact ⟨stableSortBy sampleLe g.samples, stableSortBy_pairwise sampleLe_trans sampleLe_total _, rfl⟩

/-- collectors registered under one name agree on help and type (guaranteed for library collectors
    of one kind by the registry's dimension check, C06 / C14) -/
def SameAttrs (c : List Family) : Prop :=
  ∀ f ∈ c, ∀ g ∈ c, f.samples ≠ [] → g.samples ≠ [] → f.name = g.name → f.help = g.help ∧ f.ty = g.ty

/-- under one name no two samples compare equal both ways unless they are the same sample (true when
    the label-value tuples under a name are pairwise distinct: C05 / C06) -/
def DistinctKeys (c : List Family) : Prop :=
  ∀ n, ∀ a ∈ samplesOf n c, ∀ b ∈ samplesOf n c, sampleLe a b = true → sampleLe b a = true → a = b

/-- **deterministic** — for every permutation of what the collectors return (= every registration
    order and every iteration order of the collector hash map, i.e. every hash seed) `gather()` returns
    the same list of families: same names in the same order, same help and type, same samples in the
    same order. -/
theorem deterministic (pref : Option Str) (labels : Option (List (Str × Str))) (c c' : List Family)
    (hp : c.Perm c') (ha : SameAttrs c) (hd : DistinctKeys c) :
    gatherFams pref labels c = gatherFams pref labels c' := by
  have hnames : (merged c).map (·.name) = (merged c').map (·.name) := by
    apply strict_sorted_ext _ _ (merged_names_strict c) (merged_names_strict c')
    intro x
    rw [merged_names_iff, merged_names_iff]
    constructor
    · rintro ⟨f, hf, h1, h2⟩; exact ⟨f, hp.mem_iff.1 hf, h1, h2⟩
    · rintro ⟨f, hf, h1, h2⟩; exact ⟨f, hp.mem_iff.2 hf, h1, h2⟩
  show List.map _ (merged c) = List.map _ (merged c')
  apply map_eq_of_names _ _ _ hnames
  intro g hg g' hg' hn
  obtain ⟨f, hf, hfne, hfn, hfh, hft⟩ := merged_attrs c g hg
  obtain ⟨f', hf', hfne', hfn', hfh', hft'⟩ := merged_attrs c' g' hg'
  have hf'c : f' ∈ c := hp.mem_iff.2 hf'
  obtain ⟨hh, ht⟩ := ha f hf f' hf'c hfne hfne' (by rw [hfn, hfn', hn])
  have hsamp : g.samples.Perm g'.samples := by
    have e1 := samplesOf_of_mem (merged c) (merged_names_strict c) g hg
    have e2 := samplesOf_of_mem (merged c') (merged_names_strict c') g' hg'
    rw [← e1, ← e2, hn]
    exact (complete_exactly_once g'.name c).trans ((samplesOf_perm g'.name hp).trans (complete_exactly_once g'.name c').symm)
  have hsort : stableSortBy sampleLe g.samples = stableSortBy sampleLe g'.samples := by
    apply stableSortBy_perm_eq sampleLe_trans sampleLe_total hsamp
    intro a b ha' hb' h1 h2
    have e1 := samplesOf_of_mem (merged c) (merged_names_strict c) g hg
    have hma : a ∈ samplesOf g.name c := (complete_exactly_once g.name c).subset (by rw [e1]; exact ha')
    have hmb : b ∈ samplesOf g.name c := (complete_exactly_once g.name c).subset (by rw [e1]; exact hb')
    exact hd g.name a hma b hmb h1 h2
  simp only [hn, hsort]
  have : g.help = g'.help := by rw [← hfh, ← hfh', hh]
  have : g.ty = g'.ty := by rw [← hft, ← hft', ht]
  cases g; cases g'; simp_all

/-- the registry prefix is applied injectively: two names with the same prefixed form are equal -/
theorem applyPrefix_inj (pref : Option Str) {a b : Str} (h : applyPrefix pref a = applyPrefix pref b) : a = b := by
  cases pref with
  | none => simpa [applyPrefix] using h
  | some p =>
    simp only [applyPrefix] at h
    exact List.append_cancel_left h

/-- **family_help_and_type** — every family returned by `gather()` carries the declared help and
    type of a collector that actually reported under that name: there is a collected family `c` with
    at least one sample whose (prefixed) name is the family's name and whose help and type are the
    family's help and type. Nothing is invented and nothing comes from an empty family. -/
theorem family_help_and_type (pref : Option Str) (labels : Option (List (Str × Str))) (collected : List Family)
    (f : Family) (hf : f ∈ gatherFams pref labels collected) :
    ∃ c ∈ collected, c.samples ≠ [] ∧ f.name = applyPrefix pref c.name ∧ f.help = c.help ∧ f.ty = c.ty := by
  obtain ⟨g, hg, hn, hh, ht, _⟩ := gather_family_samples pref labels collected f hf
  obtain ⟨c, hc, hne, hcn, hch, hct⟩ := merged_attrs collected g hg
  exact ⟨c, hc, hne, by rw [hn, hcn], by rw [hh, hch], by rw [ht, hct]⟩

/-- **family_help_type_unique** — if the collected families with samples agree on help and type
    under each name (`SameAttrs`; for help this is what registration enforces: the help string is part
    of the dimension hash, C06 / C14), then the help and type of a gathered family are THE help and
    type of its name: they equal those of *every* collected family with samples of that name, and this
    for every permutation `collected'` of what the collectors return (every registration order, every
    hash seed). Without the agreement hypothesis the first collector in iteration order would win. -/
theorem family_help_type_unique (pref : Option Str) (labels : Option (List (Str × Str)))
    (collected collected' : List Family) (hp : collected.Perm collected') (ha : SameAttrs collected)
    (f : Family) (hf : f ∈ gatherFams pref labels collected') :
    ∀ c ∈ collected, c.samples ≠ [] → applyPrefix pref c.name = f.name → f.help = c.help ∧ f.ty = c.ty := by
  intro c hc hne hn
  obtain ⟨c0, hc0, hne0, hn0, hh0, ht0⟩ := family_help_and_type pref labels collected' f hf
  have hc0' : c0 ∈ collected := hp.mem_iff.2 hc0
  have hnm : c0.name = c.name := applyPrefix_inj pref (by rw [← hn0, hn])
  obtain ⟨hh, ht⟩ := ha c0 hc0' c hc hne0 hne hnm
  exact ⟨by rw [hh0, hh], by rw [ht0, ht]⟩

/-- the same, with the declared help `h` and type `t` of a name `n` given explicitly: if every
    collected family with samples named `n` declares `(h, t)`, the gathered family named
    `applyPrefix pref n` carries `(h, t)` — in every permutation of the collected families -/
theorem family_help_type_of_name (pref : Option Str) (labels : Option (List (Str × Str)))
    (collected collected' : List Family) (hp : collected.Perm collected') (n : Str) (h : Str) (t : MType)
    (hdecl : ∀ c ∈ collected, c.samples ≠ [] → c.name = n → c.help = h ∧ c.ty = t)
    (f : Family) (hf : f ∈ gatherFams pref labels collected') (hn : f.name = applyPrefix pref n) :
    f.help = h ∧ f.ty = t := by
  obtain ⟨c0, hc0, hne0, hn0, hh0, ht0⟩ := family_help_and_type pref labels collected' f hf
  have hnm : c0.name = n := applyPrefix_inj pref (by rw [← hn0, hn])
  obtain ⟨hh, ht⟩ := hdecl c0 (hp.mem_iff.2 hc0) hne0 hnm
  exact ⟨by rw [hh0, hh], by rw [ht0, ht]⟩

/-- and such a family exists: a name under which some collector reported a sample appears (once,
    `families_sorted_strict`) in the output, for every permutation -/
theorem family_present (pref : Option Str) (labels : Option (List (Str × Str)))
    (collected collected' : List Family) (hp : collected.Perm collected')
    (c : Family) (hc : c ∈ collected) (hne : c.samples ≠ []) :
    ∃ f ∈ gatherFams pref labels collected', f.name = applyPrefix pref c.name := by
  have hm : c.name ∈ (merged collected').map (·.name) :=
    (merged_names_iff collected' c.name).2 ⟨c, hp.mem_iff.1 hc, hne, rfl⟩
  obtain ⟨g, hg, hgn⟩ := List.mem_map.1 hm
  refine ⟨_, List.mem_map.2 ⟨g, hg, rfl⟩, ?_⟩
  show applyPrefix pref g.name = applyPrefix pref c.name
  rw [hgn]

/-- non-vacuity: two collectors under one name, one under another, given in two orders -/
def fA : Family := ⟨strOfString "m", strOfString "h", .counter, [⟨[⟨strOfString "k", strOfString "2"⟩], .counter 1, 0⟩]⟩
def fB : Family := ⟨strOfString "m", strOfString "h", .counter, [⟨[⟨strOfString "k", strOfString "1"⟩], .counter 2, 0⟩]⟩
def fC : Family := ⟨strOfString "a", strOfString "h", .gauge, [⟨[], .gauge 3, 0⟩]⟩
example : gatherFams none none [fA, fB, fC] = gatherFams none none [fC, fB, fA] := by decide +kernel
example : ((gatherFams none none [fA, fB, fC]).map (·.name)) = [strOfString "a", strOfString "m"] := by decide +kernel
example : (gatherFams none none [fA, fB, fC]).map (fun f => (f.help, f.ty)) =
    [(strOfString "h", .gauge), (strOfString "h", .counter)] := by decide +kernel
/-- the agreement hypothesis of `family_help_type_unique` is needed: with two helps declared under one
    name, the collector met first wins, so the help depends on the iteration order -/
def fB' : Family := { fB with help := strOfString "other" }
example : (gatherFams none none [fA, fB']).map (·.help) = [strOfString "h"] ∧
    (gatherFams none none [fB', fA]).map (·.help) = [strOfString "other"] := by decide +kernel

/-! ## gather on a registry that is being changed concurrently (tie: area `creg`) -/

/-- every entry of a legal sequential history returned what the specification returns on the registry
    reached by the entries before it -/
theorem specRunR_entry {colls : List Coll} {r0 r : Reg} {l : List RM.RLin}
    (h : C06.specRunR colls r0 l = some r) {i : Nat} {x : RM.RLin} (hx : l[i]? = some x) :
    ∃ ri, C06.specRunR colls r0 (l.take i) = some ri ∧ (RM.specApply colls ri x.op).2 = x.res := by
  induction l generalizing r0 i with
  | nil => simp at hx
  | cons y rest ih =>
    simp only [C06.specRunR] at h
    split at h
    · next hres =>
      cases i with
      | zero =>
        simp only [List.getElem?_cons_zero, Option.some.injEq] at hx
        subst hx
        exact ⟨r0, by simp [C06.specRunR], hres⟩
      | succ i =>
        simp only [List.getElem?_cons_succ] at hx
        obtain ⟨ri, hri, hap⟩ := ih h hx
        exact ⟨ri, by simp only [List.take_succ_cons, C06.specRunR, hres, if_true, hri], hap⟩
    · cases h

/-- **concurrent_gather_explained** — `gather()` racing registrations and unregistrations (any number
    of threads, any interleaving of their lock operations the replay machine accepts): every gather
    that took effect returned exactly what the SEQUENTIAL `Reg.gather` returns on the registry obtained
    by executing, one at a time and in commit order, the calls committed before it. All theorems of
    this file about `Reg.gather` (complete, each sample once, sorted, deterministic) therefore hold
    for what a concurrent gather returns: no collector let in through interleaved half-registrations
    can be missing from or doubled in it. -/
theorem concurrent_gather_explained {colls : List Coll} {prog : List (List String)} {s : RM.St}
    (h : C06.RReach colls prog s) {i : Nat} {x : RM.RLin} (hx : s.lin[i]? = some x)
    (hg : x.op = .gather) :
    ∃ ri, C06.specRunR colls {} (s.lin.take i) = some ri ∧
      x.res = "+".intercalate (ri.gather.map fun f => RM.hexOf f.name ++ ":" ++ toString f.samples.length) := by
  obtain ⟨ri, hri, hap⟩ := specRunR_entry (C06.registry_linearizable h).2 hx
  refine ⟨ri, hri, ?_⟩
  rw [hg] at hap
  exact hap.symm

end Prom.C07
