import Prom.Lemmas.C07Aux

namespace Prom.C07
open Prom
/-- **families_sorted_strict** — one family per name, in strictly increasing name order, for every
    iteration order of the collectors -/
theorem merged_names_strict (collected : List Family) :
    ((merged collected).map (·.name)).Pairwise (· < ·) :=
  merged_sorted_aux collected [] (by simp)

theorem families_sorted_strict (pref : Option Str) (labels : Option (List (Str × Str))) (collected : List Family) :
    ((gatherFams pref labels collected).map (·.name)).Pairwise (· < ·) := by
  have h := merged_names_strict collected
  rw [List.pairwise_map] at h
  unfold gatherFams
  rw [List.pairwise_map, List.pairwise_map]
  unfold merged at h
  refine h.imp ?_
  intro a b hab
  cases pref with
  | none => simpa [applyPrefix] using hab
  | some p =>
    simp only [applyPrefix]
    rw [List.append_assoc, List.append_assoc]
    exact List.append_left_lt (List.append_left_lt hab)

/-- **complete_exactly_once** — under each name, the merged family holds exactly the samples of all
    collected families of that name (each once; as a multiset — the order is fixed by the sort) -/
theorem complete_exactly_once (n : Str) (collected : List Family) :
    (samplesOf n (merged collected)).Perm (samplesOf n collected) := by
  have := merged_samples_aux n collected []
  simpa [merged, samplesOf] using this

/-- every output sample is a merged sample with the common labels appended, and sorting only permutes -/
theorem gather_family_samples (pref : Option Str) (labels : Option (List (Str × Str))) (collected : List Family)
    (f : Family) (hf : f ∈ gatherFams pref labels collected) :
    ∃ g ∈ merged collected, f.name = applyPrefix pref g.name ∧ f.help = g.help ∧ f.ty = g.ty ∧
      ∃ ss : List Sample, ss.Perm g.samples ∧ f.samples = ss.map fun s => { s with labels := s.labels ++ commonPairs labels } := by
  unfold gatherFams at hf
  simp only [List.mem_map] at hf
  obtain ⟨g, hg, rfl⟩ := hf
  exact ⟨g, hg, rfl, rfl, rfl, stableSortBy sampleLe g.samples, stableSortBy_perm _ _, rfl⟩

/-- **prefix_labels_everywhere** — the registry prefix is on every family name and the common labels
    (in name order, whatever the iteration order of the label map) end every sample's label list -/
theorem prefix_labels_everywhere (pref : Option Str) (labels : Option (List (Str × Str))) (collected : List Family)
    (f : Family) (hf : f ∈ gatherFams pref labels collected) :
    (∃ n, f.name = applyPrefix pref n) ∧ ∀ s ∈ f.samples, ∃ l, s.labels = l ++ commonPairs labels := by
  obtain ⟨g, _, hn, _, _, ss, _, hs⟩ := gather_family_samples pref labels collected f hf
  refine ⟨⟨g.name, hn⟩, ?_⟩
  intro s hs'
  rw [hs] at hs'
  obtain ⟨s0, _, rfl⟩ := List.mem_map.1 hs'
  exact ⟨s0.labels, rfl⟩

theorem no_empty_family (collected : List Family) : ∀ g ∈ merged collected, g.samples ≠ [] :=
  merged_nonempty_aux collected [] (by simp)

/-- the common labels are sorted by name for *every* order of the label map: this is what makes the
    output independent of the hash seed (false of the pinned code before the F5 repair) -/
theorem common_pairs_order_free (m m' : List (Str × Str)) (hp : m.Perm m')
    (hk : (m.map (·.1)).Nodup) : commonPairs (some m) = commonPairs (some m') := by
  unfold commonPairs
  simp only []
  apply stableSortBy_perm_eq (le := lpLe)
  · intro a b c; exact strLe_trans _ _ _
  · intro a b; exact strLe_total _ _
  · exact hp.map _
  · intro a b ha hb h1 h2
    obtain ⟨p, hp1, rfl⟩ := List.mem_map.1 ha
    obtain ⟨q, hq1, rfl⟩ := List.mem_map.1 hb
    have hn : p.1 = q.1 := strLe_antisymm _ _ h1 h2
    -- keys are unique, so equal names mean the same entry
    have : p = q := eq_of_nodup_map (·.1) hk hp1 hq1 hn
    rw [this]

/-- non-vacuity: two collectors under one name, one under another, given in two orders -/
def fA : Family := ⟨strOfString "m", strOfString "h", .counter, [⟨[⟨strOfString "k", strOfString "2"⟩], .counter 1, 0⟩]⟩
def fB : Family := ⟨strOfString "m", strOfString "h", .counter, [⟨[⟨strOfString "k", strOfString "1"⟩], .counter 2, 0⟩]⟩
def fC : Family := ⟨strOfString "a", strOfString "h", .gauge, [⟨[], .gauge 3, 0⟩]⟩
example : gatherFams none none [fA, fB, fC] = gatherFams none none [fC, fB, fA] := by decide +kernel
example : ((gatherFams none none [fA, fB, fC]).map (·.name)) = [strOfString "a", strOfString "m"] := by decide +kernel

end Prom.C07
