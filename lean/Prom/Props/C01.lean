import Prom.Lemmas.C01Aux

namespace Prom.C01
open Prom Prom.Conc

/-- states reachable by accepting items (call marks, atomic events with their results, return
    marks) from the initial state of a program: any number of threads, any schedule, any number of
    spurious compare-exchange failures -/
inductive AReach (s0 : ASt) : ASt → Prop
  | init : AReach s0 s0
  | step {s s' it} : AReach s0 s → aItem s it = .ok s' → AReach s0 s'

def aInit (float counter : Bool) (prog : List (List String)) : ASt :=
  { float := float, counter := counter, ths := prog.map fun ops => { ops := ops } }

theorem onceInv_init (float counter : Bool) (prog : List (List String)) : OnceInv (aInit float counter prog) := by
  have key : ∀ (t : Nat) (th : Th APc), (aInit float counter prog).ths[t]? = some th → th.idx = 0 ∧ th.pc = none ∧ th.retv = none := by
    intro t th h
    simp only [aInit, List.getElem?_map] at h
    cases hp : prog[t]? with
    | none => simp [hp] at h
    | some ops => simp [hp] at h; subst h; exact ⟨rfl, rfl, rfl⟩
  refine ⟨?_, ?_, ?_⟩
  · intro t th h hp; rw [(key t th h).2.1] at hp; cases hp
  · intro t th h i
    obtain ⟨h0, _, hr⟩ := key t th h
    simp [commits, aInit, h0, hr]
  · intro t th rv h hrv; rw [(key t th h).2.2] at hrv; cases hrv

theorem onceInv_reach {float counter : Bool} {prog : List (List String)} {s : ASt}
    (h : AReach (aInit float counter prog) s) : OnceInv s := by
  induction h with
  | init => exact onceInv_init _ _ _
  | step _ hs ih => exact aItem_onceInv ih hs

/-- **cell_linearizable** — for every accepted run of a counter or gauge cell: the cell holds the
    value the *sequential specification* `specApply` reaches when the committed operations are run
    one at a time in commit order, and every committed operation (a `get` in particular) returned
    exactly what the specification returns at its place in that order. Each operation commits at a
    step of its own call (its load / store / fetch_add / successful compare-exchange), so the order
    is consistent with real time. In particular a value read concurrently is the result of a set of
    increments that contains every increment completed before the read began (they committed
    earlier) and none started after it returned (they commit later). -/
theorem cell_linearizable {float counter : Bool} {prog : List (List String)} {s : ASt}
    (h : AReach (aInit float counter prog) s) : specRun s.float 0 s.lin = some s.mem := by
  induction h with
  | init => simp [aInit, specRun]
  | step _ hs ih => exact aItem_linInv ih hs

/-- **exactly_once** — for every accepted run: a call that has returned took effect exactly once
    (a local flush of an empty amount: not at all, as in the code), the call in progress took effect
    at most once — exactly once as soon as its last step is done —, a call not yet started did not
    take effect. No increment is lost, none is applied twice. -/
theorem exactly_once {float counter : Bool} {prog : List (List String)} {s : ASt}
    (h : AReach (aInit float counter prog) s) (t : Nat) (th : Th APc) (hth : s.ths[t]? = some th) (i : Nat) :
    commits s.lin t i =
      if i < th.idx then (if skipOp (th.ops.getD i "") then 0 else 1)
      else if i = th.idx ∧ th.retv.isSome ∧ skipOp (th.ops.getD i "") = false then 1 else 0 :=
  (onceInv_reach h).cnt t th hth i

/-- the value a call returns is the one recorded with its commit (which `cell_linearizable` ties to
    the specification) -/
theorem returns_committed_value {float counter : Bool} {prog : List (List String)} {s : ASt}
    (h : AReach (aInit float counter prog) s) (t : Nat) (th : Th APc) (rv : String)
    (hth : s.ths[t]? = some th) (hrv : th.retv = some rv) (hsk : skipOp (th.ops.getD th.idx "") = false) :
    (⟨t, th.idx, th.ops.getD th.idx "", rv⟩ : LinEv) ∈ s.lin :=
  (onceInv_reach h).rvs t th rv hth hrv hsk

/-- **commit_order_fixed** — the order in which operations took effect is never revised: every
    accepted item leaves the commit log as it was or appends one operation -/
theorem commit_order_fixed {s s' : ASt} {it : Item} (h : aItem s it = .ok s') : s.lin <+: s'.lin :=
  aItem_lin_mono h

/-- an accepted float compare-exchange that succeeds found exactly the value the thread had loaded
    and replaces it by that value plus the thread's own delta: the increment takes effect on the
    *current* value, nothing another thread added is overwritten -/
theorem cas_success_adds_delta {float : Bool} {mem : UInt64} {op : String} {cur : UInt64} {e : Ev} {mem' : UInt64} {rv : String}
    (h : aEv float mem op (.cas cur) e = .ok (mem', .inr rv)) :
    mem = cur ∧ ∃ d, floatDelta op = some d ∧ mem' = f64Add mem d := by
  unfold aEv at h
  simp only at h
  split at h
  · cases h
  · split at h
    · cases h
    · next d hd =>
      rw [guard_ok] at h; obtain ⟨_, h⟩ := h
      split at h
      · rw [guard_ok] at h; obtain ⟨hc, h⟩ := h
        simp only [Bool.and_eq_true, beq_iff_eq] at hc
        cases h
        exact ⟨hc.1, d, hd, by rw [hc.1]⟩
      · rw [guard_ok] at h; obtain ⟨_, h⟩ := h; cases h

/-- an accepted event that does not complete its call — the load of a float add, a failed
    compare-exchange (value changed, or spurious) — changes nothing: a failed attempt has no effect,
    it is retried -/
theorem cas_failure_no_effect {float : Bool} {mem : UInt64} {op : String} {pc : APc} {e : Ev} {mem' : UInt64} {pc' : APc}
    (h : aEv float mem op pc e = .ok (mem', .inl pc')) : mem' = mem :=
  aEv_continue h

/-- reads never go backwards by themselves: between two commits the value only changes by a
    committed operation; for the integer counter every committed `inc`/`inc_by` adds its (unsigned)
    operand, so with no `reset` in between and no wrap-around a later `get` returns a value at least
    as large -/
theorem int_inc_monotone (v : UInt64) (op : String) (hn : isSubOp op = false)
    (hg : (opName op == "get") = false) (hs : (opName op == "set" || opName op == "reset") = false)
    (hov : v.toNat + (intDelta op).toNat < 2 ^ 64) :
    ∃ v', specApply false v op = some (v', "") ∧ v ≤ v' := by
  refine ⟨v + intDelta op, by simp [specApply, hg, hs, hn], ?_⟩
  rw [UInt64.le_iff_toNat_le, UInt64.toNat_add]
  rw [Nat.mod_eq_of_lt hov]
  omega

/-- non-vacuity: the initial state of a two-thread program is reachable (and the invariants hold of it) -/
example : AReach (aInit false true [["inc"], ["get"]]) (aInit false true [["inc"], ["get"]]) ∧
    OnceInv (aInit false true [["inc"], ["get"]]) := ⟨.init, onceInv_init _ _ _⟩

end Prom.C01
