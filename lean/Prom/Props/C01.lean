import Prom.Lemmas.C01Aux

namespace Prom.C01
open Prom Prom.Conc
/-- an accepted float compare-exchange that succeeds: the cell held exactly the value the thread
    had loaded, and the cell now holds that value plus the thread's own delta — the increment takes
    effect exactly here, on the *current* value (nothing another thread added is overwritten) -/
theorem cas_success_adds_delta (s s' : ASt) (e : Ev) (th : Th APc) (cur d : UInt64)
    (hth : s.ths[e.tid]? = some th) (hpc : th.pc = some (.cas cur d)) (hok : e.ok = true)
    (h : aStep s e = .ok s') :
    s.mem = cur ∧ s'.mem = f64Add s.mem d := by
  unfold aStep at h
  simp only [hth, hpc] at h
  split at h
  · cases h
  · split at h
    · simp only [hok, if_true] at h
      split at h
      · rename_i hc
        simp only [Bool.and_eq_true, beq_iff_eq] at hc
        simp only [Except.ok.injEq] at h
        subst h
        exact ⟨hc.1, by simp [hc.1]⟩
      · cases h
    · cases h

/-- an accepted failing compare-exchange (value changed or spurious) changes nothing and sends the
    thread back to its load: a failed attempt has no effect, it is retried -/
theorem cas_failure_no_effect (s s' : ASt) (e : Ev) (th : Th APc) (cur d : UInt64)
    (hth : s.ths[e.tid]? = some th) (hpc : th.pc = some (.cas cur d)) (hok : e.ok = false)
    (h : aStep s e = .ok s') :
    s'.mem = s.mem ∧ s'.log = s.log := by
  unfold aStep at h
  simp only [hth, hpc] at h
  split at h
  · cases h
  · split at h
    · simp only [hok, Bool.false_eq_true, if_false] at h
      split at h
      · simp only [Except.ok.injEq] at h
        subst h
        exact ⟨rfl, rfl⟩
      · cases h
    · cases h

/-- a `get` returns the value the cell holds at its (single) load -/
theorem get_returns_cell (s s' : ASt) (e : Ev) (th : Th APc) (op : String) (hn : opName op = "get")
    (hth : s.ths[e.tid]? = some th) (hpc : th.pc = some (.start op)) (h : aStep s e = .ok s') :
    s'.mem = s.mem ∧ ∃ th', s'.ths[e.tid]? = some th' ∧ th'.retv = some (hexStr s.mem) := by
  unfold aStep at h
  simp only [hth, hpc] at h
  split at h
  · cases h
  · simp only [hn, beq_self_eq_true, if_true] at h
    split at h
    · simp only [Except.ok.injEq] at h
      subst h
      refine ⟨rfl, ?_⟩
      have hlt : e.tid < s.ths.length := by
        rcases Nat.lt_or_ge e.tid s.ths.length with h' | h'
        · exact h'
        · rw [List.getElem?_eq_none_iff.2 h'] at hth; cases hth
      exact ⟨{ th with pc := none, retv := some (hexStr s.mem) }, by simp [hlt], rfl⟩
    · cases h

/-- **lin_inv** — for every accepted run (any threads, programs, schedule): the cell holds the value
    written by the latest committed write -/
theorem lin_inv (items : List Item) : ∀ (s s' : ASt) (n : Nat), LogInv s → runItems aItem s items n = .ok s' → LogInv s' := by
  induction items with
  | nil => intro s s' n hi h; simp [runItems] at h; subst h; exact hi
  | cons it r ih =>
    intro s s' n hi h
    simp only [runItems] at h
    cases hs : aItem s it with
    | error e => rw [hs] at h; cases h
    | ok s1 => rw [hs] at h; exact ih s1 s' (n + 1) (aItem_logInv s s1 it hi hs) h

end Prom.C01
