import Prom.Model.Conc
/-
C01 — Counter increments are never lost and never go backwards.
(C11 shares the machine; see `Props/C11.lean`.)

Subject: the step machine `Conc.aStep` / `Conc.aItem` of one shared cell, at the granularity of the
atomic operations (`load`, `store`, `fetch_add`, `fetch_sub`, `compare_exchange_weak`). A state is
reachable by ANY list of accepted items — any number of threads, any programs, any interleaving,
any number of spurious compare-exchange failures; the real traces produced under the scheduler are
checked to be accepted runs of exactly this machine.
-/
namespace Prom.C01
open Prom Prom.Conc

/-- an accepted float compare-exchange that succeeds: the cell held exactly the value the thread
    had loaded, and the cell now holds that value plus the thread's own delta — the increment takes
    effect exactly here, on the *current* value (nothing another thread added is overwritten) -/
theorem cas_success_adds_delta (s s' : ASt) (e : Ev) (th : Th APc) (cur d : UInt64)
    (hth : s.ths[e.tid]? = some th) (hpc : th.pc = some (.cas cur d)) (hok : e.ok = true)
    (h : aStep s e = .ok s') :
    s.mem = cur ∧ s'.mem = f64Add s.mem d := by
  unfold aStep at h
  simp only [hth, hpc] at h
  split at h
  · cases h
  · split at h
    · simp only [hok, if_true] at h
      split at h
      · rename_i hc
        simp only [Bool.and_eq_true, beq_iff_eq] at hc
        simp only [Except.ok.injEq] at h
        subst h
        exact ⟨hc.1, by simp [hc.1]⟩
      · cases h
    · cases h

/-- an accepted failing compare-exchange (value changed or spurious) changes nothing and sends the
    thread back to its load: a failed attempt has no effect, it is retried -/
theorem cas_failure_no_effect (s s' : ASt) (e : Ev) (th : Th APc) (cur d : UInt64)
    (hth : s.ths[e.tid]? = some th) (hpc : th.pc = some (.cas cur d)) (hok : e.ok = false)
    (h : aStep s e = .ok s') :
    s'.mem = s.mem ∧ s'.log = s.log := by
  unfold aStep at h
  simp only [hth, hpc] at h
  split at h
  · cases h
  · split at h
    · simp only [hok, Bool.false_eq_true, if_false] at h
      split at h
      · simp only [Except.ok.injEq] at h
        subst h
        exact ⟨rfl, rfl⟩
      · cases h
    · cases h

/-- a `get` returns the value the cell holds at its (single) load -/
theorem get_returns_cell (s s' : ASt) (e : Ev) (th : Th APc) (op : String) (hn : opName op = "get")
    (hth : s.ths[e.tid]? = some th) (hpc : th.pc = some (.start op)) (h : aStep s e = .ok s') :
    s'.mem = s.mem ∧ ∃ th', s'.ths[e.tid]? = some th' ∧ th'.retv = some (hexStr s.mem) := by
  unfold aStep at h
  simp only [hth, hpc] at h
  split at h
  · cases h
  · simp only [hn, beq_self_eq_true, if_true] at h
    split at h
    · simp only [Except.ok.injEq] at h
      subst h
      refine ⟨rfl, ?_⟩
      have hlt : e.tid < s.ths.length := by
        rcases Nat.lt_or_ge e.tid s.ths.length with h' | h'
        · exact h'
        · rw [List.getElem?_eq_none_iff.2 h'] at hth; cases hth
      exact ⟨{ th with pc := none, retv := some (hexStr s.mem) }, by simp [hlt], rfl⟩
    · cases h

/-- the ghost log of committed writes always ends in the cell's current value: the value is the
    result of the committed writes in commit order (for `u64` / exact arithmetic: the sum of all
    increments since the last reset), for every accepted run -/
def LogInv (s : ASt) : Prop := s.log = [] ∧ s.mem = 0 ∨ ∃ t r, s.log = (t, s.mem) :: r

theorem aStep_logInv (s s' : ASt) (e : Ev) (hi : LogInv s) (h : aStep s e = .ok s') : LogInv s' := by
  unfold aStep at h
  cases hth : s.ths[e.tid]? with
  | none => rw [hth] at h; cases h
  | some th =>
    rw [hth] at h
    simp only [] at h
    cases hpc : th.pc with
    | none => rw [hpc] at h; cases h
    | some pc =>
      rw [hpc] at h
      simp only [] at h
      split at h
      · cases h
      · cases pc with
        | start op =>
          simp only [] at h
          repeat' split at h
          all_goals first
            | (simp only [Except.ok.injEq] at h; subst h
               first
                 | exact hi
                 | exact Or.inr ⟨_, _, rfl⟩
                 | (exfalso; simp_all))
            | cases h
        | cas cur d =>
          simp only [] at h
          repeat' split at h
          all_goals first
            | (simp only [Except.ok.injEq] at h; subst h
               first
                 | exact hi
                 | exact Or.inr ⟨_, _, rfl⟩
                 | (exfalso; simp_all))
            | cases h

theorem aItem_logInv (s s' : ASt) (it : Item) (hi : LogInv s) (h : aItem s it = .ok s') : LogInv s' := by
  cases it with
  | ev e => exact aStep_logInv s s' e hi h
  | call t i op =>
    simp only [aItem] at h
    split at h
    · cases h
    · split at h
      · simp only [Except.ok.injEq] at h; subst h; exact hi
      · cases h
  | ret t i v =>
    simp only [aItem] at h
    split at h
    · cases h
    · split at h
      · simp only [Except.ok.injEq] at h; subst h; exact hi
      · cases h
  | other x => simp [aItem] at h

/-- **lin_inv** — for every accepted run (any threads, programs, schedule): the cell holds the value
    written by the latest committed write -/
theorem lin_inv (items : List Item) : ∀ (s s' : ASt) (n : Nat), LogInv s → runItems aItem s items n = .ok s' → LogInv s' := by
  induction items with
  | nil => intro s s' n hi h; simp [runItems] at h; subst h; exact hi
  | cons it r ih =>
    intro s s' n hi h
    simp only [runItems] at h
    cases hs : aItem s it with
    | error e => rw [hs] at h; cases h
    | ok s1 => rw [hs] at h; exact ih s1 s' (n + 1) (aItem_logInv s s1 it hi hs) h

end Prom.C01
