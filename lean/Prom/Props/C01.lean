import Prom.Lemmas.C01Aux
import Prom.Lemmas.C01Mono
import Prom.Lemmas.C01FloatMono

namespace Prom.C01
open Prom Prom.Conc

/-- states reachable by accepting items (call marks, atomic events with their results, return
    marks) from the initial state of a program: any number of threads, any schedule, any number of
    spurious compare-exchange failures -/
inductive AReach (s0 : ASt) : ASt → Prop
  | init : AReach s0 s0
  | step {s s' it} : AReach s0 s → aItem s it = .ok s' → AReach s0 s'

def aInit (float counter : Bool) (prog : List (List String)) : ASt :=
  { float := float, counter := counter, ths := prog.map fun ops => { ops := ops } }

theorem onceInv_init (float counter : Bool) (prog : List (List String)) : OnceInv (aInit float counter prog) := by
  have key : ∀ (t : Nat) (th : Th APc), (aInit float counter prog).ths[t]? = some th → th.idx = 0 ∧ th.pc = none ∧ th.retv = none := by
    intro t th h
    simp only [aInit, List.getElem?_map] at h
    cases hp : prog[t]? with
    | none => simp [hp] at h
    | some ops => simp [hp] at h; subst h; exact ⟨rfl, rfl, rfl⟩
  refine ⟨?_, ?_, ?_⟩
  · intro t th h hp; rw [(key t th h).2.1] at hp; cases hp
  · intro t th h i
    obtain ⟨h0, _, hr⟩ := key t th h
    simp [commits, aInit, h0, hr]
  · intro t th rv h hrv; rw [(key t th h).2.2] at hrv; cases hrv

theorem onceInv_reach {float counter : Bool} {prog : List (List String)} {s : ASt}
    (h : AReach (aInit float counter prog) s) : OnceInv s := by
  induction h with
  | init => exact onceInv_init _ _ _
  | step _ hs ih => exact aItem_onceInv ih hs

/-- **cell_linearizable** — for every accepted run of a counter or gauge cell: the cell holds the
    value the *sequential specification* `specApply` reaches when the committed operations are run
    one at a time in commit order, and every committed operation (a `get` in particular) returned
    exactly what the specification returns at its place in that order. Each operation commits at a
    step of its own call (its load / store / fetch_add / successful compare-exchange), so the order
    is consistent with real time. In particular a value read concurrently is the result of a set of
    increments that contains every increment completed before the read began (they committed
    earlier) and none started after it returned (they commit later). -/
theorem cell_linearizable {float counter : Bool} {prog : List (List String)} {s : ASt}
    (h : AReach (aInit float counter prog) s) : specRun s.float 0 s.lin = some s.mem := by
  induction h with
  | init => simp [aInit, specRun]
  | step _ hs ih => exact aItem_linInv ih hs

/-- **exactly_once** — for every accepted run: a call that has returned took effect exactly once
    (a local flush of an empty amount: not at all, as in the code), the call in progress took effect
    at most once — exactly once as soon as its last step is done —, a call not yet started did not
    take effect. No increment is lost, none is applied twice. -/
theorem exactly_once {float counter : Bool} {prog : List (List String)} {s : ASt}
    (h : AReach (aInit float counter prog) s) (t : Nat) (th : Th APc) (hth : s.ths[t]? = some th) (i : Nat) :
    commits s.lin t i =
      if i < th.idx then (if skipOp (th.ops.getD i "") then 0 else 1)
      else if i = th.idx ∧ th.retv.isSome ∧ skipOp (th.ops.getD i "") = false then 1 else 0 :=
  (onceInv_reach h).cnt t th hth i

/-- the value a call returns is the one recorded with its commit (which `cell_linearizable` ties to
    the specification) -/
theorem returns_committed_value {float counter : Bool} {prog : List (List String)} {s : ASt}
    (h : AReach (aInit float counter prog) s) (t : Nat) (th : Th APc) (rv : String)
    (hth : s.ths[t]? = some th) (hrv : th.retv = some rv) (hsk : skipOp (th.ops.getD th.idx "") = false) :
    (⟨t, th.idx, th.ops.getD th.idx "", rv⟩ : LinEv) ∈ s.lin :=
  (onceInv_reach h).rvs t th rv hth hrv hsk

/-- **commit_order_fixed** — the order in which operations took effect is never revised: every
    accepted item leaves the commit log as it was or appends one operation -/
theorem commit_order_fixed {s s' : ASt} {it : Item} (h : aItem s it = .ok s') : s.lin <+: s'.lin :=
  aItem_lin_mono h

/-- what `casNew` is in each flavour: IEEE addition of the float delta; wrapping `u64` addition resp.
    subtraction of the integer operand -/
theorem casNew_cases {float : Bool} {op : String} {v w : UInt64} (h : casNew float op v = some w) :
    (float = true → ∃ d, floatDelta op = some d ∧ w = f64Add v d) ∧
      (float = false → w = if isSubOp op then v - intDelta op else v + intDelta op) := by
  unfold casNew at h
  split at h
  · next hf =>
    refine ⟨fun _ => ?_, fun hf' => by rw [hf'] at hf; cases hf⟩
    cases hd : floatDelta op with
    | none => simp [hd] at h
    | some d =>
      simp only [hd, Option.map_some, Option.some.injEq] at h
      exact ⟨d, rfl, h.symm⟩
  · next hf =>
    refine ⟨fun hf' => absurd hf' hf, fun _ => ?_⟩
    simp only at h
    split at h
    · cases h
    · simp only [Option.some.injEq] at h; exact h.symm

/-- the compare-exchange arm: a success found exactly the expected value `cur` in the cell and
    replaces it by `cur` plus the call's delta, in the arithmetic of the flavour -/
theorem aEvCas_success {float : Bool} {mem : UInt64} {op : String} {cur : UInt64} {e : Ev} {mem' : UInt64} {rv : String}
    (h : aEvCas float mem op cur e = .ok (mem', .inr rv)) :
    mem = cur ∧ (float = true → ∃ d, floatDelta op = some d ∧ mem' = f64Add mem d) ∧
      (float = false → mem' = if isSubOp op then mem - intDelta op else mem + intDelta op) := by
  obtain ⟨h1, h2, _⟩ := aEvCas_success_new h
  exact ⟨h1, casNew_cases h2⟩

/-- an accepted compare-exchange that succeeds found exactly the value the thread had loaded and replaces it
    by that value plus the thread's own delta: the increment takes effect on the *current* value, nothing
    another thread added is overwritten. Float flavour (`float = true`, as before): IEEE addition of the
    float delta. Integer flavour (`float = false`: the add written as a compare-exchange loop, which the
    machine did not accept before): wrapping addition resp. subtraction of the integer operand. -/
theorem cas_success_adds_delta {float : Bool} {mem : UInt64} {op : String} {cur : UInt64} {e : Ev} {mem' : UInt64} {rv : String}
    (h : aEv float mem op (.cas cur) e = .ok (mem', .inr rv)) :
    mem = cur ∧ (float = true → ∃ d, floatDelta op = some d ∧ mem' = f64Add mem d) ∧
      (float = false → mem' = if isSubOp op then mem - intDelta op else mem + intDelta op) := by
  unfold aEv at h
  simp only at h
  split at h
  · cases h
  · exact aEvCas_success h

/-- `cas_success_adds_delta` as it read when only the float add was a loop (the statement for `float = true`) -/
theorem float_cas_success_adds_delta {mem : UInt64} {op : String} {cur : UInt64} {e : Ev} {mem' : UInt64} {rv : String}
    (h : aEv true mem op (.cas cur) e = .ok (mem', .inr rv)) :
    mem = cur ∧ ∃ d, floatDelta op = some d ∧ mem' = f64Add mem d :=
  ⟨(cas_success_adds_delta h).1, (cas_success_adds_delta h).2.1 rfl⟩

/-- an accepted INTEGER compare-exchange that succeeds found exactly the value the thread had loaded (or the
    failed exchange had reported) and replaces it by that value plus (minus, for `dec` / `sub`) the call's
    operand, wrapping: exactly what the single `fetch_add` / `fetch_sub` does to the current value -/
theorem int_cas_success_adds_delta {mem : UInt64} {op : String} {cur : UInt64} {e : Ev} {mem' : UInt64} {rv : String}
    (h : aEv false mem op (.cas cur) e = .ok (mem', .inr rv)) :
    mem = cur ∧ mem' = if isSubOp op then mem - intDelta op else mem + intDelta op :=
  ⟨(cas_success_adds_delta h).1, (cas_success_adds_delta h).2.2 rfl⟩

/-- an accepted event that does not complete its call — the load of an add written as a loop, a failed
    compare-exchange (value changed, or spurious) — changes nothing: a failed attempt has no effect,
    it is retried -/
theorem cas_failure_no_effect {float : Bool} {mem : UInt64} {op : String} {pc : APc} {e : Ev} {mem' : UInt64} {pc' : APc}
    (h : aEv float mem op pc e = .ok (mem', .inl pc')) : mem' = mem :=
  aEv_continue h

/-- **the state after a failed compare-exchange**: an accepted event other than a load after which the
    call continues is a failed compare-exchange; it reported the cell's current value, changed nothing,
    and leaves the thread at `retry` of exactly that value (this replaces "the thread is back at
    `start`" of the machine that only knew the reloading loop) -/
theorem cas_failure_goes_to_retry {float : Bool} {mem : UInt64} {op : String} {pc : APc} {e : Ev} {mem' : UInt64} {pc' : APc}
    (h : aEv float mem op pc e = .ok (mem', .inl pc')) (hk : e.k ≠ "L") :
    mem' = mem ∧ pc' = .retry mem ∧ e.res = mem ∧ e.ok = false := by
  rcases aEv_cases h with ⟨h, _⟩ | ⟨cur, h, _⟩
  · exact absurd (aEvStart_continue h).2.2 hk
  · obtain ⟨h1, h2, h3, h4⟩ := aEvCas_continue h
    exact ⟨h1, h2, h4, h3⟩

/-- the load of an add written as a loop (first attempt, or a reload after a failure) returns the cell's value,
    changes nothing, and leaves the thread at the compare-exchange expecting that value -/
theorem load_goes_to_cas {float : Bool} {mem : UInt64} {op : String} {pc : APc} {e : Ev} {mem' : UInt64} {pc' : APc}
    (h : aEv float mem op pc e = .ok (mem', .inl pc')) (hk : e.k = "L") :
    mem' = mem ∧ pc' = .cas mem := by
  rcases aEv_cases h with ⟨h1, _⟩ | ⟨cur, h1, hp⟩
  · exact ⟨(aEvStart_continue h1).1, (aEvStart_continue h1).2.1⟩
  · have hne : e.k ≠ "L" := by
      intro hk
      have := (aEvCas_kind h1)
      rw [hk] at this; exact absurd this (by decide)
    exact absurd hk hne

/-- **retry accepts exactly both loops**: after a failed compare-exchange that reported `cur`, a load
    is accepted exactly as at `start` (the reloading loop) and every other event exactly as at
    `cas cur` (the loop that goes on with the reported value) -/
theorem retry_accepts_both (float : Bool) (mem : UInt64) (op : String) (cur : UInt64) (e : Ev) :
    aEv float mem op (.retry cur) e =
      if e.k = "L" then aEv float mem op .start e else aEv float mem op (.cas cur) e := by
  unfold aEv
  by_cases hl : (e.loc != "v0") = true
  · simp [hl]
  · by_cases hk : e.k = "L" <;> simp [hl, hk]

/-- `cas_success_adds_delta` for the retry without a reload: an add (`floatDelta op` is defined: not a
    `get` / `set` / `reset`) that completes from `retry cur` did so by a compare-exchange that found exactly
    the reported value `cur` still in the cell and replaced it by that value plus the thread's own delta
    (float flavour: IEEE addition; integer flavour: wrapping addition / subtraction of the operand) -/
theorem retry_success_adds_delta {float : Bool} {mem : UInt64} {op : String} {cur : UInt64} {e : Ev} {mem' : UInt64} {rv : String}
    (h : aEv float mem op (.retry cur) e = .ok (mem', .inr rv)) (hd : (floatDelta op).isSome = true) :
    mem = cur ∧ (float = true → ∃ d, floatDelta op = some d ∧ mem' = f64Add mem d) ∧
      (float = false → mem' = if isSubOp op then mem - intDelta op else mem + intDelta op) := by
  rcases aEv_cases h with ⟨h, hp⟩ | ⟨c, h, hp⟩
  · exfalso
    rcases hp with hp | ⟨c, hp, hk⟩
    · cases hp
    · unfold aEvStart at h
      simp only at h
      split at h
      · next hg => simp only [beq_iff_eq] at hg; simp [floatDelta, hg] at hd
      · split at h
        · next hs =>
          simp only [Bool.or_eq_true, beq_iff_eq] at hs
          rcases hs with hs | hs <;> simp [floatDelta, hs] at hd
        · split at h
          · split at h
            · cases h
            · rw [guard_ok] at h; obtain ⟨_, h⟩ := h; cases h
          · split at h
            · rw [guard_ok] at h; obtain ⟨_, h⟩ := h; cases h
            · next hnl => simp [hk] at hnl
  · rcases hp with hp | ⟨hp, _⟩ <;> cases hp <;> exact aEvCas_success h

/-- reads never go backwards by themselves: between two commits the value only changes by a
    committed operation; for the integer counter every committed `inc`/`inc_by` adds its (unsigned)
    operand, so with no `reset` in between and no wrap-around a later `get` returns a value at least
    as large -/
theorem int_inc_monotone (v : UInt64) (op : String) (hn : isSubOp op = false)
    (hg : (opName op == "get") = false) (hs : (opName op == "set" || opName op == "reset") = false)
    (hov : v.toNat + (intDelta op).toNat < 2 ^ 64) :
    ∃ v', specApply false v op = some (v', "") ∧ v ≤ v' := by
  refine ⟨v + intDelta op, by simp [specApply, hg, hs, hn], ?_⟩
  rw [UInt64.le_iff_toNat_le, UInt64.toNat_add]
  rw [Nat.mod_eq_of_lt hov]
  omega

/-! ## whole-run monotonicity of the integer counter -/

/-- reachability composes -/
theorem AReach.trans {s0 s1 s2 : ASt} (h1 : AReach s0 s1) (h2 : AReach s1 s2) : AReach s0 s2 := by
  induction h2 with
  | init => exact h1
  | step _ hs ih => exact .step ih hs

/-- the flavour of the cell never changes -/
theorem aItem_float {s s' : ASt} {it : Item} (h : aItem s it = .ok s') : s'.float = s.float := by
  cases aItem_shape h with
  | commit e th pc rv mem' hth hpc hev hs => subst hs; rfl
  | cont e th pc pc' hth hpc hs => subst hs; rfl
  | callSkip t th hth hpc hrv hsk hs => subst hs; rfl
  | callOpen t th hth hpc hrv hsk hs => subst hs; rfl
  | ret t th rv hth hrv hs => subst hs; rfl

/-- the flavour of the cell is the one of the initial state, along any run -/
theorem reach_float {s0 s : ASt} (h : AReach s0 s) : s.float = s0.float := by
  induction h with
  | init => rfl
  | step _ hs ih => rw [aItem_float hs, ih]

/-- **commit order over a whole run**: whatever happens after a state, the commit log of that state
    stays a prefix of the later log — an operation committed now precedes, in the log, every
    operation that commits later -/
theorem reach_lin_prefix {s s' : ASt} (h : AReach s s') : s.lin <+: s'.lin := by
  induction h with
  | init => exact List.prefix_refl _
  | step _ hs ih => exact ih.trans (commit_order_fixed hs)

/-- a thread keeps its program, and its call index only grows -/
theorem aItem_th_pres {s s' : ASt} {it : Item} (h : aItem s it = .ok s') {t : Nat} {th : Th APc}
    (hth : s.ths[t]? = some th) : ∃ th', s'.ths[t]? = some th' ∧ th'.ops = th.ops ∧ th.idx ≤ th'.idx := by
  have hlt : t < s.ths.length := (List.getElem?_eq_some_iff.mp hth).1
  have key : ∀ (u : Nat) (th0 thn : Th APc), s.ths[u]? = some th0 → thn.ops = th0.ops → th0.idx ≤ thn.idx →
      ∃ th', (s.ths.set u thn)[t]? = some th' ∧ th'.ops = th.ops ∧ th.idx ≤ th'.idx := by
    intro u th0 thn hu hops hidx
    rw [List.getElem?_set]
    by_cases hut : u = t
    · subst hut
      rw [hth] at hu; cases hu
      simp only [if_true, hlt]
      exact ⟨thn, rfl, hops, hidx⟩
    · simp only [hut, if_false]
      exact ⟨th, hth, rfl, Nat.le_refl _⟩
  cases aItem_shape h with
  | commit e th0 pc rv mem' hth0 hpc hev hs => subst hs; exact key _ th0 _ hth0 rfl (Nat.le_refl _)
  | cont e th0 pc pc' hth0 hpc hs => subst hs; exact key _ th0 _ hth0 rfl (Nat.le_refl _)
  | callSkip t0 th0 hth0 hpc hrv hsk hs => subst hs; exact key _ th0 _ hth0 rfl (Nat.le_refl _)
  | callOpen t0 th0 hth0 hpc hrv hsk hs => subst hs; exact key _ th0 _ hth0 rfl (Nat.le_refl _)
  | ret t0 th0 rv hth0 hrv hs => subst hs; exact key _ th0 _ hth0 rfl (Nat.le_succ _)

/-- along any run a thread keeps its program, and its call index only grows -/
theorem reach_th_pres {s s' : ASt} (h : AReach s s') {t : Nat} {th : Th APc}
    (hth : s.ths[t]? = some th) : ∃ th', s'.ths[t]? = some th' ∧ th'.ops = th.ops ∧ th.idx ≤ th'.idx := by
  induction h with
  | init => exact ⟨th, hth, rfl, Nat.le_refl _⟩
  | step _ hs ih =>
    obtain ⟨th1, h1, ho1, hi1⟩ := ih
    obtain ⟨th2, h2, ho2, hi2⟩ := aItem_th_pres hs h1
    exact ⟨th2, h2, ho2.trans ho1, Nat.le_trans hi1 hi2⟩

/-- **reads_monotone_int** — every accepted run of an INTEGER counter cell (any number of threads,
    any schedule) whose committed operations are only `get` / `inc` / `incby` / `lflush` (no
    `reset`, no `set`, no `dec` / `sub`) and whose increments do not add up to `2^64`: for any two
    committed `get`s at positions `i < j` of the commit log, the earlier one returned `hexStr vi`,
    the later one `hexStr vj`, where `vi`, `vj` are the values of the cell at those positions, and
    `vi ≤ vj`. Reads never go backwards. -/
theorem reads_monotone_int {counter : Bool} {prog : List (List String)} {s : ASt}
    (h : AReach (aInit false counter prog) s) (hi : IncOnly s.lin) (hw : NoWrap s.lin)
    {i j : Nat} (hij : i < j) {x y : LinEv} (hx : s.lin[i]? = some x) (hy : s.lin[j]? = some y)
    (hgx : opName x.op = "get") (hgy : opName y.op = "get") :
    ∃ vi vj, (valuesAlong false 0 s.lin)[i]? = some vi ∧ (valuesAlong false 0 s.lin)[j]? = some vj ∧
      x.rv = hexStr vi ∧ y.rv = hexStr vj ∧ vi ≤ vj := by
  have hl := cell_linearizable h
  have hf : s.float = false := reach_float h
  rw [hf] at hl
  exact spec_reads_monotone hl hi hw hij hx hy hgx hgy

/-- the same, on whatever values the two returned strings denote (`hexStr` is injective) -/
theorem reads_monotone_int' {counter : Bool} {prog : List (List String)} {s : ASt}
    (h : AReach (aInit false counter prog) s) (hi : IncOnly s.lin) (hw : NoWrap s.lin)
    {i j : Nat} (hij : i < j) {x y : LinEv} (hx : s.lin[i]? = some x) (hy : s.lin[j]? = some y)
    (hgx : opName x.op = "get") (hgy : opName y.op = "get")
    {a b : UInt64} (ha : x.rv = hexStr a) (hb : y.rv = hexStr b) : a ≤ b := by
  have hl := cell_linearizable h
  have hf : s.float = false := reach_float h
  rw [hf] at hl
  exact spec_reads_monotone' hl hi hw hij hx hy hgx hgy ha hb

/-- the values recorded for the operations committed so far are never revised by the rest of the run -/
theorem values_fixed {float : Bool} {s s' : ASt} (h : AReach s s') :
    valuesAlong float 0 s.lin <+: valuesAlong float 0 s'.lin :=
  valuesAlong_prefix float 0 (reach_lin_prefix h)

/-- **real_time_commit_order** — the commit order is consistent with real time. Take any state `s`
    of an accepted run and any continuation to `s'`. A call (`t`, `i`) that has RETURNED in `s`
    and a call (`t'`, `i'`) that in `s` has not started (or is in progress but has not taken effect
    yet): wherever the two appear in the later commit log, the first is before the second. (A call
    commits at a step between its call mark and its return mark, and the log only grows at its end.) -/
theorem real_time_commit_order {float counter : Bool} {prog : List (List String)} {s s' : ASt}
    (h : AReach (aInit float counter prog) s) (h' : AReach s s')
    {t t' : Nat} {th th' : Th APc} (hth : s.ths[t]? = some th) (hth' : s.ths[t']? = some th')
    {i i' : Nat} (hret : i < th.idx) (hnot : th'.idx < i' ∨ (i' = th'.idx ∧ th'.retv = none))
    {p q : Nat} {x y : LinEv} (hx : s'.lin[p]? = some x) (hy : s'.lin[q]? = some y)
    (hxt : x.tid = t ∧ x.idx = i) (hyt : y.tid = t' ∧ y.idx = i') : p < q := by
  obtain ⟨ext, hext⟩ := reach_lin_prefix h'
  -- the later call has no commit in `s.lin`
  have c0 : commits s.lin t' i' = 0 := by
    rw [exactly_once h t' th' hth' i']
    rcases hnot with hn | ⟨hn, hr⟩
    · have h1 : ¬ i' < th'.idx := by omega
      have h2 : ¬ i' = th'.idx := by omega
      simp [h1, h2]
    · have h1 : ¬ i' < th'.idx := by omega
      simp [h1, hr]
  -- the returned call has as many commits in `s'.lin` as in `s.lin`
  obtain ⟨th2, hth2, hops, hidx⟩ := reach_th_pres h' hth
  have c1 : commits s'.lin t i = commits s.lin t i := by
    rw [exactly_once h t th hth i, exactly_once (h.trans h') t th2 hth2 i]
    have : i < th2.idx := by omega
    simp [hret, this, hops]
  rw [← hext] at c1 hx hy
  have hq : s.lin.length ≤ q := commits_zero_pos c0 hy hyt
  have hp : p < s.lin.length := commits_same_pos c1 hx hxt
  omega

/-- **reads_real_time_monotone** — "reads that follow one another in real time never decrease unless
    `reset()` intervened", for the integer counter: in an accepted run whose committed operations are
    increment-only and do not wrap, a `get` that has RETURNED before another `get` is called (state
    `s` lies between the return mark of the first and the commit of the second) returned a value
    `≤` the value the second one returns. -/
theorem reads_real_time_monotone {counter : Bool} {prog : List (List String)} {s s' : ASt}
    (h : AReach (aInit false counter prog) s) (h' : AReach s s')
    (hi : IncOnly s'.lin) (hw : NoWrap s'.lin)
    {t t' : Nat} {th th' : Th APc} (hth : s.ths[t]? = some th) (hth' : s.ths[t']? = some th')
    {i i' : Nat} (hret : i < th.idx) (hnot : th'.idx < i' ∨ (i' = th'.idx ∧ th'.retv = none))
    {x y : LinEv} (hx : x ∈ s'.lin) (hy : y ∈ s'.lin)
    (hxt : x.tid = t ∧ x.idx = i) (hyt : y.tid = t' ∧ y.idx = i')
    (hgx : opName x.op = "get") (hgy : opName y.op = "get") :
    ∃ vx vy, x.rv = hexStr vx ∧ y.rv = hexStr vy ∧ vx ≤ vy := by
  obtain ⟨p, hp⟩ := List.getElem?_of_mem hx
  obtain ⟨q, hq⟩ := List.getElem?_of_mem hy
  have hpq := real_time_commit_order h h' hth hth' hret hnot hp hq hxt hyt
  obtain ⟨vi, vj, _, _, h1, h2, h3⟩ := reads_monotone_int (h.trans h') hi hw hpq hp hq hgx hgy
  exact ⟨vi, vj, h1, h2, h3⟩

/-- **reads_monotone_float** — the FLOAT counter: every accepted run of a float cell (any number of
    threads, any schedule) whose commit log passes the executable step check `floatStepsMonoB` (each
    committed step of the sequential specification led to a value `>=` the one before, in IEEE order —
    the driver evaluates exactly this on the commit log of every replayed float-counter run): for any
    two committed `get`s at positions `i < j` of the commit log, the earlier one returned `hexStr vi`,
    the later one `hexStr vj`, the values of the cell at those positions, and `vi <= vj` as IEEE
    doubles. No assumption on `f64Add` is made here. -/
theorem reads_monotone_float {counter : Bool} {prog : List (List String)} {s : ASt}
    (h : AReach (aInit true counter prog) s) (hm : floatStepsMonoB 0 s.lin = true)
    {i j : Nat} (hij : i < j) {x y : LinEv} (hx : s.lin[i]? = some x) (hy : s.lin[j]? = some y)
    (hgx : opName x.op = "get") (hgy : opName y.op = "get") :
    ∃ vi vj, (valuesAlong true 0 s.lin)[i]? = some vi ∧ (valuesAlong true 0 s.lin)[j]? = some vj ∧
      x.rv = hexStr vi ∧ y.rv = hexStr vj ∧ f64Le vi vj = true := by
  have hl := cell_linearizable h
  have hf : s.float = true := reach_float h
  rw [hf] at hl
  exact spec_reads_monotone_float hl hm hij hx hy hgx hgy

/-- **reads_monotone_float_of_addMono** — the same from the one named fact about IEEE addition
    (`AddMono`: adding a delta `>= +0` to a value `>= +0` gives a value `>=`, not NaN) instead of the
    per-run check: every accepted run whose committed operations are `get`s and adds of deltas
    `>= +0` (`FloatIncOnly`: no `set`, no `reset`, no negative or NaN delta). -/
theorem reads_monotone_float_of_addMono (ha : AddMono) {counter : Bool} {prog : List (List String)} {s : ASt}
    (h : AReach (aInit true counter prog) s) (hi : FloatIncOnly s.lin)
    {i j : Nat} (hij : i < j) {x y : LinEv} (hx : s.lin[i]? = some x) (hy : s.lin[j]? = some y)
    (hgx : opName x.op = "get") (hgy : opName y.op = "get") :
    ∃ vi vj, x.rv = hexStr vi ∧ y.rv = hexStr vj ∧ f64Le vi vj = true := by
  obtain ⟨vi, vj, _, _, h1, h2, h3⟩ :=
    reads_monotone_float h (floatStepsMonoB_of_addMono ha (by decide) hi) hij hx hy hgx hgy
  exact ⟨vi, vj, h1, h2, h3⟩

/-- **reads_real_time_monotone_float** — "reads that follow one another in real time never decrease
    unless `reset()` intervened", for the float counter: in an accepted run whose commit log passes
    the step check, a `get` that has RETURNED before another `get` is called returned a value `<=`
    (IEEE) the value the second one returns. -/
theorem reads_real_time_monotone_float {counter : Bool} {prog : List (List String)} {s s' : ASt}
    (h : AReach (aInit true counter prog) s) (h' : AReach s s')
    (hm : floatStepsMonoB 0 s'.lin = true)
    {t t' : Nat} {th th' : Th APc} (hth : s.ths[t]? = some th) (hth' : s.ths[t']? = some th')
    {i i' : Nat} (hret : i < th.idx) (hnot : th'.idx < i' ∨ (i' = th'.idx ∧ th'.retv = none))
    {x y : LinEv} (hx : x ∈ s'.lin) (hy : y ∈ s'.lin)
    (hxt : x.tid = t ∧ x.idx = i) (hyt : y.tid = t' ∧ y.idx = i')
    (hgx : opName x.op = "get") (hgy : opName y.op = "get") :
    ∃ vx vy, x.rv = hexStr vx ∧ y.rv = hexStr vy ∧ f64Le vx vy = true := by
  obtain ⟨p, hp⟩ := List.getElem?_of_mem hx
  obtain ⟨q, hq⟩ := List.getElem?_of_mem hy
  have hpq := real_time_commit_order h h' hth hth' hret hnot hp hq hxt hyt
  obtain ⟨vi, vj, _, _, h1, h2, h3⟩ := reads_monotone_float (h.trans h') hm hpq hp hq hgx hgy
  exact ⟨vi, vj, h1, h2, h3⟩

/-- the step check is what the hypothesis rests on: a log whose addition lowered the cell is rejected
    by it (so the driver reports such a run), and under `AddMono` no increment-only log is -/
theorem float_step_check_exact (v : UInt64) (x : LinEv) (r : List LinEv) (d : UInt64)
    (hd : floatDelta x.op = some d) (hbad : f64Le v (f64Add v d) = false) :
    floatStepsMonoB v (x :: r) = false :=
  floatStepsMonoB_rejects v x r d hd hbad

/-- the log of the run: thread 0 `inc`, thread 1 `get` (reads 1), thread 0 `reset`, thread 1 `get`
    (reads 0) -/
def resetLog : List LinEv := [⟨0, 0, "inc", ""⟩, ⟨1, 0, "get", "1"⟩, ⟨0, 1, "reset", ""⟩, ⟨1, 1, "get", "0"⟩]

/-- **reset_allows_decrease** — the hypothesis "no `reset`" is needed: `inc; get; reset; get` is a
    legal sequential history of the integer cell (no wrap-around anywhere), the cell values along it
    are 1, 1, 0, 0, and the second `get` returns less than the first; the log is not `IncOnly`, and it
    is exactly the `reset` that breaks it: without it the log is `IncOnly` and `NoWrap` -/
theorem reset_allows_decrease :
    specRun false 0 resetLog = some 0 ∧ valuesAlong false 0 resetLog = [1, 1, 0, 0] ∧
      ¬ List.Pairwise (· ≤ ·) (valuesAlong false 0 resetLog) ∧
      ¬ IncOnly resetLog ∧ IncOnly (resetLog.eraseIdx 2) ∧ NoWrap (resetLog.eraseIdx 2) := by
  have h1 : specRun false 0 resetLog = some 0 := by
    simp [specRun, resetLog, specApply_inc_lit, specApply_get_lit, specApply_reset_lit, hexStr_one, hexStr_zero]
  have h2 : valuesAlong false 0 resetLog = [1, 1, 0, 0] := by
    simp [valuesAlong, resetLog, specApply_inc_lit, specApply_get_lit, specApply_reset_lit]
  refine ⟨h1, h2, ?_, ?_, ?_, ?_⟩
  · rw [h2]; decide
  · intro hi
    have := hi ⟨0, 1, "reset", ""⟩ (by simp [resetLog])
    simp [opName_reset] at this
  · intro x hx
    simp only [resetLog, List.eraseIdx, List.mem_cons, List.not_mem_nil, or_false] at hx
    rcases hx with rfl | rfl | rfl <;> simp [opName_get, opName_inc]
  · simp [NoWrap, deltaSum, resetLog, opDeltaNat, opName_get, opName_inc, intDelta, u64OfInt_one]

/-- a run accepted item by item leads to a reachable state -/
theorem runItems_reach {s s' : ASt} {tr : List Item} {n : Nat} (h : runItems aItem s tr n = .ok s') :
    AReach s s' := by
  induction tr generalizing s n with
  | nil => simp only [runItems, Except.ok.injEq] at h; subst h; exact .init
  | cons it r ih =>
    simp only [runItems] at h
    split at h
    · next s1 h1 => exact AReach.trans (.step .init h1) (ih h)
    · cases h

/-- an interleaving of the programs `inc; reset` (thread 0) and `get; get` (thread 1), as the shim
    reports it: call mark, the atomic event (`fetch_add 1` → old value 0; `load` → 1; `store 0`;
    `load` → 0), return mark with the returned value -/
def resetTrace : List Item :=
  [.call 0 "0" "inc", .ev ⟨0, "A", "v0", "Relaxed", 1, 0, 0, true⟩, .ret 0 "0" "",
   .call 1 "0" "get", .ev ⟨1, "L", "v0", "Relaxed", 0, 0, 1, true⟩, .ret 1 "0" "1",
   .call 0 "1" "reset", .ev ⟨0, "S", "v0", "Relaxed", 0, 0, 0, true⟩, .ret 0 "1" "",
   .call 1 "1" "get", .ev ⟨1, "L", "v0", "Relaxed", 0, 0, 0, true⟩, .ret 1 "1" "0"]

/-- **reset_allows_decrease_run** — the four-operation history of `reset_allows_decrease` is the
    commit log of an accepted run of the machine (the trace `resetTrace`: both `get`s of thread 1
    are called after the previous call has returned, the first returns `"1"`, the second `"0"`): the
    decrease after a `reset` is observable in real time, not just a feature of the specification -/
theorem reset_allows_decrease_run :
    ∃ s, runItems aItem (aInit false true [["inc", "reset"], ["get", "get"]]) resetTrace 0 = .ok s ∧
      AReach (aInit false true [["inc", "reset"], ["get", "get"]]) s ∧ s.lin = resetLog ∧ s.mem = 0 := by
  have r0 : Nat.repr 0 = "0" := by decide +kernel
  have r1 : Nat.repr 1 = "1" := by decide +kernel
  have og : ordGe "Relaxed" "Relaxed" = true := by decide +kernel
  have h : ∃ s, runItems aItem (aInit false true [["inc", "reset"], ["get", "get"]]) resetTrace 0 = .ok s ∧
      s.lin = resetLog ∧ s.mem = 0 := by
    simp [runItems, resetTrace, resetLog, aItem, aStep, aEv, aEvStart, Conc.guard, aInit, openCall, closeCall, r0, r1,
      opName_inc, opName_get, opName_reset, u64OfInt_zero, u64OfInt_one, og, isSubOp, intDelta, hexStr_one, hexStr_zero]
  obtain ⟨s, hr, hl, hm⟩ := h
  exact ⟨s, hr, runItems_reach hr, hl, hm⟩

/-- the bits of `1.0`, of `0.0 + 1.0` and of `(0.0 + 1.0) + 1.0` (IEEE arithmetic is a parameter of the
    theorems, so the run below is stated over these terms) -/
def retryOne : UInt64 := f64OfInt 1
def retryV1 : UInt64 := f64Add 0 retryOne
def retryV2 : UInt64 := f64Add retryV1 retryOne

/-- two threads `inc` a float counter. Both load `0`; thread 1's compare-exchange `0 -> 0+1` succeeds;
    thread 0's compare-exchange `0 -> 0+1` FAILS and reports the value it found (`0+1`); thread 0 then
    retries AT ONCE with the reported value as expected value (`0+1 -> (0+1)+1`) - no second load - and
    succeeds -/
def retryTrace : List Item :=
  [.call 0 "0" "inc", .call 1 "0" "inc",
   .ev ⟨0, "L", "v0", "Acquire", 0, 0, 0, true⟩,
   .ev ⟨1, "L", "v0", "Acquire", 0, 0, 0, true⟩,
   .ev ⟨1, "C", "v0", "Release", 0, retryV1, 0, true⟩, .ret 1 "0" "",
   .ev ⟨0, "C", "v0", "Release", 0, retryV1, retryV1, false⟩,
   .ev ⟨0, "C", "v0", "Release", retryV1, retryV2, retryV1, true⟩, .ret 0 "0" ""]

/-- **retry_without_reload_accepted** — the loop written as `Err(v) => cur = v` is accepted: `retryTrace`
    (thread 0's compare-exchange fails, it retries with the value the failure reported, without loading
    again, and succeeds) is an accepted run of the float counter machine; both increments are committed,
    thread 1's first, each exactly once, and the cell holds `(0 + 1) + 1`. The same trace with a reload
    between the two compare-exchanges of thread 0 is accepted as well (`retry_with_reload_accepted`). -/
theorem retry_without_reload_accepted :
    ∃ s, runItems aItem (aInit true true [["inc"], ["inc"]]) retryTrace 0 = .ok s ∧
      AReach (aInit true true [["inc"], ["inc"]]) s ∧
      s.lin = [⟨1, 0, "inc", ""⟩, ⟨0, 0, "inc", ""⟩] ∧ s.mem = retryV2 ∧ allDone s.ths = true := by
  have r0 : Nat.repr 0 = "0" := by decide +kernel
  have oa : ordGe "Acquire" "Acquire" = true := by decide +kernel
  have orl : ordGe "Release" "Release" = true := by decide +kernel
  have fd : floatDelta "inc" = some retryOne := by simp [floatDelta, opName_inc, retryOne]
  have h : ∃ s, runItems aItem (aInit true true [["inc"], ["inc"]]) retryTrace 0 = .ok s ∧
      s.lin = [⟨1, 0, "inc", ""⟩, ⟨0, 0, "inc", ""⟩] ∧ s.mem = retryV2 ∧ allDone s.ths = true := by
    simp [runItems, retryTrace, aItem, aStep, aEv, aEvStart, aEvCas, Conc.guard, aInit, openCall, closeCall, r0,
      opName_inc, oa, orl, fd, retryV1, retryV2, allDone, casNew, casOrd]
  obtain ⟨s, hr, hl, hm, hd⟩ := h
  exact ⟨s, hr, runItems_reach hr, hl, hm, hd⟩

/-- the loop written with a reload after the failure is still accepted: as `retryTrace`, with a load
    (returning the current value) between thread 0's failed and its successful compare-exchange -/
theorem retry_with_reload_accepted :
    ∃ s, runItems aItem (aInit true true [["inc"], ["inc"]])
        (retryTrace.take 7 ++ [.ev ⟨0, "L", "v0", "Acquire", 0, 0, retryV1, true⟩] ++ retryTrace.drop 7) 0 = .ok s ∧
      s.lin = [⟨1, 0, "inc", ""⟩, ⟨0, 0, "inc", ""⟩] ∧ s.mem = retryV2 ∧ allDone s.ths = true := by
  have r0 : Nat.repr 0 = "0" := by decide +kernel
  have oa : ordGe "Acquire" "Acquire" = true := by decide +kernel
  have orl : ordGe "Release" "Release" = true := by decide +kernel
  have fd : floatDelta "inc" = some retryOne := by simp [floatDelta, opName_inc, retryOne]
  simp [runItems, retryTrace, aItem, aStep, aEv, aEvStart, aEvCas, Conc.guard, aInit, openCall, closeCall, r0,
    opName_inc, oa, orl, fd, retryV1, retryV2, allDone, casNew, casOrd]

/-! ## the integer add written as a compare-exchange loop -/

/-- two threads `inc` an INTEGER counter, both written as `load; compare_exchange(cur, cur + 1)` loops. Both
    load `0`; thread 1's compare-exchange `0 -> 1` succeeds; thread 0's compare-exchange `0 -> 1` FAILS and
    reports the value it found (`1`); thread 0 retries at once with the reported value (`1 -> 2`) and succeeds -/
def intCasTrace : List Item :=
  [.call 0 "0" "inc", .call 1 "0" "inc",
   .ev ⟨0, "L", "v0", "Relaxed", 0, 0, 0, true⟩,
   .ev ⟨1, "L", "v0", "Relaxed", 0, 0, 0, true⟩,
   .ev ⟨1, "C", "v0", "Relaxed", 0, 1, 0, true⟩, .ret 1 "0" "",
   .ev ⟨0, "C", "v0", "Relaxed", 0, 1, 1, false⟩,
   .ev ⟨0, "C", "v0", "Relaxed", 1, 2, 1, true⟩, .ret 0 "0" ""]

/-- **int_add_as_cas_loop_accepted** — an integer `inc` written as a compare-exchange loop is accepted:
    `intCasTrace` (two increments race, thread 0's exchange fails, it retries with the value the failure
    reported and succeeds) is an accepted run of the integer counter machine; both increments are committed,
    thread 1's first, each exactly once, and the cell holds the sum `2`. The single `fetch_add` stays
    accepted (`reset_allows_decrease_run`); so do the loop that loads again after the failure
    (`int_add_as_cas_loop_reload_accepted`), stronger orderings, `dec` / `sub`, and a mix of both ways of
    writing the operation in one run (`int_sub_as_cas_loop_accepted`). -/
theorem int_add_as_cas_loop_accepted :
    ∃ s, runItems aItem (aInit false true [["inc"], ["inc"]]) intCasTrace 0 = .ok s ∧
      AReach (aInit false true [["inc"], ["inc"]]) s ∧
      s.lin = [⟨1, 0, "inc", ""⟩, ⟨0, 0, "inc", ""⟩] ∧ s.mem = 2 ∧ allDone s.ths = true := by
  have r0 : Nat.repr 0 = "0" := by decide +kernel
  have og : ordGe "Relaxed" "Relaxed" = true := by decide +kernel
  have h : ∃ s, runItems aItem (aInit false true [["inc"], ["inc"]]) intCasTrace 0 = .ok s ∧
      s.lin = [⟨1, 0, "inc", ""⟩, ⟨0, 0, "inc", ""⟩] ∧ s.mem = 2 ∧ allDone s.ths = true := by
    simp [runItems, intCasTrace, aItem, aStep, aEv, aEvStart, aEvCas, Conc.guard, aInit, openCall, closeCall, r0,
      opName_inc, og, casNew, casOrd, isSubOp, intDelta, u64OfInt_one, allDone]
  obtain ⟨s, hr, hl, hm, hd⟩ := h
  exact ⟨s, hr, runItems_reach hr, hl, hm, hd⟩

/-- the integer loop written with a reload after the failure is accepted as well: as `intCasTrace`, with a
    load (returning the current value `1`) between thread 0's failed and its successful compare-exchange -/
theorem int_add_as_cas_loop_reload_accepted :
    ∃ s, runItems aItem (aInit false true [["inc"], ["inc"]])
        (intCasTrace.take 7 ++ [.ev ⟨0, "L", "v0", "Relaxed", 0, 0, 1, true⟩] ++ intCasTrace.drop 7) 0 = .ok s ∧
      s.lin = [⟨1, 0, "inc", ""⟩, ⟨0, 0, "inc", ""⟩] ∧ s.mem = 2 ∧ allDone s.ths = true := by
  have r0 : Nat.repr 0 = "0" := by decide +kernel
  have og : ordGe "Relaxed" "Relaxed" = true := by decide +kernel
  simp [runItems, intCasTrace, aItem, aStep, aEv, aEvStart, aEvCas, Conc.guard, aInit, openCall, closeCall, r0,
    opName_inc, og, casNew, casOrd, isSubOp, intDelta, u64OfInt_one, allDone]

theorem splitOn_dec : "dec".splitOn ":" = ["dec"] := by split_on_lit
theorem opName_dec : opName "dec" = "dec" := by simp [opName, splitOn_dec]

/-- an integer GAUGE: thread 0 `dec`, written as a loop with stronger orderings than needed (load Acquire,
    compare-exchange AcqRel), races with thread 1's `inc`, written as the single `fetch_add`. Thread 0 loads
    `0`; thread 1 adds `1`; thread 0's exchange `0 -> 0 - 1` (wrapping: `0xffffffffffffffff`) fails and
    reports `1`; its retry `1 -> 0` succeeds -/
def intSubCasTrace : List Item :=
  [.call 0 "0" "dec", .call 1 "0" "inc",
   .ev ⟨0, "L", "v0", "Acquire", 0, 0, 0, true⟩,
   .ev ⟨1, "A", "v0", "Relaxed", 1, 0, 0, true⟩, .ret 1 "0" "",
   .ev ⟨0, "C", "v0", "AcqRel", 0, 0xffffffffffffffff, 1, false⟩,
   .ev ⟨0, "C", "v0", "AcqRel", 1, 0, 1, true⟩, .ret 0 "0" ""]

/-- **int_sub_as_cas_loop_accepted** — `dec` as a compare-exchange loop (wrapping subtraction, any orderings
    at least Relaxed), in one run with an `inc` that is a single `fetch_add`: accepted, both committed once,
    the `inc` first, the cell holds `0 + 1 - 1 = 0` -/
theorem int_sub_as_cas_loop_accepted :
    ∃ s, runItems aItem (aInit false false [["dec"], ["inc"]]) intSubCasTrace 0 = .ok s ∧
      AReach (aInit false false [["dec"], ["inc"]]) s ∧
      s.lin = [⟨1, 0, "inc", ""⟩, ⟨0, 0, "dec", ""⟩] ∧ s.mem = 0 ∧ allDone s.ths = true := by
  have r0 : Nat.repr 0 = "0" := by decide +kernel
  have og : ordGe "Relaxed" "Relaxed" = true := by decide +kernel
  have oa : ordGe "Acquire" "Relaxed" = true := by decide +kernel
  have oar : ordGe "AcqRel" "Relaxed" = true := by decide +kernel
  have w : (0 : UInt64) - 1 = 0xffffffffffffffff := by decide +kernel
  have h : ∃ s, runItems aItem (aInit false false [["dec"], ["inc"]]) intSubCasTrace 0 = .ok s ∧
      s.lin = [⟨1, 0, "inc", ""⟩, ⟨0, 0, "dec", ""⟩] ∧ s.mem = 0 ∧ allDone s.ths = true := by
    simp [runItems, intSubCasTrace, aItem, aStep, aEv, aEvStart, aEvCas, Conc.guard, aInit, openCall, closeCall, r0,
      opName_inc, opName_dec, og, oa, oar, casNew, casOrd, isSubOp, intDelta, u64OfInt_one, allDone, w]
  obtain ⟨s, hr, hl, hm, hd⟩ := h
  exact ⟨s, hr, runItems_reach hr, hl, hm, hd⟩

/-- the loop is not accepted blindly: `intCasTrace` with thread 0's stale compare-exchange (`0 -> 1`, made when
    the cell already holds `1`) reported as a SUCCESS is rejected at that event (item 6) - accepting it would
    lose thread 1's increment -/
theorem int_cas_stale_success_rejected :
    runItems aItem (aInit false true [["inc"], ["inc"]])
        (intCasTrace.take 6 ++ [.ev ⟨0, "C", "v0", "Relaxed", 0, 1, 0, true⟩, .ret 0 "0" ""]) 0 =
      .error "diverge@6: cas succeeded although the cell no longer holds the loaded value" := by
  have r0 : Nat.repr 0 = "0" := by decide +kernel
  have r6 : Nat.repr 6 = "6" := by decide +kernel
  have og : ordGe "Relaxed" "Relaxed" = true := by decide +kernel
  simp [runItems, intCasTrace, aItem, aStep, aEv, aEvStart, aEvCas, Conc.guard, aInit, openCall, closeCall, r0,
    opName_inc, og, casNew, casOrd, isSubOp, intDelta, u64OfInt_one, r6]
  decide +kernel

/-- non-vacuity of `reads_monotone_int` / `reads_real_time_monotone`: an accepted run of `inc; inc`
    against `get; get` whose commit log (`inc, get, inc, get`, reads 1 then 2) is `IncOnly` and `NoWrap` -/
example : ∃ s, AReach (aInit false true [["inc", "inc"], ["get", "get"]]) s ∧
    s.lin = [⟨0, 0, "inc", ""⟩, ⟨1, 0, "get", "1"⟩, ⟨0, 1, "inc", ""⟩, ⟨1, 1, "get", "2"⟩] ∧
    IncOnly s.lin ∧ NoWrap s.lin := by
  have r0 : Nat.repr 0 = "0" := by decide +kernel
  have r1 : Nat.repr 1 = "1" := by decide +kernel
  have og : ordGe "Relaxed" "Relaxed" = true := by decide +kernel
  have h2 : hexStr 2 = "2" := by decide +kernel
  have h : ∃ s, runItems aItem (aInit false true [["inc", "inc"], ["get", "get"]])
      [.call 0 "0" "inc", .call 1 "0" "get", .ev ⟨0, "A", "v0", "Relaxed", 1, 0, 0, true⟩,
       .ev ⟨1, "L", "v0", "Relaxed", 0, 0, 1, true⟩, .ret 1 "0" "1", .ret 0 "0" "",
       .call 0 "1" "inc", .ev ⟨0, "A", "v0", "Relaxed", 1, 0, 1, true⟩, .ret 0 "1" "",
       .call 1 "1" "get", .ev ⟨1, "L", "v0", "Relaxed", 0, 0, 2, true⟩, .ret 1 "1" "2"] 0 = .ok s ∧
      s.lin = [⟨0, 0, "inc", ""⟩, ⟨1, 0, "get", "1"⟩, ⟨0, 1, "inc", ""⟩, ⟨1, 1, "get", "2"⟩] := by
    simp [runItems, aItem, aStep, aEv, aEvStart, Conc.guard, aInit, openCall, closeCall, r0, r1,
      opName_inc, opName_get, u64OfInt_one, og, isSubOp, intDelta, hexStr_one, h2]
  obtain ⟨s, hr, hl⟩ := h
  refine ⟨s, runItems_reach hr, hl, ?_, ?_⟩
  · rw [hl]
    intro x hx
    simp only [List.mem_cons, List.not_mem_nil, or_false] at hx
    rcases hx with rfl | rfl | rfl | rfl <;> simp [opName_get, opName_inc]
  · rw [hl]
    simp [NoWrap, deltaSum, opDeltaNat, opName_get, opName_inc, intDelta, u64OfInt_one]

/-- non-vacuity: the initial state of a two-thread program is reachable (and the invariants hold of it) -/
example : AReach (aInit false true [["inc"], ["get"]]) (aInit false true [["inc"], ["get"]]) ∧
    OnceInv (aInit false true [["inc"], ["get"]]) := ⟨.init, onceInv_init _ _ _⟩

end Prom.C01
