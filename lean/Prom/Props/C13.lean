import Prom.Lemmas.PbDataModel

namespace Prom.C13
open Prom Prom.Pb
/-! ### the regenerated tables are compatible -/

/-- **compatible_generated** — the writer table extracted from the generated Rust code and the
    schema extracted from the .proto file agree (re-proved from the regenerated tables on every run:
    an edited field number, wire type, presence or size rule in proto_model.rs breaks this theorem) -/
theorem compatible_generated : Compatible Gen.writerTable Gen.schema = true := by decide +kernel

theorem package_is_prometheus : Gen.protoPackage = "io.prometheus.client" := by decide +kernel

theorem metric_type_numbers :
    Gen.enums = [("MetricType", [("COUNTER", 0), ("GAUGE", 1), ("SUMMARY", 2), ("UNTYPED", 3), ("HISTOGRAM", 4)])] := by
  decide +kernel

/-! ### primitives round-trip -/

/-- **varint_roundtrip** — every 64-bit value written as a base-128 varint is read back exactly,
    leaving the rest of the stream untouched -/
theorem varint_roundtrip (n : Nat) (rest : List UInt8) (h : n < 2 ^ 64) :
    readVarint 10 (varint n ++ rest) = some (n, rest) := by
  apply varint_roundtrip_fuel 9 n rest
  have : (2 : Nat) ^ 64 ≤ 128 ^ 10 := by decide
  omega

/-- **fixed64_roundtrip** — a double is written as its 8 little-endian bytes and read back bit-exactly
    (every f64 class: ±0, subnormals, infinities, every NaN payload) -/
theorem fixed64_roundtrip (b : UInt64) (rest : List UInt8) :
    readFixed64 (fixed64 b ++ rest) = some (b, rest) := by
  have hlt : b.toNat < 2 ^ 64 := b.toNat_lt
  unfold fixed64
  simp only [List.cons_append, List.nil_append, readFixed64]
  rw [toUInt8_toNat _ (by omega), toUInt8_toNat _ (by omega), toUInt8_toNat _ (by omega), toUInt8_toNat _ (by omega),
    toUInt8_toNat _ (by omega), toUInt8_toNat _ (by omega), toUInt8_toNat _ (by omega), toUInt8_toNat _ (by omega)]
  have : b.toNat % 256 + 256 * (b.toNat / 256 % 256 + 256 * (b.toNat / 65536 % 256 + 256 * (b.toNat / 16777216 % 256 +
      256 * (b.toNat / 4294967296 % 256 + 256 * (b.toNat / 1099511627776 % 256 + 256 * (b.toNat / 281474976710656 % 256 +
      256 * (b.toNat / 72057594037927936 % 256))))))) = b.toNat := by omega
  rw [this]
  simp

/-! ### refusal -/

/-- **refused_iff** — given that every family's message can be written (true for every value of the
    data model, see the correspondence), the encoder refuses exactly when some family has no name or
    no samples; and then nothing of that family is written -/
theorem refused_iff (tbl : List (String × List WField)) (fams : List Family)
    (hw : ∀ f ∈ fams, (encDelimited tbl (familyFields f)).isSome = true) :
    (encodeStream tbl fams).2 = false ↔ ∃ f ∈ fams, f.samples.isEmpty = true ∨ f.name.isEmpty = true := by
  induction fams with
  | nil => simp [encodeStream]
  | cons f r ih =>
    unfold encodeStream
    by_cases hc : (f.samples.isEmpty || f.name.isEmpty) = true
    · simp only [hc, if_true, true_iff]
      exact ⟨f, by simp, by simpa [Bool.or_eq_true] using hc⟩
    · simp only [hc, Bool.false_eq_true, if_false]
      have hwf := hw f (by simp)
      cases he : encDelimited tbl (familyFields f) with
      | none => rw [he] at hwf; simp at hwf
      | some b =>
        simp only []
        rw [ih (fun g hg => hw g (by simp [hg]))]
        constructor
        · rintro ⟨g, hg, hgc⟩; exact ⟨g, by simp [hg], hgc⟩
        · rintro ⟨g, hg, hgc⟩
          rcases List.mem_cons.1 hg with rfl | hg
          · exfalso; apply hc; simpa [Bool.or_eq_true] using hgc
          · exact ⟨g, hg, hgc⟩

/-- one frame per family, in order: the stream is the concatenation of the length-delimited messages -/
theorem stream_is_concatenation (tbl : List (String × List WField)) (f : Family) (r : List Family) (b : List UInt8)
    (hc : (f.samples.isEmpty || f.name.isEmpty) = false) (he : encDelimited tbl (familyFields f) = some b) :
    (encodeStream tbl (f :: r)).1 = b ++ (encodeStream tbl r).1 := by
  simp [encodeStream, hc, he]

/-! ### the wire round trip, for every message shape and nesting depth -/

/-- **message_roundtrip** — for ANY writer table and schema that are `Compatible`, any message of any
    shape and nesting that the table-driven writer accepts (below 2^64 bytes) is read back by the
    independent schema-driven reader, from exactly those bytes, as the same fields in write order
    (`canon`: each level's entries grouped by the table's field order, values untouched): no field is
    dropped, merged, retyped or renumbered, and nothing else is in the stream. -/
theorem message_roundtrip (tbl : List (String × List WField)) (sch : List (String × List SField))
    (hc : Compatible tbl sch = true) (d : Nat) (name : String) (fs : Fields) (bytes : List UInt8)
    (henc : encMsg tbl d name fs = some bytes) (hlen : bytes.length < 2 ^ 64) :
    decMsg sch d (bytes.length + 1) name bytes = some (canon tbl d name fs) :=
  message_rt tbl sch (agrees_of_compatible tbl sch hc) d name fs bytes henc hlen

/-- the messages the library builds are already in the write order of the regenerated table, at
    every level (labels, value slot, timestamp; count, sum, buckets; …) -/
theorem library_messages_canonical (f : Family) :
    canon Gen.writerTable 8 "MetricFamily" (familyFields f) = familyFields f := canon_family 4 f

/-- **exposition_roundtrip** — with the tables regenerated from /repo: whenever the encoder returns
    Ok, the stream it wrote decodes (independent reader, .proto schema) to exactly the families that
    were encoded — names, help, types, label pairs, bit-exact values, counts, buckets, timestamps, in
    order — for every list of families whose counts fit u64 and timestamps fit i64 (`WfSample`). -/
theorem exposition_roundtrip (fams : List Family)
    (hok : (encodeStream Gen.writerTable fams).2 = true)
    (hlen : (encodeStream Gen.writerTable fams).1.length < 2 ^ 64)
    (hwf : ∀ f ∈ fams, ∀ s ∈ f.samples, WfSample s) :
    decodeFamilies Gen.schema (encodeStream Gen.writerTable fams).1 = some fams := by
  have hag := agrees_of_compatible _ _ compatible_generated
  have he : encodeStream Gen.writerTable fams = ((encodeStream Gen.writerTable fams).1, true) := by rw [← hok]
  obtain ⟨hd, _⟩ := stream_rt Gen.writerTable Gen.schema hag fams _ he hlen (fun f _ => library_messages_canonical f)
    ((encodeStream Gen.writerTable fams).1.length + 1) (by
      have := (stream_rt Gen.writerTable Gen.schema hag fams _ he hlen (fun f _ => library_messages_canonical f) (fams.length + 1) (by omega)).2
      omega)
  unfold decodeFamilies
  rw [hd]
  exact mapM_msgToFamily fams hwf

/-- non-vacuity: a histogram family with labels, buckets and a timestamp meets every hypothesis -/
def exFam : Family := ⟨strOfString "h", strOfString "help", .histogram,
  [⟨[⟨strOfString "k", strOfString "v"⟩], .hist 3 0x4008000000000000 [(0x3FF0000000000000, 1), (0x7FF0000000000000, 3)], -5⟩]⟩

example : (encodeStream Gen.writerTable [exFam]).2 = true := by decide +kernel
example : (encodeStream Gen.writerTable [exFam]).1.length < 2 ^ 64 := by decide +kernel
example : ∀ f ∈ [exFam], ∀ s ∈ f.samples, WfSample s := by
  intro f hf s hs
  simp only [List.mem_cons, List.not_mem_nil, or_false] at hf
  subst hf
  simp only [exFam, List.mem_cons, List.not_mem_nil, or_false] at hs
  subst hs
  refine ⟨⟨by decide, ?_⟩, by decide, by decide⟩
  intro b hb
  simp only [List.mem_cons, List.not_mem_nil, or_false] at hb
  rcases hb with rfl | rfl <;> decide

end Prom.C13
