import Prom.Lemmas.C13Aux

namespace Prom.C13
open Prom Prom.Pb
/-! ### the regenerated tables are compatible -/

def kindCompat : FKind → FKind → Bool
  | .str, .str | .double, .double | .uint64, .uint64 | .int64, .int64 => true
  | .enum _, .enum _ => true
  | .msg a, .msg b => a == b
  | _, _ => false

def sizeOk (w : WField) : Bool :=
  match w.kind, w.size with
  | .str, .tagLenBytes | .msg _, .tagLenBytes | .double, .tagFixed64 => true
  | .uint64, .tagVarint | .int64, .tagVarint | .enum _, .tagVarint => true
  | _, _ => false

/-- every message the code writes is declared; every written field is declared with the same
    name, number, repetition and a compatible type; every declared field is written; field
    numbers are pairwise distinct; the size rule of `compute_size` matches the wire kind -/
def Compatible (wt : List (String × List WField)) (sch : List (String × List SField)) : Bool :=
  wt.length == sch.length &&
  wt.all fun (name, wfs) =>
    match lookupMsg sch name with
    | none => false
    | some sfs =>
      wfs.length == sfs.length &&
      (wfs.map (·.num)).Nodup &&
      wfs.all (fun w => sizeOk w && sfs.any fun s => s.name == w.name && s.num == w.num && s.repeated == w.repeated && kindCompat w.kind s.kind) &&
      sfs.all (fun s => wfs.any fun w => s.name == w.name && s.num == w.num)

/-- **compatible_generated** — the writer table extracted from the generated Rust code and the
    schema extracted from the .proto file agree (re-proved from the regenerated tables on every run:
    an edited field number, wire type, presence or size rule in proto_model.rs breaks this theorem) -/
theorem compatible_generated : Compatible Gen.writerTable Gen.schema = true := by decide +kernel

theorem package_is_prometheus : Gen.protoPackage = "io.prometheus.client" := by decide +kernel

theorem metric_type_numbers :
    Gen.enums = [("MetricType", [("COUNTER", 0), ("GAUGE", 1), ("SUMMARY", 2), ("UNTYPED", 3), ("HISTOGRAM", 4)])] := by
  decide +kernel

/-! ### primitives round-trip -/

/-- **varint_roundtrip** — every 64-bit value written as a base-128 varint is read back exactly,
    leaving the rest of the stream untouched -/
theorem varint_roundtrip (n : Nat) (rest : List UInt8) (h : n < 2 ^ 64) :
    readVarint 10 (varint n ++ rest) = some (n, rest) := by
  apply varint_roundtrip_fuel 9 n rest
  have : (2 : Nat) ^ 64 ≤ 128 ^ 10 := by decide
  omega

/-- **fixed64_roundtrip** — a double is written as its 8 little-endian bytes and read back bit-exactly
    (every f64 class: ±0, subnormals, infinities, every NaN payload) -/
theorem fixed64_roundtrip (b : UInt64) (rest : List UInt8) :
    readFixed64 (fixed64 b ++ rest) = some (b, rest) := by
  have hlt : b.toNat < 2 ^ 64 := b.toNat_lt
  unfold fixed64
  simp only [List.cons_append, List.nil_append, readFixed64]
  rw [toUInt8_toNat _ (by omega), toUInt8_toNat _ (by omega), toUInt8_toNat _ (by omega), toUInt8_toNat _ (by omega),
    toUInt8_toNat _ (by omega), toUInt8_toNat _ (by omega), toUInt8_toNat _ (by omega), toUInt8_toNat _ (by omega)]
  have : b.toNat % 256 + 256 * (b.toNat / 256 % 256 + 256 * (b.toNat / 65536 % 256 + 256 * (b.toNat / 16777216 % 256 +
      256 * (b.toNat / 4294967296 % 256 + 256 * (b.toNat / 1099511627776 % 256 + 256 * (b.toNat / 281474976710656 % 256 +
      256 * (b.toNat / 72057594037927936 % 256))))))) = b.toNat := by omega
  rw [this]
  simp

/-! ### refusal -/

/-- **refused_iff** — given that every family's message can be written (true for every value of the
    data model, see the correspondence), the encoder refuses exactly when some family has no name or
    no samples; and then nothing of that family is written -/
theorem refused_iff (tbl : List (String × List WField)) (fams : List Family)
    (hw : ∀ f ∈ fams, (encDelimited tbl (familyFields f)).isSome = true) :
    (encodeStream tbl fams).2 = false ↔ ∃ f ∈ fams, f.samples.isEmpty = true ∨ f.name.isEmpty = true := by
  induction fams with
  | nil => simp [encodeStream]
  | cons f r ih =>
    unfold encodeStream
    by_cases hc : (f.samples.isEmpty || f.name.isEmpty) = true
    · simp only [hc, if_true, true_iff]
      exact ⟨f, by simp, by simpa [Bool.or_eq_true] using hc⟩
    · simp only [hc, Bool.false_eq_true, if_false]
      have hwf := hw f (by simp)
      cases he : encDelimited tbl (familyFields f) with
      | none => rw [he] at hwf; simp at hwf
      | some b =>
        simp only []
        rw [ih (fun g hg => hw g (by simp [hg]))]
        constructor
        · rintro ⟨g, hg, hgc⟩; exact ⟨g, by simp [hg], hgc⟩
        · rintro ⟨g, hg, hgc⟩
          rcases List.mem_cons.1 hg with rfl | hg
          · exfalso; apply hc; simpa [Bool.or_eq_true] using hgc
          · exact ⟨g, hg, hgc⟩

/-- one frame per family, in order: the stream is the concatenation of the length-delimited messages -/
theorem stream_is_concatenation (tbl : List (String × List WField)) (f : Family) (r : List Family) (b : List UInt8)
    (hc : (f.samples.isEmpty || f.name.isEmpty) = false) (he : encDelimited tbl (familyFields f) = some b) :
    (encodeStream tbl (f :: r)).1 = b ++ (encodeStream tbl r).1 := by
  simp [encodeStream, hc, he]

end Prom.C13
