import Prom.Lemmas.C12Aux
import Prom.Lemmas.C12Vec

namespace Prom.C12
open Prom
/-! ### counters -/

/-- **shared_eq_direct_plus_flushed (counter)** — over any history and any number of handles:
    shared value + everything still pending locally + everything deliberately discarded
    = everything that was ever added. Nothing is lost or counted twice. -/
theorem counter_conservation (ops : List COp) : CInv (ops.foldl CW.step {}) := by
  suffices H : ∀ w, CInv w → CInv (ops.foldl CW.step w) from H {} (by simp [CInv])
  induction ops with
  | nil => intro w h; exact h
  | cons op r ih => intro w h; exact ih _ (cstep_inv w op h)

/-- a flush adds to the shared counter exactly what the handle accumulated since its previous
    flush or reset, and leaves the handle empty -/
theorem flush_exact (w : CW) (h p : Nat) (hl : w.locals[h]? = some p) :
    (w.step (.lflush h)).shared = w.shared + p ∧ (w.step (.lflush h)).locals[h]? = some 0 := by
  simp only [CW.step, hl]
  by_cases hp : (p == 0) = true
  · have : p = 0 := by simpa using hp
    subst this
    simp [hl]
  · simp only [hp]
    have hlt : h < w.locals.length := by
      rcases Nat.lt_or_ge h w.locals.length with h' | h'
      · exact h'
      · rw [List.getElem?_eq_none_iff.2 h'] at hl; cases hl
    simp [hlt]

/-- **flush_idempotent** — a second flush adds nothing -/
theorem flush_idempotent (w : CW) (h : Nat) :
    (w.step (.lflush h)).step (.lflush h) = w.step (.lflush h) := by
  cases hl : w.locals[h]? with
  | none => simp [CW.step, hl]
  | some p =>
    by_cases hp : p = 0
    · subst hp; simp [CW.step, hl]
    · have hlt : h < w.locals.length := by
        rcases Nat.lt_or_ge h w.locals.length with h' | h'
        · exact h'
        · rw [List.getElem?_eq_none_iff.2 h'] at hl; cases hl
      have hstep : w.step (.lflush h) = { w with shared := w.shared + p, locals := w.locals.set h 0 } := by
        simp [CW.step, hl, hp]
      rw [hstep]
      simp [CW.step, hlt]

/-- **reset_discards_only_local** — reset touches neither the shared counter nor other handles -/
theorem reset_discards_only_local (w : CW) (h : Nat) :
    (w.step (.lreset h)).shared = w.shared ∧
    ∀ j, j ≠ h → (w.step (.lreset h)).locals[j]? = w.locals[j]? := by
  simp only [CW.step]
  cases hl : w.locals[h]? with
  | none => simp
  | some p =>
    refine ⟨rfl, ?_⟩
    intro j hj
    simp [List.getElem?_set, Ne.symm hj]

/-- **clone_empty** — a clone starts with nothing pending and takes nothing from the original -/
theorem clone_empty (w : CW) (h p : Nat) (hl : w.locals[h]? = some p) :
    (w.step (.lclone h)).locals = w.locals ++ [0] ∧ (w.step (.lclone h)).shared = w.shared := by
  simp [CW.step, hl]

/-! ### histograms -/

/-- **shared_eq_direct_plus_flushed (histogram)** — over any history: shared sample count +
    observations pending in live local handles + observations discarded by `clear`
    = all observations. In particular a dropped handle's observations are in the shared histogram. -/
theorem histogram_conservation (add) (bounds : List UInt64) (ops : List HOp) :
    HInv (ops.foldl (HW.step add) { shared := Hist.new bounds, locals := [] }) := by
  suffices H : ∀ w, HInv w → HInv (ops.foldl (HW.step add) w) from
    H _ (by simp [HInv, Hist.new, pendingCount])
  induction ops with
  | nil => intro w h; exact h
  | cons op r ih => intro w h; exact ih _ (hstep_inv add w op h)

/-- **drop_flushes_histogram** — dropping a local histogram leaves the shared histogram exactly as a
    flush would -/
theorem drop_flushes_histogram (add) (w : HW) (h : Nat) :
    (w.step add (.ldrop h)).shared = (w.step add (.lflush h)).shared := by
  simp only [HW.step]
  cases hl : w.locals[h]? with
  | none => rfl
  | some o => cases o <;> rfl

/-- **flush_idempotent (histogram)** -/
theorem hist_flush_idempotent (add) (w : HW) (h : Nat) :
    ((w.step add (.lflush h)).step add (.lflush h)).shared = (w.step add (.lflush h)).shared := by
  simp only [HW.step]
  cases hl : w.locals[h]? with
  | none => simp [hl]
  | some o =>
    cases o with
    | none => simp [hl]
    | some l =>
      simp only []
      have hlt : h < w.locals.length := by
        rcases Nat.lt_or_ge h w.locals.length with h' | h'
        · exact h'
        · rw [List.getElem?_eq_none_iff.2 h'] at hl; cases hl
      simp [hlt, Hist.absorb, LH.empty]

/-- **clone_empty (histogram)** — `Clone` clears the copy -/
theorem hist_clone_empty (add) (w : HW) (h : Nat) (l : LH) (hl : w.locals[h]? = some (some l)) :
    (w.step add (.lclone h)).locals = w.locals ++ [some (LH.empty w.shared.bounds.length)] ∧
    (w.step add (.lclone h)).shared = w.shared := by
  simp [HW.step, hl]

/-- per bucket: a flush adds the local bucket counts position-wise -/
theorem absorb_counts (add) (h : Hist) (l : LH) (hc : l.count ≠ 0) :
    (h.absorb add l).counts = addCounts h.counts l.counts ∧ (h.absorb add l).sum = add h.sum l.sum := by
  unfold Hist.absorb
  have : (l.count == 0) = false := by simpa using hc
  simp [this]

/-! ### local vectors -/

/-- **drop_flushes_histogram (vector)** — dropping a local histogram vector delivers every cached
    local's pending observations to its child, as a flush would -/
theorem vec_drop_flushes (w : VW) (h : Nat) (hf : w.flushOnDrop = true) :
    (w.ldrop h).v = (w.lflush h).v := by
  unfold VW.ldrop VW.lflush
  cases hl : w.locals[h]? with
  | none => rfl
  | some o => cases o <;> simp [hf]

theorem vec_clone_empty (w : VW) (h : Nat) (lv : LVec) (hl : w.locals[h]? = some (some lv)) :
    (w.lclone h).locals = w.locals ++ [some ({} : LVec)] ∧ (w.lclone h).v = w.v := by
  simp [VW.lclone, hl]

/-! #### local vectors: whole histories

`VOpL`/`VW.step` (Prom/Lemmas/C12Vec.lean) run any list of operations over any number of local
handles of one shared vector: `lwith h vals d` (`local.with_label_values(vals)` + update by `d`),
`lflush`, `lremove`, `lclone`, `ldrop`, `lnew`, and the direct operations on the shared vector
`swith vals d`, `sremove vals`, `sreset`.  Ghost quantities are functions of the history:
`totalIn` sums the amounts `d` of all *accepted* updates (an `lwith` on a dropped/unknown handle, or
one that panics on a wrong cardinality / child build error, changes nothing and is not counted),
`totalDiscarded` sums what was deliberately thrown away (counter flavour only: the pending amount of
a dropped local, and of the cached entry removed by `lremove`).

What is conserved is the value of all children EVER created (`MVec.store`), not of the children
currently attached (`MVec.collect`): `remove`/`reset` detach a child but handles and caches keep
updating it, see `vec_collect_not_conserved`. -/

/-- every reachable state is well-formed (ids denote stored children, cache keys are distinct) -/
theorem vec_wf (names consts bf fod) (ops : List VOpL) :
    VWf (ops.foldl VW.step (VW.fresh names consts bf fod)) :=
  run_wf _ (fresh_wf ..) ops

/-- **shared_eq_direct_plus_flushed (vector), general form** — from any well-formed state, for any
    selection `sel` of child ids, over any history and any number of handles:
    value held by the selected children ever created + amounts pending for them in live local caches
    + amounts discarded = the same before the history + the accepted updates booked on them. -/
theorem vec_conservation_from (sel : Nat → Bool) (w : VW) (hw : VWf w) (ops : List VOpL) :
    (ops.foldl VW.step w).held sel + w.totalDiscarded sel ops = w.held sel + w.totalIn sel ops :=
  run_conserve sel w hw ops

/-- **shared_eq_direct_plus_flushed (vector)** — over any history on a new vector with any number of
    local handles: total value of all children ever created (direct updates + flushed batches)
    + everything still pending in live local caches + everything deliberately discarded
    = the sum of all amounts passed to accepted `lwith`/`swith`.  Nothing is lost or counted twice. -/
theorem vec_conservation (names consts bf fod) (ops : List VOpL) :
    (ops.foldl VW.step (VW.fresh names consts bf fod)).v.storeTotal
      + pendingTotal (ops.foldl VW.step (VW.fresh names consts bf fod)).locals
      + (VW.fresh names consts bf fod).totalDiscarded (fun _ => true) ops
    = (VW.fresh names consts bf fod).totalIn (fun _ => true) ops := by
  have h := run_conserve (fun _ => true) _ (fresh_wf names consts bf fod) ops
  rw [held_all, fresh_held] at h
  omega

/-- **per child** — the same account for every single child id: its value + what is pending for it
    in live caches + what was discarded of it = the accepted updates booked on it (`lwith` books on
    the cached child of the key if there is one, else on the child `get_or_create` returns). -/
theorem vec_conservation_child (names consts bf fod) (ops : List VOpL) (id : Nat) :
    (ops.foldl VW.step (VW.fresh names consts bf fod)).v.valOf id
      + localsHeld (fun i => i == id) (ops.foldl VW.step (VW.fresh names consts bf fod)).locals
      + (VW.fresh names consts bf fod).totalDiscarded (fun i => i == id) ops
    = (VW.fresh names consts bf fod).totalIn (fun i => i == id) ops := by
  have h := run_conserve (fun i => i == id) _ (fresh_wf names consts bf fod) ops
  rw [held_single, fresh_held] at h
  omega

/-- **histogram flavour loses nothing** — with `flushOnDrop` nothing is ever discarded: the children
    ever created plus the live caches hold exactly what was put in; in particular everything a
    dropped or removed local had accumulated is in the shared vector. -/
theorem vec_conservation_histogram (names consts bf) (ops : List VOpL) :
    (ops.foldl VW.step (VW.fresh names consts bf true)).v.storeTotal
      + pendingTotal (ops.foldl VW.step (VW.fresh names consts bf true)).locals
    = (VW.fresh names consts bf true).totalIn (fun _ => true) ops := by
  have h := vec_conservation names consts bf true ops
  rw [totalDiscarded_flush _ _ rfl] at h
  omega

/-- **flush_exact (vector)** — a flush adds to every child exactly what the handle has pending for
    it (accumulated since its previous flush), leaves the handle with nothing pending, and keeps the
    cached keys and child ids. -/
theorem vec_flush_exact (w : VW) (hw : VWf w) (h : Nat) (lv : LVec) (hl : w.locals[h]? = some (some lv)) :
    (∀ id, (w.lflush h).v.valOf id = w.v.valOf id + cacheHeld (fun i => i == id) lv.cache) ∧
    (w.lflush h).v.storeTotal = w.v.storeTotal + optPending (some lv) ∧
    (w.lflush h).locals[h]? = some (some ⟨lv.cache.map fun e => (e.1, e.2.1, 0)⟩) ∧
    optPending ((w.lflush h).locals[h]?.getD none) = 0 := by
  have hok := hw.2 lv (List.mem_of_getElem? hl)
  have hlt := lt_of_getElem? hl
  have e : w.lflush h =
      { w with v := flushCache w.v lv.cache,
               locals := w.locals.set h (some ⟨lv.cache.map fun e => (e.1, e.2.1, 0)⟩) } := by
    simp only [VW.lflush, hl]
  rw [e]
  refine ⟨?_, ?_, ?_, ?_⟩
  · intro id
    have := flushCache_held (fun i => i == id) w.v lv.cache hok.2
    rw [storeHeld_single, storeHeld_single] at this
    exact this
  · have := flushCache_held (fun _ => true) w.v lv.cache hok.2
    rw [storeHeld_all, storeHeld_all, cacheHeld_all] at this
    exact this
  · simp [hlt]
  · have := cacheHeld_zeroed (fun _ => true) lv.cache
    rw [cacheHeld_all, List.map_map] at this
    simp [hlt, optPending, this]

/-- **flush_idempotent (vector)** — a second flush changes nothing at all -/
theorem vec_flush_idempotent (w : VW) (h : Nat) : (w.lflush h).lflush h = w.lflush h := by
  cases hl : w.locals[h]? with
  | none =>
    have e : w.lflush h = w := by simp only [VW.lflush, hl]
    rw [e, e]
  | some o =>
    cases o with
    | none =>
      have e : w.lflush h = w := by simp only [VW.lflush, hl]
      rw [e, e]
    | some lv =>
      have hlt := lt_of_getElem? hl
      have e : w.lflush h =
          { w with v := flushCache w.v lv.cache,
                   locals := w.locals.set h (some ⟨lv.cache.map fun e => (e.1, e.2.1, 0)⟩) } := by
        simp only [VW.lflush, hl]
      rw [e]
      have hl' : (w.locals.set h (some (⟨lv.cache.map fun e => (e.1, e.2.1, 0)⟩ : LVec)))[h]? =
          some (some ⟨lv.cache.map fun e => (e.1, e.2.1, 0)⟩) := by simp [hlt]
      simp only [VW.lflush, hl']
      rw [flushCache_zero, List.set_set, List.map_map]
      · rfl
      · intro e he
        obtain ⟨e0, _, rfl⟩ := List.mem_map.1 he
        rfl

/-- **drop discards (counter vector)** — dropping a local counter vector leaves the shared vector
    untouched: what it had pending is discarded (and accounted for in `totalDiscarded`) -/
theorem vec_drop_discards (w : VW) (h : Nat) (hf : w.flushOnDrop = false) :
    (w.ldrop h).v = w.v ∧
    ∀ lv, w.locals[h]? = some (some lv) → w.discards (fun _ => true) (.ldrop h) = optPending (some lv) := by
  constructor
  · unfold VW.ldrop
    cases hl : w.locals[h]? with
    | none => rfl
    | some o => cases o <;> simp [hf]
  · intro lv hl
    simp [VW.discards, hf, hl, optPending, cacheHeld_all]

/-- non-vacuity (counter flavour): two handles on one key; handle 1 removes the key (discarding its
    2), handle 0 keeps updating the detached child 0 through its cache, a direct update recreates the
    key as child 1; handle 1 is dropped with 4 pending; a dropped handle and a wrong cardinality put
    in nothing.  15 in = 8 + 1 in the children + 0 pending + 6 discarded; `collect` shows only 1. -/
example :
    let a : List Str := [[97]]
    let ops : List VOpL := [.lnew, .lwith 0 a 3, .lclone 0, .lwith 1 a 2, .lflush 0, .lremove 1 a,
      .lwith 0 a 5, .swith a 1, .lflush 0, .lwith 1 a 4, .ldrop 1, .lwith 1 a 9, .lwith 0 [] 9]
    let w0 := VW.fresh [[108]] [] false false
    let w := ops.foldl VW.step w0
    w.v.store.map (·.val) = [8, 1] ∧ pendingTotal w.locals = 0 ∧
    w0.totalIn (fun _ => true) ops = 15 ∧ w0.totalDiscarded (fun _ => true) ops = 6 ∧
    w.v.collect.map (·.val) = [1] := by decide +kernel

/-- the same history in histogram flavour: nothing discarded, 15 = 10 + 5 -/
example :
    let a : List Str := [[97]]
    let ops : List VOpL := [.lnew, .lwith 0 a 3, .lclone 0, .lwith 1 a 2, .lflush 0, .lremove 1 a,
      .lwith 0 a 5, .swith a 1, .lflush 0, .lwith 1 a 4, .ldrop 1, .lwith 1 a 9, .lwith 0 [] 9]
    let w0 := VW.fresh [[108]] [] false true
    let w := ops.foldl VW.step w0
    w.v.store.map (·.val) = [10, 5] ∧ pendingTotal w.locals = 0 ∧
    w0.totalIn (fun _ => true) ops = 15 ∧ w0.totalDiscarded (fun _ => true) ops = 0 := by decide +kernel

/-- **why "children ever created"** — the statement with the *collected* (attached) children instead
    is false: handle 0 accumulates 3 for a key, handle 1 removes the key, handle 0 flushes into the
    detached child.  Nothing is pending, nothing was discarded, 3 went in, `collect` is empty. -/
theorem vec_collect_not_conserved :
    let a : List Str := [[97]]
    let ops : List VOpL := [.lnew, .lnew, .lwith 0 a 3, .lremove 1 a, .lflush 0]
    let w0 := VW.fresh [[108]] [] false false
    let w := ops.foldl VW.step w0
    (w.v.collect.map (·.val)).sum = 0 ∧ pendingTotal w.locals = 0 ∧
    w0.totalDiscarded (fun _ => true) ops = 0 ∧ w0.totalIn (fun _ => true) ops = 3 ∧
    w.v.storeTotal = 3 := by decide +kernel

/-- **why well-formedness** — `MVec.bump` on an id that denotes no stored child does nothing, so from
    an ill-formed state (a cache entry with a dangling child id) a flush loses the pending amount. -/
theorem vec_illformed_loses :
    let w : VW := { v := { names := [], consts := [], buildFails := false, children := [], store := [] },
                    locals := [some ⟨[(0, 5, 7)]⟩], flushOnDrop := false }
    w.held (fun _ => true) = 7 ∧ (w.step (.lflush 0)).held (fun _ => true) = 0 ∧
    w.totalDiscarded (fun _ => true) [.lflush 0] = 0 := by decide +kernel

/-- non-vacuity: a history with two handles, a clone, a reset, flushes -/
example : (([.lnew, .linc 0 3, .lclone 0, .linc 1 2, .lflush 0, .lflush 0, .lreset 1, .sinc 4, .lflush 1] : List COp).foldl CW.step {})
    = { shared := 7, locals := [0, 0], totalIn := 9, discarded := 2 } := by decide

end Prom.C12
