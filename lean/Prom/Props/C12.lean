import Prom.Lemmas.C12Aux

namespace Prom.C12
open Prom
/-! ### counters -/

/-- **shared_eq_direct_plus_flushed (counter)** — over any history and any number of handles:
    shared value + everything still pending locally + everything deliberately discarded
    = everything that was ever added. Nothing is lost or counted twice. -/
theorem counter_conservation (ops : List COp) : CInv (ops.foldl CW.step {}) := by
  suffices H : ∀ w, CInv w → CInv (ops.foldl CW.step w) from H {} (by simp [CInv])
  induction ops with
  | nil => intro w h; exact h
  | cons op r ih => intro w h; exact ih _ (cstep_inv w op h)

/-- a flush adds to the shared counter exactly what the handle accumulated since its previous
    flush or reset, and leaves the handle empty -/
theorem flush_exact (w : CW) (h p : Nat) (hl : w.locals[h]? = some p) :
    (w.step (.lflush h)).shared = w.shared + p ∧ (w.step (.lflush h)).locals[h]? = some 0 := by
  simp only [CW.step, hl]
  by_cases hp : (p == 0) = true
  · have : p = 0 := by simpa using hp
    subst this
    simp [hl]
  · simp only [hp]
    have hlt : h < w.locals.length := by
      rcases Nat.lt_or_ge h w.locals.length with h' | h'
      · exact h'
      · rw [List.getElem?_eq_none_iff.2 h'] at hl; cases hl
    simp [hlt]

/-- **flush_idempotent** — a second flush adds nothing -/
theorem flush_idempotent (w : CW) (h : Nat) :
    (w.step (.lflush h)).step (.lflush h) = w.step (.lflush h) := by
  cases hl : w.locals[h]? with
  | none => simp [CW.step, hl]
  | some p =>
    by_cases hp : p = 0
    · subst hp; simp [CW.step, hl]
    · have hlt : h < w.locals.length := by
        rcases Nat.lt_or_ge h w.locals.length with h' | h'
        · exact h'
        · rw [List.getElem?_eq_none_iff.2 h'] at hl; cases hl
      have hstep : w.step (.lflush h) = { w with shared := w.shared + p, locals := w.locals.set h 0 } := by
        simp [CW.step, hl, hp]
      rw [hstep]
      simp [CW.step, hlt]

/-- **reset_discards_only_local** — reset touches neither the shared counter nor other handles -/
theorem reset_discards_only_local (w : CW) (h : Nat) :
    (w.step (.lreset h)).shared = w.shared ∧
    ∀ j, j ≠ h → (w.step (.lreset h)).locals[j]? = w.locals[j]? := by
  simp only [CW.step]
  cases hl : w.locals[h]? with
  | none => simp
  | some p =>
    refine ⟨rfl, ?_⟩
    intro j hj
    simp [List.getElem?_set, Ne.symm hj]

/-- **clone_empty** — a clone starts with nothing pending and takes nothing from the original -/
theorem clone_empty (w : CW) (h p : Nat) (hl : w.locals[h]? = some p) :
    (w.step (.lclone h)).locals = w.locals ++ [0] ∧ (w.step (.lclone h)).shared = w.shared := by
  simp [CW.step, hl]

/-! ### histograms -/

/-- **shared_eq_direct_plus_flushed (histogram)** — over any history: shared sample count +
    observations pending in live local handles + observations discarded by `clear`
    = all observations. In particular a dropped handle's observations are in the shared histogram. -/
theorem histogram_conservation (add) (bounds : List UInt64) (ops : List HOp) :
    HInv (ops.foldl (HW.step add) { shared := Hist.new bounds, locals := [] }) := by
  suffices H : ∀ w, HInv w → HInv (ops.foldl (HW.step add) w) from
    H _ (by simp [HInv, Hist.new, pendingCount])
  induction ops with
  | nil => intro w h; exact h
  | cons op r ih => intro w h; exact ih _ (hstep_inv add w op h)

/-- **drop_flushes_histogram** — dropping a local histogram leaves the shared histogram exactly as a
    flush would -/
theorem drop_flushes_histogram (add) (w : HW) (h : Nat) :
    (w.step add (.ldrop h)).shared = (w.step add (.lflush h)).shared := by
  simp only [HW.step]
  cases hl : w.locals[h]? with
  | none => rfl
  | some o => cases o <;> rfl

/-- **flush_idempotent (histogram)** -/
theorem hist_flush_idempotent (add) (w : HW) (h : Nat) :
    ((w.step add (.lflush h)).step add (.lflush h)).shared = (w.step add (.lflush h)).shared := by
  simp only [HW.step]
  cases hl : w.locals[h]? with
  | none => simp [hl]
  | some o =>
    cases o with
    | none => simp [hl]
    | some l =>
      simp only []
      have hlt : h < w.locals.length := by
        rcases Nat.lt_or_ge h w.locals.length with h' | h'
        · exact h'
        · rw [List.getElem?_eq_none_iff.2 h'] at hl; cases hl
      simp [hlt, Hist.absorb, LH.empty]

/-- **clone_empty (histogram)** — `Clone` clears the copy -/
theorem hist_clone_empty (add) (w : HW) (h : Nat) (l : LH) (hl : w.locals[h]? = some (some l)) :
    (w.step add (.lclone h)).locals = w.locals ++ [some (LH.empty w.shared.bounds.length)] ∧
    (w.step add (.lclone h)).shared = w.shared := by
  simp [HW.step, hl]

/-- per bucket: a flush adds the local bucket counts position-wise -/
theorem absorb_counts (add) (h : Hist) (l : LH) (hc : l.count ≠ 0) :
    (h.absorb add l).counts = addCounts h.counts l.counts ∧ (h.absorb add l).sum = add h.sum l.sum := by
  unfold Hist.absorb
  have : (l.count == 0) = false := by simpa using hc
  simp [this]

/-! ### local vectors -/

/-- **drop_flushes_histogram (vector)** — dropping a local histogram vector delivers every cached
    local's pending observations to its child, as a flush would -/
theorem vec_drop_flushes (w : VW) (h : Nat) (hf : w.flushOnDrop = true) :
    (w.ldrop h).v = (w.lflush h).v := by
  unfold VW.ldrop VW.lflush
  cases hl : w.locals[h]? with
  | none => rfl
  | some o => cases o <;> simp [hf]

theorem vec_clone_empty (w : VW) (h : Nat) (lv : LVec) (hl : w.locals[h]? = some (some lv)) :
    (w.lclone h).locals = w.locals ++ [some ({} : LVec)] ∧ (w.lclone h).v = w.v := by
  simp [VW.lclone, hl]

/-- non-vacuity: a history with two handles, a clone, a reset, flushes -/
example : (([.lnew, .linc 0 3, .lclone 0, .linc 1 2, .lflush 0, .lflush 0, .lreset 1, .sinc 4, .lflush 1] : List COp).foldl CW.step {})
    = { shared := 7, locals := [0, 0], totalIn := 9, discarded := 2 } := by decide

end Prom.C12
