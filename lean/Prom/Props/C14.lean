import Prom.Lemmas.C14Aux

namespace Prom.C14
open Prom
/-- **homogeneous_partial** — if the collectors registered under each name are of one kind, every
    sample of every gathered family carries a value of the family's declared type (so the encoders
    print each sample's real value), for every iteration order of the collectors. -/
theorem homogeneous_partial (pref : Option Str) (labels : Option (List (Str × Str)))
    (collected : List Family) (hh : Homogeneous collected) :
    ∀ f ∈ gatherFams pref labels collected, ∀ s ∈ f.samples, s.val.kind = f.ty := by
  intro f hf s hs
  obtain ⟨g, hg, _, _, hty, ss, hperm, hsamp⟩ := C07.gather_family_samples pref labels collected f hf
  have hinv := merged_inv_aux collected hh collected [] (fun _ h => h) (by intro g hg; cases hg)
  have hg' : g ∈ collected.foldl (fun acc f => if f.samples.isEmpty then acc else famInsert f acc) [] := hg
  obtain ⟨h1, _⟩ := hinv g hg'
  rw [hsamp] at hs
  obtain ⟨s0, hs0, rfl⟩ := List.mem_map.1 hs
  rw [hty]
  exact h1 s0 (hperm.subset hs0)

/-- the declared type of a family is the type of the collectors under that name — not of whichever
    came first -/
theorem type_is_the_collectors_type (pref : Option Str) (labels : Option (List (Str × Str)))
    (collected : List Family) (hh : Homogeneous collected) :
    ∀ f ∈ gatherFams pref labels collected, ∃ g ∈ C07.merged collected, f.name = applyPrefix pref g.name ∧
      f.ty = g.ty ∧ ∀ c ∈ collected, c.samples ≠ [] → c.name = g.name → c.ty = f.ty := by
  intro f hf
  obtain ⟨g, hg, hn, _, hty, _⟩ := C07.gather_family_samples pref labels collected f hf
  have hinv := merged_inv_aux collected hh collected [] (fun _ h => h) (by intro g hg; cases hg)
  have hg' : g ∈ collected.foldl (fun acc f => if f.samples.isEmpty then acc else famInsert f acc) [] := hg
  obtain ⟨_, h2⟩ := hinv g hg'
  exact ⟨g, hg, hn, hty, fun c hc hne hcn => by rw [hty]; exact h2 c hc hne hcn⟩

/-! ### the full statement is false (known finding K2) -/

def cnt : Family := ⟨strOfString "m", strOfString "h", .counter, [⟨[⟨strOfString "k", strOfString "1"⟩], .counter 0x3FF0000000000000, 0⟩]⟩
def gau : Family := ⟨strOfString "m", strOfString "h", .gauge, [⟨[⟨strOfString "k", strOfString "2"⟩], .gauge 0x4000000000000000, 0⟩]⟩

/-- **C14_full_false** — a counter m{k="1"} = 1 and a gauge m{k="2"} = 2 under one name: the declared
    type of the gathered family depends on the iteration order, and in the gauge-typed result the
    counter sample reads as 0 through the family's type. -/
theorem C14_full_false :
    ((gatherFams none none [cnt, gau]).map (·.ty)) = [.counter] ∧
    ((gatherFams none none [gau, cnt]).map (·.ty)) = [.gauge] ∧
    ((gatherFams none none [gau, cnt]).flatMap fun f => f.samples.map (·.gaugeVal)) = [0, 0x4000000000000000] := by
  decide +kernel

/-- non-vacuity of `homogeneous_partial`: two same-kind collectors under one name -/
example : Homogeneous [C07.fA, C07.fB, C07.fC] := by
  constructor
  · intro f hf s hs
    simp only [List.mem_cons, List.not_mem_nil, or_false] at hf
    rcases hf with rfl | rfl | rfl <;> simp [C07.fA, C07.fB, C07.fC] at hs <;> subst hs <;> rfl
  · intro f hf g hg _ _ hn
    simp only [List.mem_cons, List.not_mem_nil, or_false] at hf hg
    rcases hf with rfl | rfl | rfl <;> rcases hg with rfl | rfl | rfl <;>
      first | rfl | (exfalso; revert hn; decide +kernel)

end Prom.C14
