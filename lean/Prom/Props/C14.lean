import Prom.Lemmas.C14Aux

namespace Prom.C14
open Prom
/-- **homogeneous_partial** — if the collectors registered under each name are of one kind, every
    sample of every gathered family carries a value of the family's declared type (so the encoders
    print each sample's real value), for every iteration order of the collectors. -/
theorem homogeneous_partial (pref : Option Str) (labels : Option (List (Str × Str)))
    (collected : List Family) (hh : Homogeneous collected) :
    ∀ f ∈ gatherFams pref labels collected, ∀ s ∈ f.samples, s.val.kind = f.ty := by
  intro f hf s hs
  obtain ⟨g, hg, _, _, hty, ss, hperm, hsamp⟩ := C07.gather_family_samples pref labels collected f hf
  have hinv := merged_inv_aux collected hh collected [] (fun _ h => h) (by intro g hg; cases hg)
  have hg' : g ∈ collected.foldl (fun acc f => if f.samples.isEmpty then acc else famInsert f acc) [] := hg
  obtain ⟨h1, _⟩ := hinv g hg'
  rw [hsamp] at hs
  obtain ⟨s0, hs0, rfl⟩ := List.mem_map.1 hs
  rw [hty]
  exact h1 s0 (hperm.subset hs0)

/-- the declared type of a family is the type of the collectors under that name — not of whichever
    came first -/
theorem type_is_the_collectors_type (pref : Option Str) (labels : Option (List (Str × Str)))
    (collected : List Family) (hh : Homogeneous collected) :
    ∀ f ∈ gatherFams pref labels collected, ∃ g ∈ C07.merged collected, f.name = applyPrefix pref g.name ∧
      f.ty = g.ty ∧ ∀ c ∈ collected, c.samples ≠ [] → c.name = g.name → c.ty = f.ty := by
  intro f hf
  obtain ⟨g, hg, hn, _, hty, _⟩ := C07.gather_family_samples pref labels collected f hf
  have hinv := merged_inv_aux collected hh collected [] (fun _ h => h) (by intro g hg; cases hg)
  have hg' : g ∈ collected.foldl (fun acc f => if f.samples.isEmpty then acc else famInsert f acc) [] := hg
  obtain ⟨_, h2⟩ := hinv g hg'
  exact ⟨g, hg, hn, hty, fun c hc hne hcn => by rw [hty]; exact h2 c hc hne hcn⟩

/-! ### families without samples do not matter -/

/-- **empty_families_invisible** — `gather` drops the families a collector returns without samples
    before merging, so they cannot influence anything (in particular not the declared type of a
    family): gathering is gathering the families that have a sample. -/
theorem empty_families_invisible (pref : Option Str) (labels : Option (List (Str × Str))) (collected : List Family) :
    gatherFams pref labels collected =
      gatherFams pref labels (collected.filter fun f => !f.samples.isEmpty) := by
  show List.map _ (C07.merged collected) = List.map _ (C07.merged (collected.filter fun f => !f.samples.isEmpty))
  rw [← merged_filter_nonempty]

/-- **homogeneous_nonempty** — if under every name all collected families THAT HAVE A SAMPLE are of one
    type `ty name` (families without samples may have any type), then for every iteration order
    `collected'` of the collectors every gathered family is the family of a name `n` under which a
    collected family with samples exists, its declared type is `ty n`, and each of its samples is a
    sample (with the common labels appended) of a collected family of that name and of that type. -/
theorem homogeneous_nonempty (pref : Option Str) (labels : Option (List (Str × Str)))
    (collected collected' : List Family) (hp : collected.Perm collected')
    (ty : Str → MType) (hh : ∀ c ∈ collected, c.samples ≠ [] → c.ty = ty c.name) :
    ∀ f ∈ gatherFams pref labels collected', ∃ n, f.name = applyPrefix pref n ∧ f.ty = ty n ∧
      (∃ c ∈ collected, c.samples ≠ [] ∧ c.name = n) ∧
      ∀ s ∈ f.samples, ∃ c ∈ collected, c.name = n ∧ c.ty = ty n ∧
        ∃ s0 ∈ c.samples, s = { s0 with labels := s0.labels ++ commonPairs labels } := by
  intro f hf
  have hh' : NonemptyTyped ty collected' := NonemptyTyped.perm hp hh
  obtain ⟨g, hg, hn, _, hty, ss, hperm, hsamp⟩ := C07.gather_family_samples pref labels collected' f hf
  refine ⟨g.name, hn, by rw [hty]; exact merged_ty hh' g hg, ?_, ?_⟩
  · obtain ⟨c0, hc0, hne, hn0, _, _⟩ := C07.merged_attrs collected' g hg
    exact ⟨c0, hp.mem_iff.2 hc0, hne, hn0⟩
  · intro s hs
    rw [hsamp] at hs
    obtain ⟨s0, hs0, rfl⟩ := List.mem_map.1 hs
    obtain ⟨c, hc, hcn, hsc⟩ := C09.merged_sample_origin collected' g hg s0 (hperm.subset hs0)
    have hne : c.samples ≠ [] := fun e => by rw [e] at hsc; cases hsc
    exact ⟨c, hp.mem_iff.2 hc, hcn, by rw [hh' c hc hne, hcn], s0, hsc, rfl⟩

/-- `homogeneous_nonempty` with the pairwise hypothesis (two collected families with samples and the
    same name have the same type): the declared type of a gathered family is the type of EVERY
    collected family with samples under its name, whatever the order. -/
theorem homogeneous_nonempty_pairwise (pref : Option Str) (labels : Option (List (Str × Str)))
    (collected collected' : List Family) (hp : collected.Perm collected') (hh : NonemptySameType collected) :
    ∀ f ∈ gatherFams pref labels collected', ∃ n, f.name = applyPrefix pref n ∧
      (∃ c ∈ collected, c.samples ≠ [] ∧ c.name = n) ∧
      (∀ c ∈ collected, c.samples ≠ [] → c.name = n → c.ty = f.ty) ∧
      ∀ s ∈ f.samples, ∃ c ∈ collected, c.name = n ∧ c.ty = f.ty ∧
        ∃ s0 ∈ c.samples, s = { s0 with labels := s0.labels ++ commonPairs labels } := by
  obtain ⟨ty, hty⟩ := (nonemptySameType_iff collected).1 hh
  intro f hf
  obtain ⟨n, h1, h2, h3, h4⟩ := homogeneous_nonempty pref labels collected collected' hp ty hty f hf
  refine ⟨n, h1, h3, ?_, ?_⟩
  · intro c hc hne hcn
    rw [h2, hty c hc hne, hcn]
  · intro s hs
    obtain ⟨c, hc, hcn, hct, hrest⟩ := h4 s hs
    exact ⟨c, hc, hcn, by rw [h2]; exact hct, hrest⟩

/-- the value part of C14 under the weakest hypothesis: when every collected sample carries a value of
    its own family's type and the families with samples under one name have one type, every gathered
    sample carries a value of the gathered family's declared type - whatever types the sample-less
    families declare, for every order. (`homogeneous_partial` is the case `collected' = collected`.) -/
theorem homogeneous_nonempty_values (pref : Option Str) (labels : Option (List (Str × Str)))
    (collected collected' : List Family) (hp : collected.Perm collected')
    (hv : ∀ c ∈ collected, ∀ s ∈ c.samples, s.val.kind = c.ty) (hh : NonemptySameType collected) :
    ∀ f ∈ gatherFams pref labels collected', ∀ s ∈ f.samples, s.val.kind = f.ty := by
  intro f hf s hs
  obtain ⟨n, _, _, _, h4⟩ := homogeneous_nonempty_pairwise pref labels collected collected' hp hh f hf
  obtain ⟨c, hc, _, hct, s0, hs0, rfl⟩ := h4 s hs
  rw [← hct]
  exact hv c hc s0 hs0

/-- **declared_type_order_free** — under the same hypothesis the (name, declared type) list of the
    gathered families does not depend on the order in which the collectors are visited (registration
    order, hash seed), and not on the sample-less families at all. -/
theorem declared_type_order_free (pref : Option Str) (labels : Option (List (Str × Str)))
    (collected collected' : List Family) (hp : collected.Perm collected') (hh : NonemptySameType collected) :
    (gatherFams pref labels collected).map (fun f => (f.name, f.ty)) =
      (gatherFams pref labels collected').map (fun f => (f.name, f.ty)) := by
  obtain ⟨ty, hty⟩ := (nonemptySameType_iff collected).1 hh
  have hty' : NonemptyTyped ty collected' := NonemptyTyped.perm hp hty
  have hnames : (C07.merged collected).map (·.name) = (C07.merged collected').map (·.name) := by
    apply C07.strict_sorted_ext _ _ (C07.merged_names_strict collected) (C07.merged_names_strict collected')
    intro x
    rw [C07.merged_names_iff, C07.merged_names_iff]
    constructor
    · rintro ⟨f, hf, h1, h2⟩; exact ⟨f, hp.mem_iff.1 hf, h1, h2⟩
    · rintro ⟨f, hf, h1, h2⟩; exact ⟨f, hp.mem_iff.2 hf, h1, h2⟩
  have hm := C07.map_eq_of_names (fun g : Family => (applyPrefix pref g.name, g.ty)) _ _ hnames
    (fun g hg g' hg' hn => by
      show (applyPrefix pref g.name, g.ty) = (applyPrefix pref g'.name, g'.ty)
      rw [merged_ty hty g hg, merged_ty hty' g' hg', hn])
  show List.map _ (List.map _ (C07.merged collected)) = List.map _ (List.map _ (C07.merged collected'))
  rw [List.map_map, List.map_map]
  exact hm

/-- non-vacuity: a sample-less GAUGE family under the name of the counters `fA`, `fB` breaks the
    hypothesis of nothing here (`NonemptySameType` holds), and `gather` is as without it. -/
def emptyGauge : Family := ⟨C07.fA.name, C07.fA.help, .gauge, []⟩
example : gatherFams none none [emptyGauge, C07.fA, C07.fB, C07.fC] = gatherFams none none [C07.fA, C07.fB, C07.fC] ∧
    gatherFams none none [C07.fA, emptyGauge, C07.fB, C07.fC] = gatherFams none none [C07.fA, C07.fB, C07.fC] := by
  decide +kernel

example : NonemptySameType [emptyGauge, C07.fA, C07.fB, C07.fC] := by
  intro f hf g hg hnf hng hn
  simp only [List.mem_cons, List.not_mem_nil, or_false] at hf hg
  rcases hf with rfl | rfl | rfl | rfl <;> rcases hg with rfl | rfl | rfl | rfl <;>
    first | rfl | (exfalso; exact hnf rfl) | (exfalso; exact hng rfl) | (exfalso; revert hn; decide +kernel)

/-! ### the full statement is false (known finding K2) -/

def cnt : Family := ⟨strOfString "m", strOfString "h", .counter, [⟨[⟨strOfString "k", strOfString "1"⟩], .counter 0x3FF0000000000000, 0⟩]⟩
def gau : Family := ⟨strOfString "m", strOfString "h", .gauge, [⟨[⟨strOfString "k", strOfString "2"⟩], .gauge 0x4000000000000000, 0⟩]⟩

/-- **C14_full_false** — a counter m{k="1"} = 1 and a gauge m{k="2"} = 2 under one name: the declared
    type of the gathered family depends on the iteration order, and in the gauge-typed result the
    counter sample reads as 0 through the family's type. -/
theorem C14_full_false :
    ((gatherFams none none [cnt, gau]).map (·.ty)) = [.counter] ∧
    ((gatherFams none none [gau, cnt]).map (·.ty)) = [.gauge] ∧
    ((gatherFams none none [gau, cnt]).flatMap fun f => f.samples.map (·.gaugeVal)) = [0, 0x4000000000000000] := by
  decide +kernel

/-- non-vacuity of `homogeneous_partial`: two same-kind collectors under one name -/
example : Homogeneous [C07.fA, C07.fB, C07.fC] := by
  constructor
  · intro f hf s hs
    simp only [List.mem_cons, List.not_mem_nil, or_false] at hf
    rcases hf with rfl | rfl | rfl <;> simp [C07.fA, C07.fB, C07.fC] at hs <;> subst hs <;> rfl
  · intro f hf g hg _ _ hn
    simp only [List.mem_cons, List.not_mem_nil, or_false] at hf hg
    rcases hf with rfl | rfl | rfl <;> rcases hg with rfl | rfl | rfl <;>
      first | rfl | (exfalso; revert hn; decide +kernel)

end Prom.C14
