import Prom.Lemmas.C08Aux

namespace Prom.C08
open Prom
/-- **accept_iff** — a configuration is accepted exactly when (after defaulting) it is a
    strictly increasing list of numbers; the result is that list minus a trailing `+Inf`. -/
theorem accept_iff (defaults bs r : List UInt64) :
    checkAndAdjust defaults bs = some r ↔
      StrictIncr (effective defaults bs) ∧ r = dropTrailingInf (effective defaults bs) := by
  unfold checkAndAdjust effective
  simp only []
  generalize (if bs.isEmpty = true then defaults else bs) = e
  rw [← bucketsOk_iff]
  by_cases h : bucketsOk e = true
  · simp only [h, if_true, Option.some.injEq, true_and]; exact eq_comm
  · simp [h]

theorem reject_iff (defaults bs : List UInt64) :
    checkAndAdjust defaults bs = none ↔ ¬ StrictIncr (effective defaults bs) := by
  unfold checkAndAdjust effective
  simp only []
  rw [← bucketsOk_iff]
  by_cases h : bucketsOk (if bs.isEmpty then defaults else bs) = true <;> simp [h]

/-- an accepted configuration is stored as a strictly increasing list of numbers -/
theorem accepted_strictIncr {defaults bs r : List UInt64} (h : checkAndAdjust defaults bs = some r) :
    StrictIncr r := by
  obtain ⟨hs, rfl⟩ := (accept_iff _ _ _).1 h
  unfold dropTrailingInf
  cases hl : (effective defaults bs).getLast? with
  | none => simpa using hs
  | some t =>
    simp only []
    by_cases ht : f64IsPosInf t = true
    · simp only [ht, if_true]; exact dropLast_strictIncr hs
    · simp only [ht]; exact hs

/-- **first_match_cumulative** — for strictly increasing bounds and *any* observation
    sequence (NaN, infinities, zeros, bounds themselves …) the collected snapshot has
    count = number of observations, sum = left fold of `add` in observation order, and
    cumulative[i] = number of observations `v` with `v <= bound i`. -/
theorem first_match_cumulative (add : UInt64 → UInt64 → UInt64)
    (bounds obs : List UInt64) (hs : StrictIncr bounds) :
    let s := ((Hist.new bounds).observeAll add obs).snap
    s.count = obs.length ∧ s.sum = obs.foldl add f64Zero ∧ s.cum.length = bounds.length ∧
    ∀ (i : Nat) (b : UInt64), bounds[i]? = some b → s.cum[i]? = some (obs.countP fun v => f64Le v b) := by
  -- generalise over the starting state
  suffices H : ∀ (obs : List UInt64) (h : Hist), h.bounds = bounds → h.counts.length = bounds.length →
      let h' := h.observeAll add obs
      h'.bounds = bounds ∧ h'.counts.length = bounds.length ∧ h'.count = h.count + obs.length ∧
      h'.sum = obs.foldl add h.sum ∧
      ∀ (i : Nat) (b : UInt64), bounds[i]? = some b →
        (h'.counts.take (i + 1)).sum = (h.counts.take (i + 1)).sum + obs.countP fun v => f64Le v b by
    have := H obs (Hist.new bounds) rfl (by simp [Hist.new])
    simp only [] at this ⊢
    obtain ⟨hb, hl, hc, hsum, hcum⟩ := this
    refine ⟨by simpa [Hist.snap, Hist.new] using hc, by simpa [Hist.snap, Hist.new] using hsum,
      by simp [Hist.snap, cumulate_length, hl], ?_⟩
    intro i b hib
    have hi : i < bounds.length := by
      rcases Nat.lt_or_ge i bounds.length with h | h
      · exact h
      · rw [List.getElem?_eq_none_iff.2 h] at hib; cases hib
    simp only [Hist.snap, cumulate_getElem?, hl, hi, if_true, hcum i b hib]
    simp [Hist.new]
  intro obs
  induction obs with
  | nil => intro h hb hl; simp [Hist.observeAll, hb, hl]
  | cons v vs ih =>
    intro h hb hl
    have hl1 : (Hist.observe add h v).counts.length = bounds.length := by
      unfold Hist.observe
      cases findBucket h.bounds v <;> simp [bumpAt_length, hl]
    have := ih (Hist.observe add h v) (by simp [Hist.observe, hb]) hl1
    simp only [Hist.observeAll, List.foldl_cons] at this ⊢
    obtain ⟨h1, h2, h3, h4, h5⟩ := this
    have hc1 : (Hist.observe add h v).count = h.count + 1 := rfl
    have hs1 : (Hist.observe add h v).sum = add h.sum v := rfl
    refine ⟨h1, h2, by rw [h3, hc1, List.length_cons]; omega, by rw [h4, hs1], ?_⟩
    intro i b hib
    rw [h5 i b hib, List.countP_cons]
    have spec := findBucket_spec (bounds := h.bounds) (hb ▸ hs) v i b (hb ▸ hib)
    unfold Hist.observe
    cases hf : findBucket h.bounds v with
    | none =>
      rw [hf] at spec
      simp only [] at spec ⊢
      simp [spec]
    | some j =>
      rw [hf] at spec
      simp only [] at spec ⊢
      rw [bumpAt_take_sum _ _ _ _ (by rw [hl, ← hb]; exact spec.1)]
      by_cases hji : j ≤ i
      · have := spec.2.1 hji; simp [hji, this]; omega
      · have : f64Le v b = false := by
          cases hle : f64Le v b with
          | false => rfl
          | true => exact absurd (spec.2.2 hle) hji
        simp [hji, this]

/-- **nan_and_overflow_only_inf** — NaN and values above every bound fall in no explicit
    bucket: they are counted only by the sample count (the implicit `+Inf` bucket). -/
theorem nan_in_no_bucket (bounds : List UInt64) (v : UInt64) (hv : f64IsNaN v = true) :
    findBucket bounds v = none := by
  induction bounds with
  | nil => rfl
  | cons b r ih => simp [findBucket, f64Le_nan_left b hv, ih]

theorem above_all_in_no_bucket (bounds : List UInt64) (v : UInt64)
    (hv : ∀ b ∈ bounds, f64Le v b = false) : findBucket bounds v = none := by
  induction bounds with
  | nil => rfl
  | cons b r ih =>
    simp [findBucket, hv b (by simp), ih (fun x hx => hv x (by simp [hx]))]

theorem no_bucket_leaves_counts (add) (h : Hist) (v : UInt64) (hv : findBucket h.bounds v = none) :
    (h.observe add v).counts = h.counts ∧ (h.observe add v).count = h.count + 1 := by
  simp [Hist.observe, hv]

/-- the `+Inf` bucket the encoders print equals the sample count, whatever was observed -/
theorem inf_bucket_is_count (add) (bounds obs : List UInt64) (hs : StrictIncr bounds) :
    (((Hist.new bounds).observeAll add obs).snap).count = obs.length :=
  (first_match_cumulative add bounds obs hs).1

/-- non-vacuity: a non-trivial accepted configuration with a trailing +Inf, -Inf first,
    and a negative zero. -/
example : checkAndAdjust [] [f64NegInf, 0x8000000000000000, f64One, f64PosInf]
    = some [f64NegInf, 0x8000000000000000, f64One] := by decide
example : StrictIncr [f64NegInf, 0x8000000000000000, f64One] := by
  exact (bucketsOk_iff _).1 (by decide)
/-- NaN bounds, duplicates (incl. -0/+0) and descending lists are rejected -/
example : checkAndAdjust [] [f64One, 0x7FF8000000000000, 0x3FE0000000000000] = none := by decide
example : checkAndAdjust [] [0x7FF8000000000001] = none := by decide
example : checkAndAdjust [] [0x8000000000000000, 0] = none := by decide

end Prom.C08
