import Prom.Lemmas.C08Aux
import Prom.Lemmas.C08Local

namespace Prom.C08
open Prom
/-- **accept_iff** — a configuration is accepted exactly when (after defaulting) it is a
    strictly increasing list of numbers; the result is that list minus a trailing `+Inf`. -/
theorem accept_iff (defaults bs r : List UInt64) :
    checkAndAdjust defaults bs = some r ↔
      StrictIncr (effective defaults bs) ∧ r = dropTrailingInf (effective defaults bs) := by
  unfold checkAndAdjust effective
  simp only []
  generalize (if bs.isEmpty = true then defaults else bs) = e
  rw [← bucketsOk_iff]
  by_cases h : bucketsOk e = true
  · simp only [h, if_true, Option.some.injEq, true_and]; exact eq_comm
  · simp [h]

/-- a configuration is rejected exactly when (after defaulting) it is not a strictly increasing
    list of numbers -/
theorem reject_iff (defaults bs : List UInt64) :
    checkAndAdjust defaults bs = none ↔ ¬ StrictIncr (effective defaults bs) := by
  unfold checkAndAdjust effective
  simp only []
  rw [← bucketsOk_iff]
  by_cases h : bucketsOk (if bs.isEmpty then defaults else bs) = true <;> simp [h]

/-- an accepted configuration is stored as a strictly increasing list of numbers -/
theorem accepted_strictIncr {defaults bs r : List UInt64} (h : checkAndAdjust defaults bs = some r) :
    StrictIncr r := by
  obtain ⟨hs, rfl⟩ := (accept_iff _ _ _).1 h
  unfold dropTrailingInf
  cases hl : (effective defaults bs).getLast? with
  | none => simpa using hs
  | some t =>
    simp only []
    by_cases ht : f64IsPosInf t = true
    · simp only [ht, if_true]; exact dropLast_strictIncr hs
    · simp only [ht]; exact hs

/-- **first_match_cumulative** — for strictly increasing bounds and *any* observation
    sequence (NaN, infinities, zeros, bounds themselves …) the collected snapshot has
    count = number of observations, sum = left fold of `add` in observation order, and
    cumulative[i] = number of observations `v` with `v <= bound i`. -/
theorem first_match_cumulative (add : UInt64 → UInt64 → UInt64)
    (bounds obs : List UInt64) (hs : StrictIncr bounds) :
    let s := ((Hist.new bounds).observeAll add obs).snap
    s.count = obs.length ∧ s.sum = obs.foldl add f64Zero ∧ s.cum.length = bounds.length ∧
    ∀ (i : Nat) (b : UInt64), bounds[i]? = some b → s.cum[i]? = some (obs.countP fun v => f64Le v b) := by
  -- generalise over the starting state
  suffices H : ∀ (obs : List UInt64) (h : Hist), h.bounds = bounds → h.counts.length = bounds.length →
      let h' := h.observeAll add obs
      h'.bounds = bounds ∧ h'.counts.length = bounds.length ∧ h'.count = h.count + obs.length ∧
      h'.sum = obs.foldl add h.sum ∧
      ∀ (i : Nat) (b : UInt64), bounds[i]? = some b →
        (h'.counts.take (i + 1)).sum = (h.counts.take (i + 1)).sum + obs.countP fun v => f64Le v b by
    have := H obs (Hist.new bounds) rfl (by simp [Hist.new])
    simp only [] at this ⊢
    obtain ⟨hb, hl, hc, hsum, hcum⟩ := this
    refine ⟨by simpa [Hist.snap, Hist.new] using hc, by simpa [Hist.snap, Hist.new] using hsum,
      by simp [Hist.snap, cumulate_length, hl], ?_⟩
    intro i b hib
    have hi : i < bounds.length := by
      rcases Nat.lt_or_ge i bounds.length with h | h
      · exact h
      · rw [List.getElem?_eq_none_iff.2 h] at hib; cases hib
    simp only [Hist.snap, cumulate_getElem?, hl, hi, if_true, hcum i b hib]
    simp [Hist.new]
  intro obs
  induction obs with
  | nil => intro h hb hl; simp [Hist.observeAll, hb, hl]
  | cons v vs ih =>
    intro h hb hl
    have hl1 : (Hist.observe add h v).counts.length = bounds.length := by
      unfold Hist.observe
      cases findBucket h.bounds v <;> simp [bumpAt_length, hl]
    have := ih (Hist.observe add h v) (by simp [Hist.observe, hb]) hl1
    simp only [Hist.observeAll, List.foldl_cons] at this ⊢
    obtain ⟨h1, h2, h3, h4, h5⟩ := this
    have hc1 : (Hist.observe add h v).count = h.count + 1 := rfl
    have hs1 : (Hist.observe add h v).sum = add h.sum v := rfl
    refine ⟨h1, h2, by rw [h3, hc1, List.length_cons]; omega, by rw [h4, hs1], ?_⟩
    intro i b hib
    rw [h5 i b hib, List.countP_cons]
    have spec := findBucket_spec (bounds := h.bounds) (hb ▸ hs) v i b (hb ▸ hib)
    unfold Hist.observe
    cases hf : findBucket h.bounds v with
    | none =>
      rw [hf] at spec
      simp only [] at spec ⊢
      simp [spec]
    | some j =>
      rw [hf] at spec
      simp only [] at spec ⊢
      rw [bumpAt_take_sum _ _ _ _ (by rw [hl, ← hb]; exact spec.1)]
      by_cases hji : j ≤ i
      · have := spec.2.1 hji; simp [hji, this]; omega
      · have : f64Le v b = false := by
          cases hle : f64Le v b with
          | false => rfl
          | true => exact absurd (spec.2.2 hle) hji
        simp [hji, this]

/-- **nan_and_overflow_only_inf** — NaN and values above every bound fall in no explicit
    bucket: they are counted only by the sample count (the implicit `+Inf` bucket). -/
theorem nan_in_no_bucket (bounds : List UInt64) (v : UInt64) (hv : f64IsNaN v = true) :
    findBucket bounds v = none := by
  induction bounds with
  | nil => rfl
  | cons b r ih => simp [findBucket, f64Le_nan_left b hv, ih]

/-- a value above every bound falls in no explicit bucket -/
theorem above_all_in_no_bucket (bounds : List UInt64) (v : UInt64)
    (hv : ∀ b ∈ bounds, f64Le v b = false) : findBucket bounds v = none := by
  induction bounds with
  | nil => rfl
  | cons b r ih =>
    simp [findBucket, hv b (by simp), ih (fun x hx => hv x (by simp [hx]))]

/-- a value in no explicit bucket changes no bucket count, only the sample count -/
theorem no_bucket_leaves_counts (add) (h : Hist) (v : UInt64) (hv : findBucket h.bounds v = none) :
    (h.observe add v).counts = h.counts ∧ (h.observe add v).count = h.count + 1 := by
  simp [Hist.observe, hv]

/-- the `+Inf` bucket the encoders print equals the sample count, whatever was observed -/
theorem inf_bucket_is_count (add) (bounds obs : List UInt64) (hs : StrictIncr bounds) :
    (((Hist.new bounds).observeAll add obs).snap).count = obs.length :=
  (first_match_cumulative add bounds obs hs).1

/-! ### local histograms bucket by the same rule -/

/-- **local_same_rule** — a LOCAL histogram buckets values by the same rule. Observe `vs` on a
    fresh local histogram created for `h` (same bounds, all-zero buckets) and flush it into `h`;
    compare with observing `vs` directly on `h`. For EVERY `h` (no assumption on its bounds, on the
    length of its count vector or on the values: NaN, infinities, … included) and every `add`:
    the bounds, every per-bucket count and the sample count are equal.
    The sums are what the two code paths compute, and they are bracketed differently:
    directly `((h.sum + v₁) + v₂) + …`; through the local `h.sum + (((0 + v₁) + v₂) + …)` — and when
    nothing was observed the flush is skipped altogether (`h.sum`, not `h.sum + 0`). They are NOT
    claimed equal: f64 addition is not associative (see `local_same_sum_of_assoc`). -/
theorem local_same_rule (add : UInt64 → UInt64 → UInt64) (h : Hist) (vs : List UInt64) :
    let l := vs.foldl (LH.observe add h.bounds) (LH.empty h.bounds.length)
    let viaLocal := h.absorb add l
    let direct := h.observeAll add vs
    viaLocal.bounds = direct.bounds ∧
    viaLocal.counts = direct.counts ∧
    viaLocal.count = direct.count ∧
    viaLocal.sum = (if vs = [] then h.sum else add h.sum (vs.foldl add f64Zero)) ∧
    direct.sum = vs.foldl add h.sum := by
  intro l viaLocal direct
  obtain ⟨lc, ln, ls⟩ := lh_observeAll add h.bounds vs (LH.empty h.bounds.length)
  obtain ⟨db, dc, dn, ds⟩ := hist_observeAll add vs h
  have lc' : l.counts = vs.foldl (bucketStep h.bounds) (List.replicate h.bounds.length 0) := lc
  have ln' : l.count = vs.length := by
    have : l.count = 0 + vs.length := ln
    omega
  have ls' : l.sum = vs.foldl add f64Zero := ls
  cases vs with
  | nil =>
    have hv : viaLocal = h := by
      show h.absorb add l = h
      unfold Hist.absorb
      simp [ln']
    rw [hv]
    exact ⟨rfl, rfl, rfl, by simp, rfl⟩
  | cons v r =>
    have hne : (l.count == 0) = false := by rw [ln']; simp
    have hv : viaLocal = { h with counts := addCounts h.counts l.counts, count := h.count + l.count,
                                  sum := add h.sum l.sum } := by
      show h.absorb add l = _
      unfold Hist.absorb
      simp only [hne, Bool.false_eq_true, if_false]
    refine ⟨by rw [hv]; exact db.symm, ?_, ?_, ?_, ds⟩
    · rw [hv]
      show addCounts h.counts l.counts = direct.counts
      rw [lc', addCounts_foldl_bucketStep h.bounds h.counts _ _ (by simp), addCounts_replicate_zero]
      exact dc.symm
    · rw [hv]
      show h.count + l.count = direct.count
      rw [ln']; exact dn.symm
    · rw [hv]
      show add h.sum l.sum = _
      rw [ls']; simp

/-- if `add` were associative with `0` as a right unit (exact arithmetic; NOT IEEE addition, which
    rounds, and for which `-0 + 0 = +0`), the two paths of `local_same_rule` would also agree on the
    sum, i.e. the flushed histogram would be the directly observed one in every field -/
theorem local_same_sum_of_assoc (add : UInt64 → UInt64 → UInt64)
    (hassoc : ∀ a b c, add (add a b) c = add a (add b c)) (hzero : ∀ a, add a f64Zero = a)
    (h : Hist) (vs : List UInt64) :
    (h.absorb add (vs.foldl (LH.observe add h.bounds) (LH.empty h.bounds.length))).sum
      = (h.observeAll add vs).sum := by
  obtain ⟨_, _, _, hs, hd⟩ := local_same_rule add h vs
  rw [hs, hd]
  by_cases hv : vs = []
  · subst hv; rfl
  · simp only [hv, if_false]
    rw [foldl_assoc add hassoc, hzero]

/-- the sums of the two paths really differ for IEEE addition: shared sum 1e16, then 1.0 twice.
    Directly `(1e16 + 1) + 1 = 1e16` (each step rounds back), through the local handle
    `1e16 + ((0 + 1) + 1) = 1e16 + 2`, which is representable. So the hypothesis of
    `local_same_sum_of_assoc` cannot be dropped. -/
theorem local_sum_differs :
    let h : Hist := { Hist.new [f64One] with sum := 0x4341C37937E08000 }
    (h.absorb f64Add ([f64One, f64One].foldl (LH.observe f64Add h.bounds) (LH.empty h.bounds.length))).sum
      ≠ (h.observeAll f64Add [f64One, f64One]).sum := by
  decide +kernel

/-- **local_same_rule (world form)** — the same through the handle operations of `HW.step`:
    create a local handle (`lnew`; it gets index `w.locals.length`), observe `vs` on it, flush it
    (or drop it, `drop_flushes_histogram`). The shared histogram ends as `Hist.absorb` of the local
    that `local_same_rule` describes, hence with the bounds, bucket counts and sample count of
    `w.shared.observeAll add vs`. -/
theorem local_same_rule_world (add : UInt64 → UInt64 → UInt64) (w : HW) (vs : List UInt64) :
    let k := w.locals.length
    let w' := ((vs.map (HOp.lobs k)).foldl (HW.step add) (w.step add .lnew)).step add (.lflush k)
    w'.shared = w.shared.absorb add (vs.foldl (LH.observe add w.shared.bounds) (LH.empty w.shared.bounds.length)) ∧
    w'.shared.bounds = (w.shared.observeAll add vs).bounds ∧
    w'.shared.counts = (w.shared.observeAll add vs).counts ∧
    w'.shared.count = (w.shared.observeAll add vs).count := by
  intro k w'
  have hnew : (w.step add .lnew).locals[k]? = some (some (LH.empty w.shared.bounds.length)) := by
    simp [HW.step, k]
  obtain ⟨h1, h2⟩ := world_lobs_all add k vs (w.step add .lnew) _ hnew
  have hs0 : (w.step add .lnew).shared = w.shared := rfl
  rw [hs0] at h1 h2
  have hshared : w'.shared = w.shared.absorb add
      (vs.foldl (LH.observe add w.shared.bounds) (LH.empty w.shared.bounds.length)) := by
    show (HW.step add _ (.lflush k)).shared = _
    rw [world_lflush_shared add _ k _ h2, h1]
  obtain ⟨hb, hc, hn, _, _⟩ := local_same_rule add w.shared vs
  exact ⟨hshared, by rw [hshared]; exact hb, by rw [hshared]; exact hc, by rw [hshared]; exact hn⟩

/-! ### the default buckets -/

/-- **default_buckets_accepted** — an empty configuration selects `DEFAULT_BUCKETS` (the constant
    regenerated from the Rust source) and that list is accepted unchanged: it is strictly
    increasing, contains no NaN and has no trailing `+Inf` to drop. -/
theorem default_buckets_accepted :
    checkAndAdjust Gen.defaultBuckets [] = some Gen.defaultBuckets := by
  decide +kernel

/-- the defaults are a strictly increasing list of numbers (the accepted form of `accept_iff`) -/
theorem default_buckets_strictIncr : StrictIncr Gen.defaultBuckets :=
  accepted_strictIncr default_buckets_accepted

/-- passing the defaults explicitly is the same as passing nothing -/
theorem default_buckets_explicit :
    checkAndAdjust Gen.defaultBuckets Gen.defaultBuckets = checkAndAdjust Gen.defaultBuckets [] := by
  decide +kernel

/-- non-vacuity: a non-trivial accepted configuration with a trailing +Inf, -Inf first,
    and a negative zero. -/
example : checkAndAdjust [] [f64NegInf, 0x8000000000000000, f64One, f64PosInf]
    = some [f64NegInf, 0x8000000000000000, f64One] := by decide
example : StrictIncr [f64NegInf, 0x8000000000000000, f64One] := by
  exact (bucketsOk_iff _).1 (by decide)
/-- NaN bounds, duplicates (incl. -0/+0) and descending lists are rejected -/
example : checkAndAdjust [] [f64One, 0x7FF8000000000000, 0x3FE0000000000000] = none := by decide
example : checkAndAdjust [] [0x7FF8000000000001] = none := by decide
example : checkAndAdjust [] [0x8000000000000000, 0] = none := by decide

/-- non-vacuity for `local_same_rule`: bounds 0.5, 1.0; shared histogram already holding counts;
    values 1.0, NaN, -Inf, 2.5, 0.5 through a local handle and directly give the same buckets -/
example :
    let h : Hist := { bounds := [0x3FE0000000000000, f64One], counts := [3, 4], count := 9, sum := f64One }
    let vs : List UInt64 := [f64One, 0x7FF8000000000000, f64NegInf, 0x4004000000000000, 0x3FE0000000000000]
    (h.absorb f64Add (vs.foldl (LH.observe f64Add h.bounds) (LH.empty h.bounds.length))).counts = [5, 5] ∧
    (h.observeAll f64Add vs).counts = [5, 5] ∧ (h.observeAll f64Add vs).count = 14 := by
  decide +kernel

end Prom.C08
